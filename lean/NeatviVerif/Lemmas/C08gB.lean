import NeatviVerif.Lemmas.C08gA
/-!
# C08g: operators with a line motion (`cc`, `cj`, `ck`, `>>`, `>j` …): `vc_motion` down to the operator,
and the line-wise change
-/
set_option linter.unusedSimpArgs false
set_option linter.unusedVariables false
namespace Neatvi.Lemmas.C08g
open Neatvi Neatvi.Uc Neatvi.Vi Neatvi.Ex Neatvi.Lbuf Neatvi.Mot Neatvi.Spec
open Neatvi.Lemmas.C08 Neatvi.Lemmas.C08b Neatvi.Lemmas.C08f
open Neatvi.Lemmas.C09 (finRec pending)
open Neatvi.Props.C08f

/-- `vc_motion cmd` with a line motion `k` whose target row is `t`: the operator is applied to the rows
`[min r t, max r t]` in line mode, in the state after the count and the key were read -/
theorem vcMotion_line (cmd : Nat) (s s1 : VS) (a2 k t : Int) (hk : Prefixed s a2 k s1) (hkpos : 0 < k)
    (ht : lnTarget (setArg2 a2 s) s.ed.xrow cmd k = some t) (ht0 : 0 ≤ t) :
    ∃ a b, vcMotion cmd s = applyOp cmd (min s.ed.xrow t) a (max s.ed.xrow t) b true (setArg2 a2 s1) := by
  obtain ⟨sp, e, hk', hf⟩ := vcMotion_prefixed cmd s s1 a2 k hk
  have hlt : lnTarget (setArg2 a2 sp) s.ed.xrow cmd k = some t := by
    rw [← ht]
    exact lnTarget_congr _ _ _ _ _ hf.ed hf.arg1 rfl hf.xrows
  rw [e, vcCore_apply, readMotion_line cmd s.ed.xrow _ (setArg2 a2 sp) (setArg2 a2 s1) k t hk' hlt (by omega)]
  simp only []
  rw [if_neg (by omega), if_neg (by omega)]
  obtain ⟨a, b, hop⟩ := opRegion_line (setArg2 a2 s1) k s.ed.xrow (noeol s s.ed.xrow s.ed.xoff) t
  rw [hop]
  exact ⟨a, b, rfl⟩

/-! ### line-wise `vi_change` over several rows -/

/-- line-wise `vi_change` over the rows `r1..r2`, the first of which is `body`: the register receives the
rows in line mode; they are replaced by the one row made of the indentation of `body` (with `autoindent`)
and the typed text -/
theorem viChange_rows_spec (s : VS) (r1 r2 o1 o2 : Int) (body cs : List Nat) (K rest : Bytes)
    (hr0 : 0 ≤ r1) (h12 : r1 ≤ r2) (h2 : r2 < lenOf s)
    (hline : (lines s)[r1.toNat]? = some (encStr (body ++ [10])))
    (hb : ∀ c ∈ body, ValidCp c) (hb10 : 10 ∉ body)
    (hin : Inputs K cs) (hp : pending s = K ++ rest) (hpl : ∀ c ∈ cs, ValidCp c) (h10 : 10 ∉ cs)
    (hne : cs.head? ≠ none ∧ cs.head? ≠ some 32 ∧ cs.head? ≠ some 9) (hk : s.xkmap = 0) :
    ∃ s', viChange r1 o1 r2 o2 true s = Res.ok VC_OK s' ∧ pending s' = rest ∧
      s'.ed.regs = s.ed.regs.put s.ybuf (rowsText (lines s) r1 r2) 1 ∧
      Inserted K
        { s with ed := { s.ed with regs := s.ed.regs.put s.ybuf (rowsText (lines s) r1 r2) 1 } } s' r1
        [encStr (indentOf s body ++ cs ++ [10])] (r2.toNat - r1.toNat + 1) r1
        (((indentOf s body).length : Int) + cs.length - 1) := by
  have hl := lineOf_of_get s _ _ hr0 hline
  obtain ⟨lb, hlb⟩ := lb_of_line s _ _ hline
  have hreg : lbufRegion s r1 0 r2 (-1) = some (rowsText (lines s) r1 r2) :=
    Lemmas.C08.lbufRegion_lines s r1 r2 hr0 h12 h2
  obtain ⟨hi, hi10⟩ := indentOf_valid s body hb hb10
  rw [viChange_line_red r1 o1 r2 o2 s _ hreg, hl, viIndents_line s body hb]
  obtain ⟨s', h1, h2', h3⟩ := changeTail_spec (indentOf s body) [] cs
    { s with ed := { s.ed with regs := s.ed.regs.put s.ybuf (rowsText (lines s) r1 r2) 1 } } r1 r2 K rest lb hlb
    hr0 h12 h2 hi (by simp) hi10 (by simp) hin hp hpl h10 hne hk
  exact ⟨s', h1, h2', h3.regs, h3⟩

/-- `LineChanged K s sm s' lo hi body cs`: the rows `lo..hi` (the first of them `body`) were replaced by the
one row `indentation of body ++ cs`; the register named by the prefix received the rows in line mode; the
cursor is on the last typed character -/
structure LineChanged (K : Bytes) (s sm s' : VS) (lo hi : Int) (body cs : List Nat) : Prop where
  lines : lines s' = (lines s).take lo.toNat ++ [encStr (indentOf s body ++ cs ++ [10])] ++ (lines s).drop (hi.toNat + 1)
  regs : s'.ed.regs = s.ed.regs.put s.ybuf (rowsText (Vi.lines s) lo hi) 1
  xrow : s'.ed.xrow = lo
  xoff : s'.ed.xoff = ((indentOf s body).length : Int) + cs.length - 1
  frame : ReadsEd K sm s'

theorem indentOf_congr (s s' : VS) (body : List Nat) (h : s'.xai = s.xai) : indentOf s' body = indentOf s body := by
  unfold indentOf; rw [h]

/-- **generic**: `c` with a line motion `k` whose target row is `t`, then the keys `K` typing `cs` -/
theorem line_change (s s1 : VS) (a2 k t : Int) (body cs : List Nat) (K rest : Bytes)
    (hk : Prefixed s a2 k s1) (hkpos : 0 < k)
    (ht : lnTarget (setArg2 a2 s) s.ed.xrow 99 k = some t)
    (h0 : 0 ≤ s.ed.xrow) (h1 : s.ed.xrow < lenOf s) (ht0 : 0 ≤ t) (ht1 : t < lenOf s)
    (hline : (lines s)[(min s.ed.xrow t).toNat]? = some (encStr (body ++ [10])))
    (hb : ∀ c ∈ body, ValidCp c) (hb10 : 10 ∉ body)
    (hin : Inputs K cs) (hp : pending s1 = K ++ rest) (hpl : ∀ c ∈ cs, ValidCp c) (h10 : 10 ∉ cs)
    (hne : cs.head? ≠ none ∧ cs.head? ≠ some 32 ∧ cs.head? ≠ some 9) (hkm : s.xkmap = 0) :
    ∃ s', vcMotion 99 s = Res.ok VC_OK s' ∧ pending s' = rest ∧
      LineChanged K s (setArg2 a2 s1) s' (min s.ed.xrow t) (max s.ed.xrow t) body cs := by
  obtain ⟨a, b, e⟩ := vcMotion_line 99 s s1 a2 k t hk hkpos ht ht0
  have hf := hk.frame
  have hq := prefixed_qonly hk
  have hls : lines (setArg2 a2 s1) = lines s := hf.lines
  have hap : applyOp 99 (min s.ed.xrow t) a (max s.ed.xrow t) b true = viChange (min s.ed.xrow t) a (max s.ed.xrow t) b true := rfl
  rw [e, hap]
  obtain ⟨s', e1, e2, e3, e4⟩ := viChange_rows_spec (setArg2 a2 s1) (min s.ed.xrow t) (max s.ed.xrow t) a b body cs K rest
    (by omega) (by omega) (by rw [show lenOf (setArg2 a2 s1) = lenOf s from hf.lenOf]; omega)
    (by rw [hls]; exact hline) hb hb10 hin hp hpl h10 hne (by show s1.xkmap = 0; rw [hf.xkmap]; exact hkm)
  have hind : indentOf (setArg2 a2 s1) body = indentOf s body := indentOf_congr _ _ _ hq.xai
  refine ⟨s', e1, e2, ?_, ?_, e4.xrow, ?_, e4.frame.of_ed ⟨_, rfl⟩⟩
  · rw [e4.lines]
    show (lines (setArg2 a2 s1)).take _ ++ _ ++ (lines (setArg2 a2 s1)).drop _ = _
    rw [hls, hind]
    congr 2
    omega
  · rw [e3, hls]
    show s1.ed.regs.put s1.ybuf _ 1 = _
    rw [hf.ed, hf.ybuf]
  · rw [e4.xoff, hind]

end Neatvi.Lemmas.C08g
