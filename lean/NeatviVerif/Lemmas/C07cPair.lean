import NeatviVerif.Lemmas.C07cSim
import NeatviVerif.Lemmas.C07bPair
/-!
# C07c: `lbuf_pair` (`%`) and `lbuf_paragraphbeg` on a valid UTF-8 buffer

`lbuf_pair` compares *first bytes* with the ASCII brackets; the first byte of a multi-byte character is
a lead byte (≥ 192), never a bracket, so the scan agrees with the reference on code points.
`lbuf_paragraphbeg` only asks which lines are `"\n"`: it does not depend on the encoding at all.
-/
set_option linter.unusedSimpArgs false
set_option linter.unusedVariables false
namespace Neatvi.Lemmas.C07c
open Neatvi Neatvi.Uc Neatvi.Mot Neatvi.Spec Neatvi.Spec.Motion Neatvi.Lemmas.C07 Neatvi.Lemmas.C07b

/-! ### `lbuf_paragraphbeg` -/
theorem encStr_eq_nil {w : List Nat} (h : encStr w = []) : w = [] := by
  cases w with
  | nil => rfl
  | cons c r =>
    rw [encStr_cons] at h
    have := enc_ne_nil c
    cases he : enc c with
    | nil => exact absurd he this
    | cons a t => rw [he] at h; cases h

theorem blank_line_iff (w : List Nat) : (encStr (w ++ [10]) = [10]) ↔ w = [] := by
  rw [encStr_append, show encStr [10] = [10] by decide]
  constructor
  · intro h
    apply encStr_eq_nil
    have : encStr w ++ [10] = [] ++ [10] := by rw [h]; rfl
    exact List.append_cancel_right this
  · intro h; subst h; rfl

/-- the test of `lbuf_paragraphbeg` is the same on the encoded buffer and on the buffer of code points -/
theorem isBlank_lsOfU (b : Buf) (r : Int) :
    (lineAt (lsOfU b) r == some [10]) = (lineAt (lsOf b) r == some [10]) := by
  by_cases hr : r < 0 ∨ (b.length : Int) ≤ r
  · rw [lineAt_noneU b r hr, lineAt_none b r hr]
  · obtain ⟨rn, rfl⟩ : ∃ rn : Nat, r = (rn : Int) := ⟨r.toNat, by omega⟩
    have h1 : rn < b.length := by omega
    rw [lineAt_repU b rn h1, lineAt_rep b rn h1]
    rw [Bool.eq_iff_iff]
    simp only [beq_iff_eq, Option.some.injEq]
    rw [blank_line_iff]
    constructor
    · intro h; rw [h]; rfl
    · intro h
      have : rowOf b rn ++ [10] = [] ++ [10] := by simpa using h
      exact List.append_cancel_right this

theorem paragraphbeg_lsOfU (b : Buf) (dir r : Int) : paragraphbeg (lsOfU b) dir r = paragraphbeg (lsOf b) dir r := by
  have hf : (fun r => lineAt (lsOfU b) r == some [10]) = (fun r => lineAt (lsOf b) r == some [10]) :=
    funext (isBlank_lsOfU b)
  have hl : (lsOfU b).length = (lsOf b).length := by simp [lsOfU, lsOf]
  unfold paragraphbeg
  simp only []
  rw [hf, hl]

/-! ### the scan for a bracket on the line -/
theorem openOf_high (c : Nat) (h : 126 ≤ c) : openOf c = none := by
  unfold openOf
  have h1 : (c == 40) = false := by simp; omega
  have h2 : (c == 41) = false := by simp; omega
  have h3 : (c == 91) = false := by simp; omega
  have h4 : (c == 93) = false := by simp; omega
  have h5 : (c == 123) = false := by simp; omega
  have h6 : (c == 125) = false := by simp; omega
  simp [h1, h2, h3, h4, h5, h6]

theorem lbufChr_endU {b : Buf} (hb : Utf8B b) {rn : Nat} (hr : rn < b.length) :
    lbufChr (lsOfU b) (rn : Int) (((rowOf b rn).length + 1 : Nat) : Int) = [] := by
  unfold lbufChr
  rw [lineAt_repU b rn hr]
  simp only []
  rw [chrAt_enc (Utf8W.line (rowOf_utf8 hb hr)) _ (by simp)]
  rw [List.drop_eq_nil_of_le (by simp)]
  rfl

/-- the first byte of character `o` of a row -/
theorem hd_rowU {b : Buf} (hb : Utf8B b) {rn o : Nat} (hr : rn < b.length) (ho : o < (rowOf b rn).length) :
    ValidCp (rowOf b rn)[o] ∧
    (((rowOf b rn)[o] < 128 ∧ Bytes.hd (lbufChr (lsOfU b) (rn : Int) (o : Int)) = (rowOf b rn)[o]) ∨
     (¬ (rowOf b rn)[o] < 128 ∧ 192 ≤ Bytes.hd (lbufChr (lsOfU b) (rn : Int) (o : Int)))) := by
  have hrep : Rep b (rn : Int) (o : Int) (rowStart b rn + o) := ⟨rn, o, rfl, rfl, hr, by omega, rfl⟩
  have hcp : cp b (rowStart b rn + o) = (rowOf b rn)[o] := by
    rw [cp_rep hr (by omega), getD_line_lt _ _ ho]
  have := hd_repU hb hrep
  rw [hcp] at this
  exact ⟨(rowOf_utf8 hb hr).1 _ (List.getElem_mem ho), this⟩

theorem pfind_specU {b : Buf} (hb : Utf8B b) (rn : Nat) (hr : rn < b.length) :
    ∀ f (o : Nat), o ≤ (rowOf b rn).length + 1 → (rowOf b rn).length + 2 ≤ o + f →
      pair.find (lsOfU b) (rn : Int) [40, 41, 91, 93, 123, 125] f (o : Int) =
        (match (List.range (rowOf b rn).length).find?
            (fun j => decide (j ≥ o) && (openOf ((rowOf b rn).getD j 0)).isSome) with
          | some j => some ((j : Int), (rowOf b rn).getD j 0)
          | none => none) := by
  intro f
  induction f with
  | zero => intro o h1 h2; omega
  | succ f ih =>
    intro o h1 h2
    unfold pair.find
    simp only []
    by_cases ho : o < (rowOf b rn).length
    · have hg : (rowOf b rn).getD o 0 = (rowOf b rn)[o] := by
        simp [List.getD, List.getElem?_eq_getElem ho]
      obtain ⟨hv, hh⟩ := hd_rowU hb hr ho
      rcases hh with ⟨hlow, hhd⟩ | ⟨hhigh, hhd⟩
      · rw [hhd]
        rw [if_neg (by have := hv.1; simp; omega), contains_openOf]
        by_cases hbr : (openOf (rowOf b rn)[o]).isSome = true
        · rw [if_pos hbr, findFrom_hit _ _ o ho (by rw [hg]; exact hbr)]
          simp only []
          rw [hg]
        · rw [if_neg hbr, findFrom_skip _ _ o (by rw [hg]; simpa using hbr)]
          rw [show ((o : Int) + 1) = ((o + 1 : Nat) : Int) by omega]
          exact ih (o + 1) (by omega) (by omega)
      · generalize Bytes.hd (lbufChr (lsOfU b) (rn : Int) (o : Int)) = a at hhd
        rw [if_neg (by simp; omega), contains_openOf, openOf_high a (by omega)]
        rw [if_neg (by simp)]
        rw [findFrom_skip _ _ o (by rw [hg, openOf_high _ (by omega)]; rfl)]
        rw [show ((o : Int) + 1) = ((o + 1 : Nat) : Int) by omega]
        exact ih (o + 1) (by omega) (by omega)
    · rw [findFrom_end _ _ o (by omega)]
      simp only []
      by_cases ho' : o = (rowOf b rn).length
      · subst ho'
        rw [lbufChr_repU hb hr (Nat.le_refl _)]
        have : (rowOf b rn ++ [10]).drop (rowOf b rn).length = [10] := by simp
        rw [this]
        rw [show Bytes.hd (encStr [10]) = 10 by decide]
        rw [if_neg (by decide), if_neg (by decide)]
        rw [show (((rowOf b rn).length : Int) + 1) = (((rowOf b rn).length + 1 : Nat) : Int) by omega]
        rw [ih _ (by omega) (by omega), findFrom_end _ _ _ (by omega)]
      · have : o = (rowOf b rn).length + 1 := by omega
        subst this
        rw [lbufChr_endU hb hr]
        simp

/-! ### the search for the partner -/
theorem mstep_hd (pchr other : Nat) (hp : pchr < 128) (ho : other < 128) (a x : Nat) (dep : Int)
    (h : (x < 128 ∧ a = x) ∨ (¬ x < 128 ∧ 192 ≤ a)) : mstep pchr other a dep = mstep pchr other x dep := by
  rcases h with ⟨_, rfl⟩ | ⟨h1, h2⟩
  · rfl
  · unfold mstep
    have e1 : (a == other) = false := by simp; omega
    have e2 : (a == pchr) = false := by simp; omega
    have e3 : (x == other) = false := by simp; omega
    have e4 : (x == pchr) = false := by simp; omega
    simp [e1, e2, e3, e4]

theorem pgo_simU {b : Buf} (hb : Utf8B b) (pchr other : Nat) (hp : pchr < 128) (ho : other < 128) (d : Int)
    (hd : d = 1 ∨ d = -1) (F : Nat) :
    ∀ (f : Nat) {r o : Int} {i : Nat} (dep : Int), rem (total b) d i < F → rem (total b) d i < f → Rep b r o i →
      SimP b (pair.go (lsOfU b) pchr other d F r o dep) (pgo (cp b) (total b) pchr other d f i dep) := by
  induction F with
  | zero => intro f r o i dep h1; omega
  | succ F ih =>
    intro f r o i dep h1 h2 h
    cases f with
    | zero => omega
    | succ f =>
      unfold pair.go pgo
      have hn := next_nxtU hb d hd h
      cases hx : nxt (total b) d i with
      | none => rw [hx] at hn; simp only [] at hn; rw [hn]; trivial
      | some j =>
        rw [hx] at hn
        obtain ⟨r', o', e, hr⟩ := hn
        rw [e]
        simp only []
        have hm := mstep_hd pchr other hp ho (Bytes.hd (lbufChr (lsOfU b) r' o')) (cp b j) dep
          (by rcases hd_repU hb hr with ⟨a1, a2⟩ | ⟨a1, a2⟩
              · exact Or.inl ⟨a1, a2⟩
              · exact Or.inr ⟨a1, a2⟩)
        show SimP b (if (mstep pchr other (Bytes.hd (lbufChr (lsOfU b) r' o')) dep == 0) = true then some (r', o')
            else pair.go (lsOfU b) pchr other d F r' o' (mstep pchr other (Bytes.hd (lbufChr (lsOfU b) r' o')) dep))
          (if (mstep pchr other (cp b j) dep == 0) = true then some j
            else pgo (cp b) (total b) pchr other d f j (mstep pchr other (cp b j) dep))
        rw [hm]
        by_cases hz : (mstep pchr other (cp b j) dep == 0) = true
        · rw [if_pos hz, if_pos hz]; exact hr
        · rw [if_neg hz, if_neg hz]
          have := nxt_rem hx
          exact ih f _ (by omega) (by omega) hr

theorem openOf_lt {c p : Nat} {o : Bool} (h : openOf c = some (p, o)) : c < 128 ∧ p < 128 := by
  rcases openOf_cases h with ⟨rfl, rfl, _⟩ | ⟨rfl, rfl, _⟩ | ⟨rfl, rfl, _⟩ | ⟨rfl, rfl, _⟩ | ⟨rfl, rfl, _⟩ |
    ⟨rfl, rfl, _⟩ <;> omega

/-- **`%` on a valid UTF-8 buffer**, from any character of the buffer -/
theorem pair_repU {b : Buf} (hb : Utf8B b) {rn cn : Nat} (hr : rn < b.length) (hc : cn ≤ (rowOf b rn).length) :
    pair (lsOfU b) (rn : Int) (cn : Int) =
      (pairOf b ⟨rn, cn⟩).map (fun p => ((p.row : Int), (p.col : Int))) := by
  unfold pair pairOf
  simp only []
  rw [slenAt_repU hb rn hr, getElem?_rowOf b rn hr]
  simp only []
  rw [pfind_specU hb rn hr _ cn (by omega) (by simp; omega)]
  cases hfind : (List.range (rowOf b rn).length).find?
      (fun j => decide (j ≥ cn) && (openOf ((rowOf b rn).getD j 0)).isSome) with
  | none => rfl
  | some j =>
    simp only []
    have hj : j < (rowOf b rn).length := by
      have := List.mem_of_find?_eq_some hfind
      simpa using this
    have hop := List.find?_some hfind
    simp only [Bool.and_eq_true] at hop
    cases hopen : openOf ((rowOf b rn).getD j 0) with
    | none => rw [hopen] at hop; simp at hop
    | some po =>
      obtain ⟨partner, opening⟩ := po
      simp only []
      obtain ⟨f1, f2, f3⟩ := bracket_facts hopen
      obtain ⟨l1, l2⟩ := openOf_lt hopen
      rw [f1, f2, indexOf_rep hr (by omega : j ≤ (rowOf b rn).length)]
      simp only []
      have hB := foldl_totalU b
      generalize (lsOfU b).foldl (fun a l => a + l.length) 0 = B at hB ⊢
      have hrep : Rep b (rn : Int) (j : Int) (rowStart b rn + j) := ⟨rn, j, rfl, rfl, hr, by omega, rfl⟩
      have hlt := rep_lt hrep
      have hrem := rem_lt (if opening then (1 : Int) else -1) hlt
      have hsim := pgo_simU hb ((rowOf b rn).getD j 0) partner l1 l2 (if opening then 1 else -1)
        (by cases opening <;> simp) (B + 2) (total b + 2) 1 (by omega) (by omega) hrep
      have heq : pgo (cp b) (total b) ((rowOf b rn).getD j 0) partner (if opening then 1 else -1) (total b + 2)
            (rowStart b rn + j) 1 =
          pairOf.go ((rowOf b rn).getD j 0) partner (flat b)
            (if opening = true then List.filter (fun x => decide (x > rowStart b rn + j)) (List.range (flat b).length)
              else (List.range (rowStart b rn + j)).reverse) 1 := by
        cases opening with
        | true =>
          simp only [if_true]
          rw [flat_length, filter_gt_range]
          exact pgo_fwd_eq b _ _ f3 _ _ 1 (by omega) (by omega)
        | false =>
          simp only [Bool.false_eq_true, if_false]
          exact pgo_bwd_eq b _ _ f3 _ _ 1 (by omega) (by omega)
      rw [← heq]
      generalize pair.go (lsOfU b) ((rowOf b rn).getD j 0) partner (if opening then 1 else -1) (B + 2) rn j 1 = x
        at hsim ⊢
      generalize pgo (cp b) (total b) ((rowOf b rn).getD j 0) partner (if opening then 1 else -1) (total b + 2)
        (rowStart b rn + j) 1 = y at hsim ⊢
      cases x with
      | none =>
        cases y with
        | none => rfl
        | some k => exact absurd hsim (by simp [SimP])
      | some ro =>
        obtain ⟨r', o'⟩ := ro
        cases y with
        | none => exact absurd hsim (by simp [SimP])
        | some k =>
          obtain ⟨rn', cn', rfl, rfl, a1, a2, rfl⟩ := hsim
          simp only [Option.map_some]
          rw [posAt_rep a1 a2]

end Neatvi.Lemmas.C07c
