import NeatviVerif.Lemmas.Ren
/-! Helper lemmas for C17b: the arg-max / arg-min folds of `pos_prev` and `pos_next` for both
values of `cur`, and the last-match fold of `ren_off`. -/
namespace Neatvi.Lemmas.C17b
open Neatvi Neatvi.Ren

/-- one step of the loops of `pos_prev` / `pos_next`: `ok` selects the admissible columns and
    `better a b` says column `a` replaces the current best `b` -/
def optStep (pos : List Nat) (ok : Nat → Bool) (better : Nat → Nat → Bool) (ret : Option Nat) (i : Nat) : Option Nat :=
  match (pos[i]? : Option Nat) with
  | none => ret
  | some pi => if ok pi && (match ret with | none => true | some r => better pi (pos.getD r 0)) then some i else ret

def prevOk (p : Int) (cur : Bool) (pi : Nat) : Bool := Int.ofNat pi + (if cur then 0 else 1) ≤ p
def nextOk (p : Int) (cur : Bool) (pi : Nat) : Bool := Int.ofNat pi - (if cur then 0 else 1) ≥ p

theorem posPrev_eq_opt (pos : List Nat) (n : Nat) (p : Int) (cur : Bool) :
    posPrev pos n p cur = match (List.range n).foldl (optStep pos (prevOk p cur) (fun a b => decide (a > b))) none with
      | some i => (pos.getD i 0 : Int) | none => -1 := rfl

theorem posNext_eq_opt (pos : List Nat) (n : Nat) (p : Int) (cur : Bool) :
    posNext pos n p cur = match (List.range n).foldl (optStep pos (nextOk p cur) (fun a b => decide (a < b))) none with
      | some i => (pos.getD i 0 : Int) | none => -1 := rfl

/-- invariant of the arg-opt fold -/
theorem opt_inv (pos : List Nat) (ok : Nat → Bool) (better : Nat → Nat → Bool)
    (hrefl : ∀ a, better a a = false)
    (htrans : ∀ a b c, better a b = false → better c b = true → better a c = false)
    (k : Nat) (hk : k ≤ pos.length) :
    match (List.range k).foldl (optStep pos ok better) none with
    | some i => i < k ∧ ok (pos.getD i 0) = true ∧
        ∀ j, j < k → ok (pos.getD j 0) = true → better (pos.getD j 0) (pos.getD i 0) = false
    | none => ∀ j, j < k → ok (pos.getD j 0) = false := by
  induction k with
  | zero => simp
  | succ k ih =>
    have ih := ih (by omega)
    rw [List.range_succ, List.foldl_append]
    simp only [List.foldl_cons, List.foldl_nil]
    have hkk : k < pos.length := by omega
    have hgd : pos.getD k 0 = pos[k] := by
      rw [List.getD_eq_getElem?_getD, List.getElem?_eq_getElem hkk]; rfl
    generalize (List.range k).foldl (optStep pos ok better) none = r at ih ⊢
    simp only [optStep, List.getElem?_eq_getElem hkk]
    rw [← hgd]
    cases r with
    | none =>
      simp only [Bool.and_true] at ih ⊢
      by_cases hc : ok (pos.getD k 0) = true
      · rw [if_pos hc]
        refine ⟨by omega, hc, ?_⟩
        intro j hj hjo
        by_cases hjk : j < k
        · rw [ih j hjk] at hjo; cases hjo
        · have : j = k := by omega
          subst this; exact hrefl _
      · rw [if_neg hc]
        intro j hj
        by_cases hjk : j < k
        · exact ih j hjk
        · have : j = k := by omega
          subst this; simpa using hc
    | some r0 =>
      obtain ⟨h1, h2, h3⟩ := ih
      simp only [] at h1 h2 h3 ⊢
      by_cases hc : (ok (pos.getD k 0) && better (pos.getD k 0) (pos.getD r0 0)) = true
      · rw [if_pos hc]
        simp only [Bool.and_eq_true] at hc
        refine ⟨by omega, hc.1, ?_⟩
        intro j hj hjo
        by_cases hjk : j < k
        · exact htrans _ _ _ (h3 j hjk hjo) hc.2
        · have : j = k := by omega
          subst this; exact hrefl _
      · rw [if_neg hc]
        refine ⟨by omega, h2, ?_⟩
        intro j hj hjo
        by_cases hjk : j < k
        · exact h3 j hjk hjo
        · have : j = k := by omega
          subst this
          simp only [Bool.and_eq_true, not_and, Bool.not_eq_true] at hc
          exact hc hjo

/-- the loop of `ren_off`: the last index whose column is `v` -/
theorem off_last (pos : List Nat) (v : Int) (k : Nat) :
    match (List.range k).foldl (offStep pos v) none with
    | some i => i < k ∧ (pos.getD i 0 : Int) = v ∧ ∀ j, j < k → (pos.getD j 0 : Int) = v → j ≤ i
    | none => ∀ j, j < k → (pos.getD j 0 : Int) ≠ v := by
  induction k with
  | zero => simp
  | succ k ih =>
    rw [List.range_succ, List.foldl_append]
    simp only [List.foldl_cons, List.foldl_nil]
    generalize (List.range k).foldl (offStep pos v) none = r at ih ⊢
    simp only [offStep]
    by_cases hc : (pos.getD k 0 : Int) = v
    · have hb : ((pos.getD k 0 : Int) == v) = true := by simpa using hc
      rw [if_pos hb]
      exact ⟨by omega, hc, fun j hj _ => by omega⟩
    · have hb : ¬ ((pos.getD k 0 : Int) == v) = true := by simpa using hc
      rw [if_neg hb]
      cases r with
      | none =>
        intro j hj
        by_cases hjk : j < k
        · exact ih j hjk
        · have : j = k := by omega
          subst this; exact hc
      | some r0 =>
        obtain ⟨h1, h2, h3⟩ := ih
        refine ⟨by omega, h2, ?_⟩
        intro j hj hjv
        by_cases hjk : j < k
        · exact h3 j hjk hjv
        · have : j = k := by omega
          subst this; exact absurd hjv hc

end Neatvi.Lemmas.C17b
