import NeatviVerif.Model.RegexVM
import NeatviVerif.Lemmas.C11Wf
/-!
# C11, part 4: the VM on well-formed programs never takes the checked-edge trap
-/
namespace Neatvi.Props.C11
open Neatvi Neatvi.Regex

variable (cx : Ctx)

/-! ## unfolding lemmas, one per instruction -/

theorem loop_none {dep pc pos m cuts} (h : cx.prog[pc]? = none) :
    loop cx dep pc pos m cuts = Res.trap := by
  rw [loop]; split <;> simp_all <;> rfl

theorem loop_atom {dep pc pos m cuts a} (h : cx.prog[pc]? = some (Inst.atom a)) :
    loop cx dep pc pos m cuts =
      match atomMatch a cx.subj cx.flg pos with
      | AR.fail => Res.fail cuts
      | AR.trap => Res.trap
      | AR.ok pos' => loop cx dep (pc + 1) pos' m cuts := by
  rw [loop]; split <;> simp_all <;> rfl

theorem loop_mark {dep pc pos m cuts k} (h : cx.prog[pc]? = some (Inst.mark k)) :
    loop cx dep pc pos m cuts =
      loop cx dep (pc + 1) pos (if k < cx.ngrps then m.set k (pos : Int) else m) cuts := by
  rw [loop]; split <;> simp_all <;> rfl

theorem loop_jump {dep pc pos m cuts a} (h : cx.prog[pc]? = some (Inst.jump a)) :
    loop cx dep pc pos m cuts = if a > pc then loop cx dep a pos m cuts else Res.trap := by
  rw [loop]; split <;> simp_all <;> rfl

theorem loop_fork {dep pc pos m cuts a1 a2} (h : cx.prog[pc]? = some (Inst.fork a1 a2)) :
    loop cx dep pc pos m cuts =
      match act cx dep a1 pos m cuts with
      | Res.ok p' m' c' => Res.ok p' m' c'
      | Res.trap => Res.trap
      | Res.fail c' => if a2 > pc then loop cx dep a2 pos m c' else Res.trap := by
  rw [loop]; split <;> simp_all <;> rfl

theorem loop_mtch {dep pc pos m cuts} (h : cx.prog[pc]? = some Inst.mtch) :
    loop cx dep pc pos m cuts = Res.ok pos m cuts := by
  rw [loop]; split <;> simp_all <;> rfl

theorem act_eq {dep pc pos m cuts} :
    act cx dep pc pos m cuts =
      if dep ≥ cx.nd then Res.fail (cuts + 1) else loop cx (dep + 1) pc pos m cuts := by
  rw [act]

/-! ## a generic induction principle following the measure of the definition -/

/-- to prove `P` of every `loop` call it is enough to prove it assuming `P` for all calls one level
    deeper and for all calls at the same level with a larger `pc` -/
theorem loop_induction (P : Nat → Nat → Prop)
    (step : ∀ dep pc, (∀ pc', dep < cx.nd → P (dep + 1) pc') →
      (∀ pc', pc < pc' → pc < cx.prog.length → P dep pc') → P dep pc) :
    ∀ dep pc, P dep pc := by
  have outer : ∀ k dep, cx.nd - dep ≤ k → ∀ pc, P dep pc := by
    intro k
    induction k with
    | zero =>
      intro dep hk
      have inner : ∀ j pc, cx.prog.length - pc ≤ j → P dep pc := by
        intro j
        induction j with
        | zero =>
          intro pc hj
          exact step dep pc (fun pc' h => by omega) (fun pc' h h' => by omega)
        | succ j ih =>
          intro pc hj
          exact step dep pc (fun pc' h => by omega) (fun pc' h h' => ih pc' (by omega))
      intro pc
      exact inner _ pc (Nat.le_refl _)
    | succ k ihk =>
      intro dep hk
      have inner : ∀ j pc, cx.prog.length - pc ≤ j → P dep pc := by
        intro j
        induction j with
        | zero =>
          intro pc hj
          exact step dep pc (fun pc' h => ihk (dep + 1) (by omega) pc') (fun pc' h h' => by omega)
        | succ j ih =>
          intro pc hj
          exact step dep pc (fun pc' h => ihk (dep + 1) (by omega) pc')
            (fun pc' h h' => ih pc' (by omega))
      intro pc
      exact inner _ pc (Nat.le_refl _)
  intro dep pc
  exact outer _ dep (Nat.le_refl _) pc

/-! ## `no_edge_trap` -/

theorem loop_no_trap (hwf : WfProg cx.prog)
    (hat : ∀ a pos, atomMatch a cx.subj cx.flg pos ≠ AR.trap) :
    ∀ dep pc, pc < cx.prog.length → ∀ pos m cuts, loop cx dep pc pos m cuts ≠ Res.trap := by
  apply loop_induction cx (fun dep pc =>
    pc < cx.prog.length → ∀ pos m cuts, loop cx dep pc pos m cuts ≠ Res.trap)
  intro dep pc ihd ihp hpc pos m cuts
  obtain ⟨inst, hi⟩ : ∃ inst, cx.prog[pc]? = some inst := ⟨_, List.getElem?_eq_getElem hpc⟩
  have hw := hwf pc inst hi
  cases inst with
  | atom a =>
    simp only [EdgeOk] at hw
    rw [loop_atom cx hi]
    split
    · intro h; cases h
    · rename_i heq; exact absurd heq (hat a pos)
    · exact ihp (pc + 1) (by omega) hpc hw _ _ _
  | mark k =>
    simp only [EdgeOk] at hw
    rw [loop_mark cx hi]
    exact ihp (pc + 1) (by omega) hpc hw _ _ _
  | jump a =>
    simp only [EdgeOk] at hw
    rw [loop_jump cx hi, if_pos hw.1]
    exact ihp a hw.1 hpc hw.2 _ _ _
  | fork a1 a2 =>
    simp only [EdgeOk] at hw
    rw [loop_fork cx hi]
    split
    · intro h; cases h
    · rename_i heq
      rw [act_eq] at heq
      split at heq
      · cases heq
      · exact absurd heq (ihd a1 (by omega) hw.1 _ _ _)
    · rw [if_pos hw.2.1]
      exact ihp a2 hw.2.1 hpc hw.2.2 _ _ _
  | mtch =>
    rw [loop_mtch cx hi]
    intro h; cases h

theorem act_no_trap (hwf : WfProg cx.prog)
    (hat : ∀ a pos, atomMatch a cx.subj cx.flg pos ≠ AR.trap) :
    ∀ dep pc, pc < cx.prog.length → ∀ pos m cuts, act cx dep pc pos m cuts ≠ Res.trap := by
  intro dep pc hpc pos m cuts
  rw [act_eq]
  split
  · intro h; cases h
  · exact loop_no_trap cx hwf hat _ _ hpc _ _ _

end Neatvi.Props.C11
