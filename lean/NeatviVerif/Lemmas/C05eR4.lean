import NeatviVerif.Lemmas.C05eR3
/-!
# C05e lemmas, part R4: the group offsets the matcher reports are sane

`replace()` of `ec_substitute` copies `offs[2g+1] - offs[2g]` bytes from `ln + offs[2g]` for every `\g` in the
replacement; a negative length or a range outside the line is a memory error.  From the declarative semantics of the
VM (`C10.regexec_sound`): in the marks of a successful match every group `g ≥ 1` is either unset (`-1, -1`) or a pair
`so ≤ eo` of positions up to the end of the match — because the code of a group is entered at `mark 2g` and can only
be left through `mark 2g+1`, and no group contains a group of the same number.
-/
namespace Neatvi.Lemmas.C05e
open Neatvi Neatvi.Uc Neatvi.Regex Neatvi.Rset Neatvi.Props.C10 Neatvi.Lemmas.C10

/-- group `j` in the marks `m`: unset, or a pair of positions `a ≤ b ≤ hi` -/
def PairAt (m : Marks) (hi : Nat) (j : Nat) : Prop :=
  (m[2 * j]? = some (-1) ∧ m[2 * j + 1]? = some (-1)) ∨
  ∃ a b : Nat, m[2 * j]? = some (a : Int) ∧ m[2 * j + 1]? = some (b : Int) ∧ a ≤ b ∧ b ≤ hi

theorem PairAt.mono {m : Marks} {hi hi' j : Nat} (h : PairAt m hi j) (hh : hi ≤ hi') : PairAt m hi' j := by
  rcases h with h | ⟨a, b, h1, h2, h3, h4⟩
  · exact Or.inl h
  · exact Or.inr ⟨a, b, h1, h2, h3, by omega⟩

theorem PairAt.congr {m m' : Marks} {hi j : Nat} (h : PairAt m hi j) (h1 : m'[2 * j]? = m[2 * j]?)
    (h2 : m'[2 * j + 1]? = m[2 * j + 1]?) : PairAt m' hi j := by
  unfold PairAt
  rw [h1, h2]; exact h

/-- every group outside `X` whose marks exist is paired -/
def Paired (X : Nat → Prop) (r : Nat × Marks) : Prop :=
  ∀ j, ¬ X j → 2 * j + 1 < r.2.length → PairAt r.2 r.1 j

section pairs
variable {subj : Bytes} {flg ngrps : Nat}

theorem iter_pres {t : RNode} {P : Nat × Marks → Prop}
    (hone : ∀ r s, One subj flg ngrps t r s → P r → P s) :
    ∀ k r r', Iter subj flg ngrps t k r r' → P r → P r' := by
  intro k
  induction k with
  | zero => intro r r' h hp; cases h; exact hp
  | succ k ih => intro r r' h hp; cases h with | succ h1 h2 => exact ih _ _ h2 (hone _ _ h1 hp)

/-- **the marks stay paired** through every tree whose groups are fresh in their bodies (`ngrps` even) -/
theorem matches_paired (K : Nat) (hev : ngrps = 2 * K) (t : RNode) : GrpFresh t →
    ∀ (X : Nat → Prop) (r r' : Nat × Marks), (∀ i ∈ markIdx t, ¬ X (i / 2)) →
      Matches subj flg ngrps t r r' → Paired X r → Paired X r' := by
  induction t with
  | nul => intro _ X r r' _ h hp; cases h; exact hp
  | atom a mn mx =>
    intro _ X r r' _ h hp
    cases h with
    | atom hk hi =>
      refine iter_pres (P := Paired X) ?_ _ _ _ hi hp
      intro r s h1 hq
      cases h1 with
      | atom hm =>
        intro j hj hl
        exact (hq j hj hl).mono (atomMatch_le hm)
  | cat a b iha ihb =>
    intro hf X r r' hX h hp
    cases h with
    | cat h1 h2 =>
      exact ihb hf.2 X _ _ (fun i hi => hX i (by simp [markIdx, hi])) h2
        (iha hf.1 X _ _ (fun i hi => hX i (by simp [markIdx, hi])) h1 hp)
  | alt a b iha ihb =>
    intro hf X r r' hX h hp
    cases h with
    | altl h1 => exact iha hf.1 X _ _ (fun i hi => hX i (by simp [markIdx, hi])) h1 hp
    | altr h1 => exact ihb hf.2 X _ _ (fun i hi => hX i (by simp [markIdx, hi])) h1 hp
  | grp a g mn mx iha =>
    intro hf X r r' hX h hp
    obtain ⟨hf1, hf2, hf3⟩ := hf
    have hgX : ¬ X g := by
      have := hX (2 * g) (by simp [markIdx])
      rwa [Nat.mul_div_cancel_left g (by omega : 0 < 2)] at this
    cases h with
    | grp hk hi =>
      refine iter_pres (P := Paired X) ?_ _ _ _ hi hp
      intro r s h1 hq
      cases h1 with
      | grp hm =>
        rename_i pos pos' m m'
        have hs := matches_span a _ _ hm
        have hle : pos ≤ pos' := hs.1
        have hlen : m'.length = m.length := by
          have := hs.2.1; simp only [setMk_length] at this; exact this
        -- the body, with group `g` open
        have hq' : Paired (fun j => X j ∨ j = g) (pos, setMk ngrps m (2 * g) pos) := by
          intro j hj hl
          simp only [not_or] at hj
          simp only [setMk_length] at hl
          exact (hq j hj.1 hl).congr (setMk_get_ne _ _ _ _ _ (by omega)) (setMk_get_ne _ _ _ _ _ (by omega))
        have hXa : ∀ i ∈ markIdx a, ¬ (X (i / 2) ∨ i / 2 = g) := by
          intro i hi
          simp only [not_or]
          refine ⟨hX i (by simp [markIdx, hi]), ?_⟩
          intro hg
          have : i = 2 * g ∨ i = 2 * g + 1 := by omega
          rcases this with rfl | rfl
          · exact hf1 hi
          · exact hf2 hi
        have hb := iha hf3 (fun j => X j ∨ j = g) _ _ hXa hm hq'
        -- close the group
        intro j hj hl
        simp only [setMk_length] at hl
        by_cases hjg : j = g
        · subst hjg
          have e0 : m'[2 * j]? = (setMk ngrps m (2 * j) pos)[2 * j]? := matches_frame a _ _ hm _ hf1
          have e1 : m'[2 * j + 1]? = (setMk ngrps m (2 * j) pos)[2 * j + 1]? := matches_frame a _ _ hm _ hf2
          by_cases hin : 2 * j + 1 < ngrps
          · refine Or.inr ⟨pos, pos', ?_, ?_, hle, Nat.le_refl _⟩
            · show (setMk ngrps m' (2 * j + 1) pos')[2 * j]? = _
              rw [setMk_get_ne _ _ _ _ _ (by omega), e0]
              exact setMk_get_self _ _ _ _ (by omega) (by omega)
            · exact setMk_get_self _ _ _ _ hin hl
          · have hin0 : ¬ 2 * j < ngrps := by omega
            have hfin : setMk ngrps m' (2 * j + 1) pos' = m' := by unfold setMk; rw [if_neg hin]
            have hst : setMk ngrps m (2 * j) pos = m := by unfold setMk; rw [if_neg hin0]
            show PairAt (setMk ngrps m' (2 * j + 1) pos') pos' j
            rw [hfin]
            rw [hst] at e0 e1
            exact ((hq j hj (by show 2 * j + 1 < m.length; omega)).mono hle).congr e0 e1
        · exact (hb j (by simp only [not_or]; exact ⟨hj, hjg⟩) hl).congr
            (setMk_get_ne _ _ _ _ _ (by omega)) (setMk_get_ne _ _ _ _ _ (by omega))

end pairs

end Neatvi.Lemmas.C05e
