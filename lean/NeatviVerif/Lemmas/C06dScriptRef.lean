import NeatviVerif.Lemmas.C06dScript
import NeatviVerif.Lemmas.C06dXrow
/-!
# C06d: scripts of command lines, every splice computed by the reference address evaluator
-/
set_option linter.unusedSimpArgs false
namespace Neatvi.Lemmas.C06d
open Neatvi Neatvi.Lbuf Neatvi.Ex Neatvi.Lemmas.C06 Neatvi.Lemmas.C06b
open Neatvi.Props.C06b Neatvi.Props.C06c

/-- the splice of a reference operation on the region `b..e` -/
def LineOp.splice (b e : Int) : LineOp → Splice
  | .delete => (b.toNat, e.toNat, [])
  | .keep => (0, 0, [])
  | .append new => (e.toNat, e.toNat, new)
  | .insert new => (b.toNat, b.toNat, new)
  | .change new => (b.toNat, e.toNat, new)

theorem LineOp.splice_apply (op : LineOp) (t : List Bytes) (b e : Int) :
    applySplice t (op.splice b e) = op.apply t b.toNat e.toNat := by
  cases op <;> simp [LineOp.splice, LineOp.apply, applySplice]

/-- **the reference splice** of the parsed command `c` with address tree `loc` in state `ed` (`rc` its return code:
    a failing command changes no line): the command's reference operation on the region the reference evaluator
    gives for `loc` -/
def spliceRef (ed : Ed) (c : LineCmd) (loc : Loc) (rc : Int) : Splice :=
  if rc != 0 then (0, 0, []) else
  (opOf ed c (refRegionOf ed loc).1 (refRegionOf ed loc).2).splice (refRegionOf ed loc).1 (refRegionOf ed loc).2

/-- the model's splice is the reference splice -/
theorem spliceOfX_ref (ed : Ed) (c : LineCmd) (loc : Loc) (rc : Int) (hloc : c.loc = loc.render) (hok : loc.Ok)
    (hx : ed.xrow ≠ -1000000) : spliceOfX ed c rc = spliceRef ed c loc rc := by
  unfold spliceRef
  rw [← regionOf_ref ed loc hok hx, ← hloc]
  unfold spliceOfX opOf
  by_cases h0 : (rc != 0) = true
  · rw [if_pos h0]
    unfold execSplice spliceOf
    simp [h0]
  · rw [if_neg h0]
    by_cases h1 : (c.hd == "ec_exec") = true
    · rw [if_pos h1, if_pos h1]
      unfold execSplice
      rw [if_neg h0]
      cases pathExpand ed c.arg true with
      | none => rfl
      | some x =>
        obtain ⟨p, ed1⟩ := x
        cases p with
        | none => rfl
        | some ecmd =>
          simp only []
          cases ed.pipe ecmd (ed.cp (regionOf ed c.loc).1 (regionOf ed c.loc).2) with
          | none => rfl
          | some o => cases o <;> rfl
    · rw [if_neg h1, if_neg h1]
      unfold spliceOf
      rw [if_neg h0]
      simp only []
      by_cases h2 : (c.hd == "ec_delete") = true
      · rw [if_pos h2, if_pos h2]; rfl
      · rw [if_neg h2, if_neg h2]
        by_cases h3 : (c.hd == "ec_insert") = true
        · rw [if_pos h3, if_pos h3]
          by_cases c1 : c.cmd.headD 0 = 97
          · simp only [c1, show ¬ ((97 : Nat) = 99) by decide, if_true, if_false, LineOp.splice]
          · by_cases c2 : c.cmd.headD 0 = 99
            · simp only [c2, show ¬ ((99 : Nat) = 97) by decide, if_true, if_false, LineOp.splice]
            · simp only [c1, c2, if_false, LineOp.splice]
        · rw [if_neg h3, if_neg h3]
          by_cases h4 : (c.hd == "ec_put") = true
          · rw [if_pos h4, if_pos h4]
            cases regGet ed (regName c.arg) <;> rfl
          · rw [if_neg h4, if_neg h4]
            by_cases h5 : (c.hd == "ec_read") = true
            · rw [if_pos h5, if_pos h5]; rfl
            · rw [if_neg h5, if_neg h5]; rfl

theorem exTxt_world (ed : Ed) (src abbr : Bytes) :
    worldOf (exTxt ed src abbr).2 = worldOf ed ∧ cursorOf (exTxt ed src abbr).2 = cursorOf ed := by
  unfold exTxt
  simp only []
  repeat' split
  all_goals exact ⟨rfl, rfl⟩

/-- `ex_txt` (which only takes pending input lines) does not change what an address means -/
theorem refRegionOf_exTxt (ed : Ed) (src abbr : Bytes) (loc : Loc) :
    refRegionOf (exTxt ed src abbr).2 loc = refRegionOf ed loc := by
  unfold refRegionOf
  rw [(exTxt_world ed src abbr).1, (exTxt_world ed src abbr).2]

theorem exTxt_xrow (ed : Ed) (src abbr : Bytes) : (exTxt ed src abbr).2.xrow = ed.xrow := by
  have := congrArg Cursor.cur (exTxt_world ed src abbr).2
  exact this

theorem modifiedAt_xrow (ed : Ed) (i : Nat) : (ed.modifiedAt i).2.xrow = ed.xrow := by
  rw [Lemmas.C06c.modifiedAt_fields]

/-- a script line covered here: one command with an address tree and an argument with backslash pairs, of the table,
    among `a i c d y pu k = p r` -/
def CoveredLineX (c : CmdX) : Prop :=
  c.Ok [] ∧ c.cmd1.bytes ≠ [] ∧ c.cmd1.bytes.length < Gen.EXLEN ∧ ∃ a hd, exIdx c.cmd1.cmd = some (a, hd) ∧ hd ∈ covered

theorem coveredLineG_of_X (c : CmdX) (h : CoveredLineX c) : CoveredLineG c.cmd1 :=
  ⟨parses_of_okX c [] h.1, h.2.1, h.2.2.1, h.2.2.2⟩

/-- run a script of one-command lines through `ex_command`, collecting the *reference* splices -/
def runLinesRef (f : Nat) : Ed → List CmdX → Option (List Splice × Ed)
  | ed, [] => some ([], ed)
  | ed, c :: cs =>
    match exCommand (f + 3) ed c.cmd1.bytes with
    | none => none
    | some (rc, ed1) =>
      (runLinesRef f ed1 cs).map (fun x => (spliceRef (lineCmd ed c.cmd1).2 (lineCmd ed c.cmd1).1 c.loc rc :: x.1, x.2))

/-- along a script that starts with `-1 ≤ xrow`, the reference splices are the model's splices -/
theorem runLinesRef_eq (f : Nat) : ∀ (script : List CmdX) (ed : Ed), (∀ c ∈ script, CoveredLineX c) → -1 ≤ ed.xrow →
    runLinesRef f ed script = runLines f ed (script.map CmdX.cmd1) ∧
    ∀ ss ed', runLinesRef f ed script = some (ss, ed') → -1 ≤ ed'.xrow := by
  intro script
  induction script with
  | nil =>
    intro ed _ h0
    refine ⟨rfl, fun ss ed' h => ?_⟩
    simp only [runLinesRef, Option.some.injEq, Prod.mk.injEq] at h
    rw [← h.2]; exact h0
  | cons c cs ih =>
    intro ed hcov h0
    obtain ⟨hok, hne, hlen, a, hd, hi, hc⟩ := hcov c (by simp)
    have hpar := parses_of_okX c [] hok
    simp only [runLinesRef, List.map_cons, runLines]
    cases hrun : exCommand (f + 3) ed c.cmd1.bytes with
    | none => exact ⟨rfl, fun ss ed' h => by cases h⟩
    | some x =>
      obtain ⟨rc, ed1⟩ := x
      simp only []
      have hrun' := hrun
      rw [exCommand_line_gen (f + 1) ed c.cmd1 a hd hpar hne hlen hi] at hrun'
      simp only [Option.map_eq_some_iff, Prod.mk.injEq] at hrun'
      obtain ⟨⟨rc', edr⟩, hr, rfl, rfl⟩ := hrun'
      have hlc : lineCmd ed c.cmd1 = (⟨hd, c.cmd1.loc, c.cmd1.cmd, c.cmd1.arg, (exTxt ed [] a).1.1⟩, (exTxt ed [] a).2) := by
        simp only [lineCmd, hi]
      have hx1 : -1 ≤ edr.xrow :=
        runCmd_xrow f (exTxt ed [] a).2 edr ⟨hd, c.cmd1.loc, c.cmd1.cmd, c.cmd1.arg, (exTxt ed [] a).1.1⟩ rc'
          (Or.inl hc) (by rw [exTxt_xrow]; exact h0) hr
      have hx2 : -1 ≤ (edr.modifiedAt 0).2.xrow := by rw [modifiedAt_xrow]; exact hx1
      obtain ⟨i1, i2⟩ := ih (edr.modifiedAt 0).2 (fun x hx => hcov x (by simp [hx])) hx2
      have hsp : spliceRef (lineCmd ed c.cmd1).2 (lineCmd ed c.cmd1).1 c.loc rc' =
          spliceOf (lineCmd ed c.cmd1).2 (lineCmd ed c.cmd1).1 rc' := by
        rw [hlc]
        simp only []
        have hne' : (hd == "ec_exec") = false := by
          simp only [covered, List.mem_cons, List.not_mem_nil, or_false] at hc
          rcases hc with k | k | k | k | k | k | k | k | k <;> rw [k] <;> decide
        have := spliceOfX_ref (exTxt ed [] a).2 ⟨hd, c.cmd1.loc, c.cmd1.cmd, c.cmd1.arg, (exTxt ed [] a).1.1⟩ c.loc rc' rfl
          hok.gen.loc_ok (by rw [exTxt_xrow]; omega)
        rw [← this]
        unfold spliceOfX
        simp only [hne', Bool.false_eq_true, if_false]
      constructor
      · rw [i1, hsp]
      · intro ss ed' h
        simp only [Option.map_eq_some_iff, Prod.mk.injEq] at h
        obtain ⟨⟨ss1, ed2⟩, h1, _, rfl⟩ := h
        exact i2 ss1 ed2 h1

/-- **script_frame for command lines with general addresses, reference regions.**  A script of command lines
    `[addr]cmd [arg]`, `cmd` among `a i c d y pu k = p r`, the address any tree of numbers, `.`, `$`, marks, closed
    search patterns, offsets, `,` `;` `%`, the argument with backslash pairs, each line run through `ex_command`,
    starting in a state with `-1 ≤ xrow`: the final text is the initial text put through one splice per line — the
    command's reference operation on the region the *reference* address evaluator gives in the state before the
    line; each splice lies inside the text it applies to; and `-1 ≤ xrow` still holds -/
theorem script_frame_lines_ref (f : Nat) (script : List CmdX) (ed ed' : Ed) (ss : List Splice)
    (hcov : ∀ c ∈ script, CoveredLineX c) (h0 : -1 ≤ ed.xrow) (h : runLinesRef f ed script = some (ss, ed')) :
    lines ed' = applySplices (lines ed) ss ∧ ss.length = script.length ∧ SplicesOk (lines ed) ss ∧ -1 ≤ ed'.xrow := by
  obtain ⟨e1, e2⟩ := runLinesRef_eq f script ed hcov h0
  rw [e1] at h
  obtain ⟨k1, k2, k3⟩ := script_frame_lines_gen f (script.map CmdX.cmd1) ed ed' ss
    (fun c hc => by
      obtain ⟨x, hx, rfl⟩ := List.mem_map.mp hc
      exact coveredLineG_of_X x (hcov x hx)) h
  refine ⟨k1, by simpa using k2, k3, e2 ss ed' (by rw [e1]; exact h)⟩

/-! ### scripts of parsed commands (filters included) -/

/-- run a script of parsed line commands, each with the tree of its address, collecting the reference splices -/
def runScriptRef (f : Nat) : Ed → List (LineCmd × Loc) → Option (List Splice × Ed)
  | ed, [] => some ([], ed)
  | ed, (c, loc) :: cs =>
    match runCmd (f + 1) ed c.hd c.loc c.cmd c.arg c.txt with
    | none => none
    | some (rc, ed1) => (runScriptRef f ed1 cs).map (fun x => (spliceRef ed c loc rc :: x.1, x.2))

/-- the command is covered (`a i c d y pu k = p r rs` or a filter with an address) and its address is the text of a
    well-formed tree -/
def CoveredRef (p : LineCmd × Loc) : Prop := CoveredX p.1 ∧ p.1.loc = p.2.render ∧ p.2.Ok

theorem runScriptRef_eq (f : Nat) : ∀ (script : List (LineCmd × Loc)) (ed : Ed), (∀ p ∈ script, CoveredRef p) →
    -1 ≤ ed.xrow →
    runScriptRef f ed script = runScriptX f ed (script.map Prod.fst) ∧
    ∀ ss ed', runScriptRef f ed script = some (ss, ed') → -1 ≤ ed'.xrow := by
  intro script
  induction script with
  | nil =>
    intro ed _ h0
    refine ⟨rfl, fun ss ed' h => ?_⟩
    simp only [runScriptRef, Option.some.injEq, Prod.mk.injEq] at h
    rw [← h.2]; exact h0
  | cons p cs ih =>
    obtain ⟨c, loc⟩ := p
    intro ed hcov h0
    obtain ⟨hc, hloc, hok⟩ := hcov (c, loc) (by simp)
    simp only [] at hc hloc hok
    simp only [runScriptRef, List.map_cons, runScriptX]
    cases hrun : runCmd (f + 1) ed c.hd c.loc c.cmd c.arg c.txt with
    | none => exact ⟨rfl, fun ss ed' h => by cases h⟩
    | some x =>
      obtain ⟨rc, ed1⟩ := x
      simp only []
      have hx1 := runCmd_xrow f ed ed1 c rc hc h0 hrun
      obtain ⟨i1, i2⟩ := ih ed1 (fun q hq => hcov q (by simp [hq])) hx1
      rw [i1, spliceOfX_ref ed c loc rc hloc hok (by omega)]
      refine ⟨rfl, fun ss ed' h => ?_⟩
      cases h1 : runScriptX f ed1 (cs.map Prod.fst) with
      | none => rw [h1] at h; cases h
      | some z =>
        obtain ⟨ss1, ed2⟩ := z
        rw [h1] at h
        simp only [Option.map_some, Option.some.injEq, Prod.mk.injEq] at h
        rw [← h.2]
        exact i2 ss1 ed2 (by rw [i1]; exact h1)

/-- **script_frame, reference regions, filters included**: after a script of `a i c d y pu k = p r rs` and filters
    `[range]!cmd` whose addresses are texts of well-formed trees, started with `-1 ≤ xrow`, the text is the initial
    text put through one reference splice per command -/
theorem script_frame_ref (f : Nat) (script : List (LineCmd × Loc)) (ed ed' : Ed) (ss : List Splice)
    (hcov : ∀ p ∈ script, CoveredRef p) (h0 : -1 ≤ ed.xrow) (h : runScriptRef f ed script = some (ss, ed')) :
    lines ed' = applySplices (lines ed) ss ∧ ss.length = script.length ∧ SplicesOk (lines ed) ss ∧ -1 ≤ ed'.xrow := by
  obtain ⟨e1, e2⟩ := runScriptRef_eq f script ed hcov h0
  rw [e1] at h
  obtain ⟨k1, k2, k3⟩ := script_frame_x f (script.map Prod.fst) ed ed' ss
    (fun c hc => by
      obtain ⟨p, hp, rfl⟩ := List.mem_map.mp hc
      exact (hcov p hp).1) h
  exact ⟨k1, by simpa using k2, k3, e2 ss ed' (by rw [e1]; exact h)⟩

/-! ### lines `c1|c2|…` -/

/-- the commands of one line `c1|c2|…` in order, collecting the reference splices -/
def runBarRef (f : Nat) : Ed → List CmdX → Int → Option (List Splice × Int × Ed)
  | ed, [], ret => some ([], ret, ed)
  | ed, c :: cs, ret =>
    match runOne (f + 1) ed (c.cmd1.parsed (joinBarX cs)) ret with
    | none => none
    | some ((r, ed1), _) =>
      (runBarRef f ed1 cs r).map (fun x => (spliceRef (lineCmd ed c.cmd1).2 (lineCmd ed c.cmd1).1 c.loc r :: x.1, x.2))

/-- a command of a script line: not `rs`, in the table, among `a i c d y pu k = p r`, its address a well-formed tree -/
def CoveredCmdX (c : CmdX) : Prop := CoveredCmd c.cmd1 ∧ c.loc.Ok

theorem runBarRef_eq (f : Nat) : ∀ (cs : List CmdX) (ed : Ed) (ret : Int), (∀ c ∈ cs, CoveredCmdX c) → -1 ≤ ed.xrow →
    runBarRef f ed cs ret = runBar f ed (cs.map CmdX.cmd1) ret ∧
    ∀ ss r ed', runBarRef f ed cs ret = some (ss, r, ed') → -1 ≤ ed'.xrow := by
  intro cs
  induction cs with
  | nil =>
    intro ed ret _ h0
    refine ⟨rfl, fun ss r ed' h => ?_⟩
    simp only [runBarRef, Option.some.injEq, Prod.mk.injEq] at h
    rw [← h.2.2]; exact h0
  | cons c cs ih =>
    intro ed ret hcov h0
    obtain ⟨⟨hrs, a, hd, hi, hc⟩, hlok⟩ := hcov c (by simp)
    have hrs' : isRs a = false := by simpa only [hi, abbrOf] using hrs
    simp only [runBarRef, List.map_cons, runBar]
    have hjb : joinBarX cs = joinBar (cs.map CmdX.cmd1) := rfl
    rw [hjb]
    cases hrun : runOne (f + 1) ed (c.cmd1.parsed (joinBar (cs.map CmdX.cmd1))) ret with
    | none => exact ⟨rfl, fun ss r ed' h => by cases h⟩
    | some x =>
      obtain ⟨⟨r1, ed1⟩, rest⟩ := x
      simp only []
      obtain ⟨e1, e2⟩ := exTxt_src_indep ed (joinBar (cs.map CmdX.cmd1)) a hrs'
      have hcmd : runCmd (f + 1) (exTxt ed [] a).2 hd c.cmd1.loc c.cmd1.cmd c.cmd1.arg (exTxt ed [] a).1.1 = some (r1, ed1) := by
        unfold runOne at hrun
        simp only [Cmd1.parsed, hi, abbrOf] at hrun
        rw [e1, e2] at hrun
        split at hrun
        · cases hrun
        · rename_i r' ed' hr
          simp only [Option.some.injEq, Prod.mk.injEq] at hrun
          obtain ⟨⟨rfl, rfl⟩, _⟩ := hrun
          exact hr
      have hlc : lineCmd ed c.cmd1 = (⟨hd, c.cmd1.loc, c.cmd1.cmd, c.cmd1.arg, (exTxt ed [] a).1.1⟩, (exTxt ed [] a).2) := by
        simp only [lineCmd, hi]
      have hx1 : -1 ≤ ed1.xrow :=
        runCmd_xrow f (exTxt ed [] a).2 ed1 ⟨hd, c.cmd1.loc, c.cmd1.cmd, c.cmd1.arg, (exTxt ed [] a).1.1⟩ r1
          (Or.inl hc) (by rw [exTxt_xrow]; exact h0) hcmd
      obtain ⟨i1, i2⟩ := ih ed1 r1 (fun x hx => hcov x (by simp [hx])) hx1
      have hsp : spliceRef (lineCmd ed c.cmd1).2 (lineCmd ed c.cmd1).1 c.loc r1 =
          spliceOf (lineCmd ed c.cmd1).2 (lineCmd ed c.cmd1).1 r1 := by
        rw [hlc]
        simp only []
        have hne' : (hd == "ec_exec") = false := by
          simp only [covered, List.mem_cons, List.not_mem_nil, or_false] at hc
          rcases hc with k | k | k | k | k | k | k | k | k <;> rw [k] <;> decide
        have := spliceOfX_ref (exTxt ed [] a).2 ⟨hd, c.cmd1.loc, c.cmd1.cmd, c.cmd1.arg, (exTxt ed [] a).1.1⟩ c.loc r1 rfl
          hlok (by rw [exTxt_xrow]; omega)
        rw [← this]
        unfold spliceOfX
        simp only [hne', Bool.false_eq_true, if_false]
      constructor
      · rw [i1, hsp]
      · intro ss r ed' h
        cases h1 : runBarRef f ed1 cs r1 with
        | none => rw [h1] at h; cases h
        | some z =>
          obtain ⟨ss1, r2, ed2⟩ := z
          rw [h1] at h
          simp only [Option.map_some, Option.some.injEq, Prod.mk.injEq] at h
          rw [← h.2.2]
          exact i2 ss1 r2 ed2 h1

/-- run a script of lines `c1|c2|…` through `ex_command`, collecting the reference splices -/
def runBarLinesRef (f : Nat) : Ed → List (List CmdX) → Option (List Splice × Ed)
  | ed, [] => some ([], ed)
  | ed, l :: ls =>
    match runBarRef f ed l 0 with
    | none => none
    | some (ss, _, ed1) => (runBarLinesRef f (ed1.modifiedAt 0).2 ls).map (fun x => (ss ++ x.1, x.2))

theorem runBarLinesRef_eq (f : Nat) : ∀ (script : List (List CmdX)) (ed : Ed),
    (∀ l ∈ script, ∀ c ∈ l, CoveredCmdX c) → -1 ≤ ed.xrow →
    runBarLinesRef f ed script = runBarLines f ed (script.map (List.map CmdX.cmd1)) ∧
    ∀ ss ed', runBarLinesRef f ed script = some (ss, ed') → -1 ≤ ed'.xrow := by
  intro script
  induction script with
  | nil =>
    intro ed _ h0
    refine ⟨rfl, fun ss ed' h => ?_⟩
    simp only [runBarLinesRef, Option.some.injEq, Prod.mk.injEq] at h
    rw [← h.2]; exact h0
  | cons l ls ih =>
    intro ed hcov h0
    obtain ⟨b1, b2⟩ := runBarRef_eq f l ed 0 (hcov l (by simp)) h0
    simp only [runBarLinesRef, List.map_cons, runBarLines]
    rw [← b1]
    cases hrun : runBarRef f ed l 0 with
    | none => exact ⟨rfl, fun ss ed' h => by cases h⟩
    | some x =>
      obtain ⟨ss0, r0, ed1⟩ := x
      simp only []
      have hx1 : -1 ≤ (ed1.modifiedAt 0).2.xrow := by rw [modifiedAt_xrow]; exact b2 ss0 r0 ed1 hrun
      obtain ⟨i1, i2⟩ := ih (ed1.modifiedAt 0).2 (fun x hx => hcov x (by simp [hx])) hx1
      constructor
      · rw [i1]
      · intro ss ed' h
        simp only [Option.map_eq_some_iff, Prod.mk.injEq] at h
        obtain ⟨⟨ss1, ed2⟩, h1, _, rfl⟩ := h
        exact i2 ss1 ed2 h1

/-- **script_frame for lines `c1|c2|…` with general addresses, reference regions** -/
theorem script_frame_bar_ref (f : Nat) (script : List (List CmdX)) (ed ed' : Ed) (ss : List Splice)
    (hcov : ∀ l ∈ script, ∀ c ∈ l, CoveredCmdX c) (h0 : -1 ≤ ed.xrow)
    (h : runBarLinesRef f ed script = some (ss, ed')) :
    lines ed' = applySplices (lines ed) ss ∧ ss.length = (script.map List.length).sum ∧ SplicesOk (lines ed) ss ∧
      -1 ≤ ed'.xrow := by
  obtain ⟨e1, e2⟩ := runBarLinesRef_eq f script ed hcov h0
  rw [e1] at h
  obtain ⟨k1, k2, k3⟩ := script_frame_bar f (script.map (List.map CmdX.cmd1)) ed ed' ss
    (fun l hl c hc => by
      obtain ⟨l0, hl0, rfl⟩ := List.mem_map.mp hl
      obtain ⟨c0, hc0, rfl⟩ := List.mem_map.mp hc
      exact (hcov l0 hl0 c0 hc0).1) h
  refine ⟨k1, ?_, k3, e2 ss ed' (by rw [e1]; exact h)⟩
  rw [k2]
  simp [List.map_map, Function.comp_def]

/-- `runBarLinesRef` is the run of the lines through `ex_command`: one step -/
theorem runBarLinesRef_exCommand (f : Nat) (ed : Ed) (l : List CmdX) (ls : List (List CmdX)) (hok : LineOkX l)
    (hlen : (joinBarX l).length < Gen.EXLEN) :
    runBarLinesRef f ed (l :: ls) =
      match runBarRef f ed l 0, exCommand (f + 3) ed (joinBarX l) with
      | some (ss, _, _), some (_, ed1) => (runBarLinesRef f ed1 ls).map (fun x => (ss ++ x.1, x.2))
      | _, _ => none := by
  have hp := lineParses_of_okX l hok
  unfold joinBarX at hlen ⊢
  rw [exCommand_bar_gen f ed _ hp hlen]
  simp only [runBarLinesRef]
  -- `runBar` and `runBarRef` stop or go on together
  have key : ∀ (cs : List CmdX) (ed : Ed) (ret : Int),
      (runBarRef f ed cs ret).map (fun x => x.2) = (runBar f ed (cs.map CmdX.cmd1) ret).map (fun x => x.2) := by
    intro cs
    induction cs with
    | nil => intro ed ret; rfl
    | cons c cs ih =>
      intro ed ret
      simp only [runBarRef, runBar, List.map_cons]
      have hjb : joinBarX cs = joinBar (cs.map CmdX.cmd1) := rfl
      rw [hjb]
      cases runOne (f + 1) ed (c.cmd1.parsed (joinBar (cs.map CmdX.cmd1))) ret with
      | none => rfl
      | some y =>
        obtain ⟨⟨r, ed1⟩, rest⟩ := y
        simp only [Option.map_map]
        have := ih ed1 r
        cases h1 : runBarRef f ed1 cs r with
        | none =>
          rw [h1] at this
          cases h2 : runBar f ed1 (cs.map CmdX.cmd1) r with
          | none => rfl
          | some z => rw [h2] at this; cases this
        | some z =>
          rw [h1] at this
          cases h2 : runBar f ed1 (cs.map CmdX.cmd1) r with
          | none => rw [h2] at this; cases this
          | some z' =>
            rw [h2] at this
            simp only [Option.map_some, Option.some.injEq] at this
            simp [this]
  have hk := key l ed 0
  cases h1 : runBarRef f ed l 0 with
  | none => rfl
  | some z =>
    obtain ⟨ss, r, ed1⟩ := z
    rw [h1] at hk
    cases h2 : runBar f ed (l.map CmdX.cmd1) 0 with
    | none => rw [h2] at hk; cases hk
    | some z' =>
      obtain ⟨ss', r', ed1'⟩ := z'
      rw [h2] at hk
      simp only [Option.map_some, Option.some.injEq, Prod.mk.injEq] at hk
      obtain ⟨rfl, rfl⟩ := hk
      rfl

end Neatvi.Lemmas.C06d
