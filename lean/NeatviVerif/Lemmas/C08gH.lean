import NeatviVerif.Lemmas.C08gG
/-!
# C08g: the change commands from the keys the terminal delivers, through the dispatcher `commandTail`

`viRead s = Res.ok c s1`: the command key `c` is read (from the terminal, or pushed back by `viPre`, see
`Lemmas/C08gF.lean`); `s1` is the state once it has been read: counts and register prefix already read by `viPre`
(`arg1`, `ybuf`), nothing pushed back (`s1.vibuf = []`), the rest of the command pending.  `KeysDone ks s1 s'`: the
keys `ks` that followed the command key were read.
-/
set_option linter.unusedSimpArgs false
set_option linter.unusedVariables false
namespace Neatvi.Lemmas.C08g
open Neatvi Neatvi.Uc Neatvi.Vi Neatvi.Ex Neatvi.Lbuf Neatvi.Mot Neatvi.Spec
open Neatvi.Lemmas.C08 Neatvi.Lemmas.C08b Neatvi.Lemmas.C08f
open Neatvi.Lemmas.C09 (finRec pending)
open Neatvi.Props.C07c (Utf8Buf refBufU)
open Neatvi.Props.C08f

/-- the queue side of a command that read the keys `ks` from the terminal: nothing is left pushed back, `icmd`
recorded the keys (this is what `finRec` stores for `.`), the first count and the register prefix are untouched -/
structure KeysDone (ks : Bytes) (s s' : VS) : Prop where
  vibuf : s'.vibuf = []
  icmd : s'.icmd = icmdAfterL s.icmd ks
  arg1 : s'.arg1 = s.arg1
  ybuf : s'.ybuf = s.ybuf

theorem icmdAfterL_cons (ic : Bytes) (k : Nat) (ks : Bytes) : icmdAfterL ic (k :: ks) = icmdAfterL (icmdAfterL ic [k]) ks :=
  icmdAfterL_append ic [k] ks

/-- after the operator key, the motion key and the keys `K` of the insertion -/
theorem keysDone_op {ks : Bytes} {k : Nat} {K : Bytes} {s sm s2 s' : VS} (h1 : KeysMark ks s sm) (hv : s.vibuf = [])
    (h2 : Reads false [k] sm s2) (a2 : Int) (h3 : ReadsEd K (setArg2 a2 s2) s') : KeysDone (ks ++ k :: K) s s' := by
  obtain ⟨ib, ip, ty, xl, rfl, -⟩ := h2
  obtain ⟨ib', ip', ty', e⟩ := h3
  refine ⟨?_, ?_, ?_, ?_⟩
  · rw [e]; show sm.vibuf = []; rw [h1.vibuf]; exact hv
  · rw [e]; show icmdAfterL (icmdAfterL sm.icmd [k]) K = _
    rw [h1.icmd, show ks ++ k :: K = ks ++ ([k] ++ K) from rfl, icmdAfterL_append, icmdAfterL_append]
  · rw [e]; exact h1.arg1
  · rw [e]; exact h1.ybuf

/-- after a shorthand key and the keys `K` of the insertion -/
theorem keysDone_short {ks : Bytes} {K : Bytes} {s sm s' : VS} (h1 : KeysMark ks s sm) (hv : s.vibuf = [])
    (a2 : Int) (h3 : ReadsEd K (setArg2 a2 sm) s') : KeysDone (ks ++ K) s s' := by
  obtain ⟨ib', ip', ty', e⟩ := h3
  refine ⟨?_, ?_, ?_, ?_⟩
  · rw [e]; show sm.vibuf = []; rw [h1.vibuf]; exact hv
  · rw [e]; show icmdAfterL sm.icmd K = _
    rw [h1.icmd, icmdAfterL_append]
  · rw [e]; exact h1.arg1
  · rw [e]; exact h1.ybuf

/-- a `RowChanged` stated from the state after the command key, restated from the state before it -/
theorem RowChanged.base {K ks : Bytes} {s s0 sm s' : VS} {body cs : List Nat} {a b : Nat}
    (h : RowChanged K s0 sm s' s0.ed.xrow body cs a b) (hk : KeysMark ks s s0) :
    RowChanged K s sm s' s.ed.xrow body cs a b := by
  obtain ⟨a1, a2, a3, a4, a5⟩ := h
  refine ⟨?_, ?_, ?_, a4, a5⟩
  · rw [a1, hk.lines, hk.xrow]
  · rw [a2, hk.regs, hk.ybuf]
  · rw [a3, hk.xrow]

theorem LineChanged.base {K ks : Bytes} {s s0 sm s' : VS} {body cs : List Nat} {lo hi : Int}
    (h : LineChanged K s0 sm s' lo hi body cs) (hk : KeysMark ks s s0) :
    LineChanged K s sm s' lo hi body cs := by
  obtain ⟨a1, a2, a3, a4, a5⟩ := h
  refine ⟨?_, ?_, a3, ?_, a5⟩
  · rw [a1, hk.lines, hk.indentOf]
  · rw [a2, hk.regs, hk.ybuf, hk.lines]
  · rw [a4, hk.indentOf]

section row
variable (s s1 : VS) (body cs : List Nat) (o : Nat) (K rest : Bytes)

/-- **the keys `cw`, text, ESC** -/
theorem cw_keys (t : Nat) (hr : viRead s = Res.ok 99 s1) (hv : s1.vibuf = []) (hp : pending s1 = 119 :: (K ++ rest)) (hrow : OnRow s1 body o)
    (hu : Utf8Buf (lines s1))
    (href : Motion.wordFwdRaw false (refBufU (lines s1)) ⟨s1.ed.xrow.toNat, o⟩ (opCount s1 0).toNat = ⟨s1.ed.xrow.toNat, t⟩)
    (ht : TypedText K cs) (hkm : s1.xkmap = 0) :
    ∃ sm s', commandTail s = finRec 99 0 VC_OK s' ∧ pending s' = rest ∧ KeysDone (119 :: K) s1 s' ∧
      RowChanged K s1 sm s' s1.ed.xrow body cs (min o t) (max o t) := by
  obtain ⟨s0, s2, hk0, hpre, hrd, hpend, hvb, hfin⟩ := keys_op 99 (by simp) 119 (by omega) s s1 (K ++ rest) hr hv hp
  obtain ⟨s', e1, e2, e3⟩ := cw_spec s0 s2 0 body cs o K rest t hpre (hk0.onRow hrow) (by rw [hk0.lines]; exact hu)
    (by rw [hk0.lines, hk0.xrow, hk0.opCount]; exact href) ht hpend (by rw [hk0.xkmap]; exact hkm)
  exact ⟨_, s', hfin _ _ e1, e2, keysDone_op hk0 hv hrd 0 e3.frame, e3.base hk0⟩

/-- **the keys `ce`, text, ESC** (the usual case: the end of the word is at `t`, `o ≤ t < |body|`) -/
theorem ce_keys (t : Nat) (hr : viRead s = Res.ok 99 s1) (hv : s1.vibuf = []) (hp : pending s1 = 101 :: (K ++ rest)) (hrow : OnRow s1 body o)
    (hu : Utf8Buf (lines s1))
    (href : Motion.wordEndFwdRaw false (refBufU (lines s1)) ⟨s1.ed.xrow.toNat, o⟩ (opCount s1 0).toNat = ⟨s1.ed.xrow.toNat, t⟩)
    (hot : o ≤ t) (htl : t < body.length) (ht : TypedText K cs) (hkm : s1.xkmap = 0) :
    ∃ sm s', commandTail s = finRec 99 0 VC_OK s' ∧ pending s' = rest ∧ KeysDone (101 :: K) s1 s' ∧
      RowChanged K s1 sm s' s1.ed.xrow body cs o (t + 1) := by
  obtain ⟨s0, s2, hk0, hpre, hrd, hpend, hvb, hfin⟩ := keys_op 99 (by simp) 101 (by omega) s s1 (K ++ rest) hr hv hp
  obtain ⟨s', e1, e2, e3⟩ := ce_spec_fwd s0 s2 0 body cs o K rest t hpre (hk0.onRow hrow) (by rw [hk0.lines]; exact hu)
    (by rw [hk0.lines, hk0.xrow, hk0.opCount]; exact href) hot htl ht hpend (by rw [hk0.xkmap]; exact hkm)
  exact ⟨_, s', hfin _ _ e1, e2, keysDone_op hk0 hv hrd 0 e3.frame, e3.base hk0⟩

/-- **the keys `c$`, text, ESC** -/
theorem c_dollar_keys (hr : viRead s = Res.ok 99 s1) (hv : s1.vibuf = []) (hp : pending s1 = 36 :: (K ++ rest)) (hrow : OnRow s1 body o)
    (ht : TypedText K cs) (hkm : s1.xkmap = 0) :
    ∃ sm s', commandTail s = finRec 99 0 VC_OK s' ∧ pending s' = rest ∧ KeysDone (36 :: K) s1 s' ∧
      RowChanged K s1 sm s' s1.ed.xrow body cs o body.length := by
  obtain ⟨s0, s2, hk0, hpre, hrd, hpend, hvb, hfin⟩ := keys_op 99 (by simp) 36 (by omega) s s1 (K ++ rest) hr hv hp
  obtain ⟨s', e1, e2, e3⟩ := c_dollar_spec s0 s2 0 body cs o K rest hpre (hk0.onRow hrow) ht hpend (by rw [hk0.xkmap]; exact hkm)
  exact ⟨_, s', hfin _ _ e1, e2, keysDone_op hk0 hv hrd 0 e3.frame, e3.base hk0⟩

/-- **the key `C`, text, ESC**: as `c$` -/
theorem C_keys (hr : viRead s = Res.ok 67 s1) (hv : s1.vibuf = []) (hp : pending s1 = (K ++ rest)) (hrow : OnRow s1 body o)
    (ht : TypedText K cs) (hkm : s1.xkmap = 0) :
    ∃ sm s', commandTail s = finRec 67 0 VC_OK s' ∧ pending s' = rest ∧ KeysDone K s1 s' ∧
      RowChanged K s1 sm s' s1.ed.xrow body cs o body.length := by
  obtain ⟨sm, hk0, hvb, hpend, hpre, hfin⟩ := keys_short 67 99 36 (by simp [isShort]) s s1 hr hv
  rw [hp] at hpend
  obtain ⟨s', e1, e2, e3⟩ := c_dollar_spec { sm with vibuf := [36] } sm 0 body cs o K rest hpre
    (onRow_vibuf (hk0.onRow hrow) _) ht hpend (by show sm.xkmap = 0; rw [hk0.xkmap]; exact hkm)
  refine ⟨setArg2 0 sm, s', hfin _ _ e1, e2, keysDone_short hk0 hv 0 e3.frame, ?_⟩
  have : RowChanged K sm (setArg2 0 sm) s' sm.ed.xrow body cs o body.length := ⟨e3.lines, e3.regs, e3.xrow, e3.xoff, e3.frame⟩
  exact this.base hk0

/-- **the key `s`, text, ESC** (`[count]s`): `min c (|body| - o)` characters from the cursor on are replaced -/
theorem s_keys (hr : viRead s = Res.ok 115 s1) (hv : s1.vibuf = []) (hp : pending s1 = (K ++ rest)) (hrow : OnRow s1 body o)
    (ht : TypedText K cs) (hkm : s1.xkmap = 0) :
    ∃ sm s', commandTail s = finRec 115 0 VC_OK s' ∧ pending s' = rest ∧ KeysDone K s1 s' ∧
      RowChanged K s1 sm s' s1.ed.xrow body cs o (min (o + (opCount s1 0).toNat) body.length) := by
  obtain ⟨sm, hk0, hvb, hpend, hpre, hfin⟩ := keys_short 115 99 32 (by simp [isShort]) s s1 hr hv
  rw [hp] at hpend
  obtain ⟨s', e1, e2, e3⟩ := c_spc_spec { sm with vibuf := [32] } sm 0 body cs o K rest hpre
    (onRow_vibuf (hk0.onRow hrow) _) ht hpend (by show sm.xkmap = 0; rw [hk0.xkmap]; exact hkm)
  refine ⟨setArg2 0 sm, s', hfin _ _ e1, e2, keysDone_short hk0 hv 0 e3.frame, ?_⟩
  have hoc : opCount { sm with vibuf := [32] } 0 = opCount s1 0 := hk0.opCount 0
  rw [hoc] at e3
  have : RowChanged K sm (setArg2 0 sm) s' sm.ed.xrow body cs o (min (o + (opCount s1 0).toNat) body.length) :=
    ⟨e3.lines, e3.regs, e3.xrow, e3.xoff, e3.frame⟩
  exact this.base hk0

/-- **the keys `cl`, text, ESC** on a row displayed left to right -/
theorem cl_keys (hr : viRead s = Res.ok 99 s1) (hv : s1.vibuf = []) (hp : pending s1 = 108 :: (K ++ rest)) (hrow : OnRow s1 body o)
    (hltr : LeftToRight s1 body) (ht : TypedText K cs) (hkm : s1.xkmap = 0) :
    ∃ sm s', commandTail s = finRec 99 0 VC_OK s' ∧ pending s' = rest ∧ KeysDone (108 :: K) s1 s' ∧
      RowChanged K s1 sm s' s1.ed.xrow body cs o (min (o + (opCount s1 0).toNat) (body.length - 1)) := by
  obtain ⟨s0, s2, hk0, hpre, hrd, hpend, hvb, hfin⟩ := keys_op 99 (by simp) 108 (by omega) s s1 (K ++ rest) hr hv hp
  obtain ⟨s', e1, e2, e3⟩ := cl_spec s0 s2 0 body cs o K rest hpre (hk0.onRow hrow) (hk0.leftToRight hltr) ht hpend
    (by rw [hk0.xkmap]; exact hkm)
  rw [hk0.opCount] at e3
  exact ⟨_, s', hfin _ _ e1, e2, keysDone_op hk0 hv hrd 0 e3.frame, e3.base hk0⟩

/-- **the keys `c0`, text, ESC** -/
theorem c0_keys (hr : viRead s = Res.ok 99 s1) (hv : s1.vibuf = []) (hp : pending s1 = 48 :: (K ++ rest)) (hrow : OnRow s1 body o)
    (ht : TypedText K cs) (hkm : s1.xkmap = 0) :
    ∃ sm s', commandTail s = finRec 99 0 VC_OK s' ∧ pending s' = rest ∧ KeysDone (48 :: K) s1 s' ∧
      RowChanged K s1 sm s' s1.ed.xrow body cs 0 o := by
  obtain ⟨s0, s2, hk0, hpre, hrd, hpend, hvb, hfin⟩ := keys_op 99 (by simp) 48 (by omega) s s1 (K ++ rest) hr hv hp
  obtain ⟨s', e1, e2, e3⟩ := c0_spec s0 s2 0 body cs o K rest hpre (hk0.onRow hrow) ht hpend (by rw [hk0.xkmap]; exact hkm)
  exact ⟨_, s', hfin _ _ e1, e2, keysDone_op hk0 hv hrd 0 e3.frame, e3.base hk0⟩

end row

/-- after the operator key: `f` / `t`, the bytes of the character, and the keys `K` of the insertion -/
theorem keysDone_find {ks : Bytes} {k : Nat} {K E cl : Bytes} {cc : Nat} {s sm s2 s3 s' : VS} (h1 : KeysMark ks s sm) (hv : s.vibuf = [])
    (h2 : Reads false [k] sm s2) (a2 : Int) (h4 : Reads false E (setArg2 a2 s2) s3)
    (h3 : ReadsEd K { s3 with charlast := cl, charcmd := cc } s') : KeysDone (ks ++ k :: (E ++ K)) s s' := by
  obtain ⟨ib, ip, ty, xl, rfl, -⟩ := h2
  obtain ⟨ib2, ip2, ty2, xl2, rfl, -⟩ := h4
  obtain ⟨ib', ip', ty', e⟩ := h3
  refine ⟨?_, ?_, ?_, ?_⟩
  · rw [e]; show sm.vibuf = []; rw [h1.vibuf]; exact hv
  · rw [e]; show icmdAfterL (icmdAfterL (icmdAfterL sm.icmd [k]) E) K = _
    rw [h1.icmd, show ks ++ k :: (E ++ K) = ks ++ ([k] ++ (E ++ K)) from rfl, icmdAfterL_append, icmdAfterL_append,
      icmdAfterL_append]
  · rw [e]; exact h1.arg1
  · rw [e]; exact h1.ybuf

section find
variable (s s1 : VS) (body cs : List Nat) (o : Nat) (K rest : Bytes)

/-- **the keys `cf c`, text, ESC**: the characters `[o, t + 1)`, `t` the `n`-th `c` to the right of the cursor
(`n` the count), are replaced by the typed text -/
theorem cfc_keys (c t : Nat) (hr : viRead s = Res.ok 99 s1) (hv : s1.vibuf = []) (hp : pending s1 = 102 :: (enc c ++ (K ++ rest))) (hrow : OnRow s1 body o)
    (ha : 0 ≤ s1.arg1) (hc : ValidCp c ∧ 32 ≤ c ∧ c ≠ 127)
    (hfind : Motion.findChar body o c true false (opCount s1 0).toNat = some t) (ht : TypedText K cs) (hkm : s1.xkmap = 0) :
    ∃ sm s', commandTail s = finRec 99 0 VC_OK s' ∧ pending s' = rest ∧ KeysDone (102 :: (enc c ++ K)) s1 s' ∧
      o ≤ t ∧ t < body.length ∧ RowChanged K s1 sm s' s1.ed.xrow body cs o (t + 1) := by
  obtain ⟨s0, s2, hk0, hpre, hrd, hpend, hvb, hfin⟩ := keys_op 99 (by simp) 102 (by omega) s s1 (enc c ++ (K ++ rest)) hr hv hp
  obtain ⟨s3, s', g1, e1, e2, b1, b2, e3⟩ := cfc_spec s0 s2 0 body cs o K rest c t hpre (hk0.onRow hrow)
    (by rw [hk0.arg1]; exact ha) hc hpend (by rw [hk0.xkmap]; exact hkm) (by rw [hk0.opCount]; exact hfind) ht
  exact ⟨_, s', hfin _ _ e1, e2, keysDone_find hk0 hv hrd 0 g1 e3.frame, b1, b2, e3.base hk0⟩

/-- **the keys `ct c`, text, ESC**: as `cf c`, up to the character before that `c` -/
theorem ctc_keys (c t : Nat) (hr : viRead s = Res.ok 99 s1) (hv : s1.vibuf = []) (hp : pending s1 = 116 :: (enc c ++ (K ++ rest))) (hrow : OnRow s1 body o)
    (ha : 0 ≤ s1.arg1) (hc : ValidCp c ∧ 32 ≤ c ∧ c ≠ 127)
    (hfind : Motion.findChar body o c true true (opCount s1 0).toNat = some t) (ht : TypedText K cs) (hkm : s1.xkmap = 0) :
    ∃ sm s', commandTail s = finRec 99 0 VC_OK s' ∧ pending s' = rest ∧ KeysDone (116 :: (enc c ++ K)) s1 s' ∧
      o ≤ t ∧ t < body.length ∧ RowChanged K s1 sm s' s1.ed.xrow body cs o (t + 1) := by
  obtain ⟨s0, s2, hk0, hpre, hrd, hpend, hvb, hfin⟩ := keys_op 99 (by simp) 116 (by omega) s s1 (enc c ++ (K ++ rest)) hr hv hp
  obtain ⟨s3, s', g1, e1, e2, b1, b2, e3⟩ := ctc_spec s0 s2 0 body cs o K rest c t hpre (hk0.onRow hrow)
    (by rw [hk0.arg1]; exact ha) hc hpend (by rw [hk0.xkmap]; exact hkm) (by rw [hk0.opCount]; exact hfind) ht
  exact ⟨_, s', hfin _ _ e1, e2, keysDone_find hk0 hv hrd 0 g1 e3.frame, b1, b2, e3.base hk0⟩

end find

section line
variable (s s1 : VS) (body cs : List Nat) (K rest : Bytes)

/-- **the keys `cc`, text, ESC** (`[count]cc`): the rows `r .. min (r + c - 1) (n - 1)` become the one row
`indentation ++ text` -/
theorem cc_keys (hr : viRead s = Res.ok 99 s1) (hv : s1.vibuf = []) (hp : pending s1 = 99 :: (K ++ rest)) (ha : 0 ≤ s1.arg1)
    (h0 : 0 ≤ s1.ed.xrow) (h1 : s1.ed.xrow < lenOf s1)
    (hline : (lines s1)[s1.ed.xrow.toNat]? = some (encStr (body ++ [10])))
    (hb : ∀ c ∈ body, ValidCp c) (hb10 : 10 ∉ body) (ht : TypedText K cs) (hkm : s1.xkmap = 0) :
    ∃ sm s', commandTail s = finRec 99 0 VC_OK s' ∧ pending s' = rest ∧ KeysDone (99 :: K) s1 s' ∧
      LineChanged K s1 sm s' s1.ed.xrow (min (s1.ed.xrow + opCount s1 0 - 1) (lenOf s1 - 1)) body cs := by
  obtain ⟨s0, s2, hk0, hpre, hrd, hpend, hvb, hfin⟩ := keys_op 99 (by simp) 99 (by omega) s s1 (K ++ rest) hr hv hp
  obtain ⟨s', e1, e2, e3⟩ := cc_spec s0 s2 0 body cs K rest hpre (by rw [hk0.arg1]; exact ha) (by rw [hk0.xrow]; exact h0)
    (by rw [hk0.xrow, hk0.lenOf]; exact h1) (by rw [hk0.lines, hk0.xrow]; exact hline) hb hb10 ht hpend
    (by rw [hk0.xkmap]; exact hkm)
  rw [hk0.xrow, hk0.opCount, hk0.lenOf] at e3
  exact ⟨_, s', hfin _ _ e1, e2, keysDone_op hk0 hv hrd 0 e3.frame, e3.base hk0⟩

/-- **the key `S`, text, ESC**: as `cc` -/
theorem S_keys (hr : viRead s = Res.ok 83 s1) (hv : s1.vibuf = []) (hp : pending s1 = (K ++ rest)) (ha : 0 ≤ s1.arg1)
    (h0 : 0 ≤ s1.ed.xrow) (h1 : s1.ed.xrow < lenOf s1)
    (hline : (lines s1)[s1.ed.xrow.toNat]? = some (encStr (body ++ [10])))
    (hb : ∀ c ∈ body, ValidCp c) (hb10 : 10 ∉ body) (ht : TypedText K cs) (hkm : s1.xkmap = 0) :
    ∃ sm s', commandTail s = finRec 83 0 VC_OK s' ∧ pending s' = rest ∧ KeysDone K s1 s' ∧
      LineChanged K s1 sm s' s1.ed.xrow (min (s1.ed.xrow + opCount s1 0 - 1) (lenOf s1 - 1)) body cs := by
  obtain ⟨sm, hk0, hvb, hpend, hpre, hfin⟩ := keys_short 83 99 99 (by simp [isShort]) s s1 hr hv
  rw [hp] at hpend
  obtain ⟨s', e1, e2, e3⟩ := cc_spec { sm with vibuf := [99] } sm 0 body cs K rest hpre
    (by show 0 ≤ sm.arg1; rw [hk0.arg1]; exact ha) (by show 0 ≤ sm.ed.xrow; rw [hk0.xrow]; exact h0)
    (by show sm.ed.xrow < lenOf sm; rw [hk0.xrow, hk0.lenOf]; exact h1)
    (by show (lines sm)[sm.ed.xrow.toNat]? = _; rw [hk0.lines, hk0.xrow]; exact hline) hb hb10 ht hpend
    (by show sm.xkmap = 0; rw [hk0.xkmap]; exact hkm)
  refine ⟨setArg2 0 sm, s', hfin _ _ e1, e2, keysDone_short hk0 hv 0 e3.frame, ?_⟩
  have hoc : opCount { sm with vibuf := [99] } 0 = opCount s1 0 := hk0.opCount 0
  have hx : ({ sm with vibuf := [99] } : VS).ed.xrow = s1.ed.xrow := hk0.xrow
  have hn : lenOf ({ sm with vibuf := [99] } : VS) = lenOf s1 := hk0.lenOf
  rw [hoc, hx, hn] at e3
  have : LineChanged K sm (setArg2 0 sm) s' s1.ed.xrow (min (s1.ed.xrow + opCount s1 0 - 1) (lenOf s1 - 1)) body cs :=
    ⟨e3.lines, e3.regs, e3.xrow, e3.xoff, e3.frame⟩
  exact this.base hk0

/-- **the keys `cj`, text, ESC**: the rows `r .. min (r + c) (n - 1)` -/
theorem cj_keys (hr : viRead s = Res.ok 99 s1) (hv : s1.vibuf = []) (hp : pending s1 = 106 :: (K ++ rest)) (ha : 0 ≤ s1.arg1)
    (h0 : 0 ≤ s1.ed.xrow) (h1 : s1.ed.xrow < lenOf s1)
    (hline : (lines s1)[s1.ed.xrow.toNat]? = some (encStr (body ++ [10])))
    (hb : ∀ c ∈ body, ValidCp c) (hb10 : 10 ∉ body) (ht : TypedText K cs) (hkm : s1.xkmap = 0) :
    ∃ sm s', commandTail s = finRec 99 0 VC_OK s' ∧ pending s' = rest ∧ KeysDone (106 :: K) s1 s' ∧
      LineChanged K s1 sm s' s1.ed.xrow (min (s1.ed.xrow + opCount s1 0) (lenOf s1 - 1)) body cs := by
  obtain ⟨s0, s2, hk0, hpre, hrd, hpend, hvb, hfin⟩ := keys_op 99 (by simp) 106 (by omega) s s1 (K ++ rest) hr hv hp
  obtain ⟨s', e1, e2, e3⟩ := cj_spec s0 s2 0 body cs K rest hpre (by rw [hk0.arg1]; exact ha) (by rw [hk0.xrow]; exact h0)
    (by rw [hk0.xrow, hk0.lenOf]; exact h1) (by rw [hk0.lines, hk0.xrow]; exact hline) hb hb10 ht hpend
    (by rw [hk0.xkmap]; exact hkm)
  rw [hk0.xrow, hk0.opCount, hk0.lenOf] at e3
  exact ⟨_, s', hfin _ _ e1, e2, keysDone_op hk0 hv hrd 0 e3.frame, e3.base hk0⟩

/-- **the keys `ck`, text, ESC**: the rows `max (r - c) 0 .. r` (`body` is the first of them) -/
theorem ck_keys (hr : viRead s = Res.ok 99 s1) (hv : s1.vibuf = []) (hp : pending s1 = 107 :: (K ++ rest)) (ha : 0 ≤ s1.arg1)
    (h0 : 0 ≤ s1.ed.xrow) (h1 : s1.ed.xrow < lenOf s1)
    (hline : (lines s1)[(max (s1.ed.xrow - opCount s1 0) 0).toNat]? = some (encStr (body ++ [10])))
    (hb : ∀ c ∈ body, ValidCp c) (hb10 : 10 ∉ body) (ht : TypedText K cs) (hkm : s1.xkmap = 0) :
    ∃ sm s', commandTail s = finRec 99 0 VC_OK s' ∧ pending s' = rest ∧ KeysDone (107 :: K) s1 s' ∧
      LineChanged K s1 sm s' (max (s1.ed.xrow - opCount s1 0) 0) s1.ed.xrow body cs := by
  obtain ⟨s0, s2, hk0, hpre, hrd, hpend, hvb, hfin⟩ := keys_op 99 (by simp) 107 (by omega) s s1 (K ++ rest) hr hv hp
  obtain ⟨s', e1, e2, e3⟩ := ck_spec s0 s2 0 body cs K rest hpre (by rw [hk0.arg1]; exact ha) (by rw [hk0.xrow]; exact h0)
    (by rw [hk0.xrow, hk0.lenOf]; exact h1) (by rw [hk0.lines, hk0.xrow, hk0.opCount]; exact hline) hb hb10 ht hpend
    (by rw [hk0.xkmap]; exact hkm)
  rw [hk0.xrow, hk0.opCount] at e3
  exact ⟨_, s', hfin _ _ e1, e2, keysDone_op hk0 hv hrd 0 e3.frame, e3.base hk0⟩

end line

end Neatvi.Lemmas.C08g
