import NeatviVerif.Lemmas.C20cRun
/-!
# C20c lemmas, part 5: the table invariants hold along every command line

`TableOk` (16 slots, unique numbers within `1..bufsCnt`, occupied slots a prefix) is kept by every
atomic step, hence (by `exExec_T`) by every ex command line, `ex_command`, `ex_init`, and one round
of the `ex()` loop.
-/
namespace Neatvi.Lemmas.C20c
open Neatvi Neatvi.Lbuf Neatvi.Ex Neatvi.Rset Neatvi.Props.C20 Neatvi.Props.C20b Neatvi.Lemmas.C20b
open Neatvi.Lemmas.ExFrame Neatvi.Lemmas.C02Ex

theorem Loc.idAt {ed ed' : Ed} (h : Loc ed ed') (i : Nat) :
    (ed'.bufs.getD i none).map (·.id) = (ed.bufs.getD i none).map (·.id) := by
  cases i with
  | zero => exact h.id0
  | succ i => rw [h.getD (i + 1) (by omega)]

theorem Quiet.idAt {ed ed' : Ed} (h : Quiet ed ed') (i : Nat) :
    (ed'.bufs.getD i none).map (·.id) = (ed.bufs.getD i none).map (·.id) := by
  have := congrArg (fun o => o.map (fun b : Buf => b.id)) (h.getD i)
  simpa [Option.map_map, Function.comp_def, coreB] using this

/-- a table whose slots carry the same numbers (and the same counter) is `IdsOk` / `Packed` as well -/
theorem tableOk_of_ids {ed ed' : Ed} (hlen : ed'.bufs.length = ed.bufs.length) (hcnt : ed'.bufsCnt = ed.bufsCnt)
    (hid : ∀ i, (ed'.bufs.getD i none).map (·.id) = (ed.bufs.getD i none).map (·.id))
    (h : TableOk ed) : TableOk ed' := by
  obtain ⟨h1, h2, h3⟩ := h
  refine ⟨hlen.trans h1, ?_, ?_⟩
  · rw [idsOk_iff, hcnt]
    refine idsOkL_transfer id (fun _ _ e => e) (Int.le_refl _) ?_ h2
    intro i b hb
    have := hid i
    rw [hb] at this
    cases hx : ed.bufs.getD i none with
    | none => rw [hx] at this; cases this
    | some b' =>
      rw [hx] at this
      simp only [Option.map_some, Option.some.injEq] at this
      exact ⟨b', hx, this.symm⟩
  · intro i j hij hj
    have e1 := congrArg Option.isSome (hid i)
    have e2 := congrArg Option.isSome (hid j)
    simp only [Option.isSome_map] at e1 e2
    rw [e1]; rw [e2] at hj
    exact h3 i j hij hj

theorem tableOk_loc {ed ed' : Ed} (h : Loc ed ed') (hok : TableOk ed) : TableOk ed' :=
  tableOk_of_ids h.len h.cnt h.idAt hok

theorem tableOk_quiet {ed ed' : Ed} (h : Quiet ed ed') (hok : TableOk ed) : TableOk ed' :=
  tableOk_of_ids h.len h.cnt h.idAt hok

theorem lt_of_isSome {ed : Ed} {i : Nat} (h : (ed.bufs.getD i none).isSome = true) : i < ed.bufs.length := by
  cases hb : ed.bufs.getD i none with
  | none => rw [hb] at h; cases h
  | some b => exact (mem_of_getD _ _ _ hb).2

theorem tableOk_switch (ed : Ed) (idx : Nat) (hocc : (ed.bufs.getD idx none).isSome = true) (hok : TableOk ed) :
    TableOk (ed.bufsSwitch idx) := by
  have hlt := lt_of_isSome hocc
  exact ⟨(switch_length ed idx hlt).trans hok.1, idsOk_switch ed idx hlt hok.2.1, packed_switch ed idx hocc hok.2.2⟩

theorem nbufs_pos : 0 < Gen.NBUFS := by decide

theorem tableOk_open (ed : Ed) (p : Bytes) (hok : TableOk ed) : TableOk (ed.bufsOpen p).2 := by
  refine ⟨?_, idsOk_open ed p hok.2.1, packed_open ed p hok.2.2⟩
  rw [(open_uses_free_slot ed p).2.1, List.length_set]; exact hok.1

theorem tableOk_shift (ed : Ed) (hok : TableOk ed) : TableOk ed.bufsShift := by
  refine ⟨?_, idsOk_shift ed hok.2.1, packed_shift ed hok.2.2⟩
  rw [(bufsShift_spec ed).2.1 (by rw [hok.1]; exact nbufs_pos)]; exact hok.1

theorem tableOk_fresh (ed : Ed) (hok : TableOk ed) :
    TableOk { ed with bufs := ed.bufs.set 0 (some (freshBuf ed)), bufsCnt := ed.bufsCnt + 1 } := by
  refine ⟨?_, ?_, ?_⟩
  · show (ed.bufs.set 0 _).length = _
    rw [List.length_set]; exact hok.1
  · exact idsOkL_set_fresh 0 (freshBuf ed) rfl hok.2.1
  · exact packedL_set 0 _ (fun j hj => by omega) hok.2.2

theorem tableOk_renum (ed : Ed) (hok : TableOk ed) : TableOk (renumEd ed) := by
  refine ⟨?_, idsOk_renumber ed, packed_renumber ed hok.2.2⟩
  rw [renumEd_eq]
  show (renumFrom 0 ed.bufs).length = _
  rw [renumFrom_length]; exact hok.1

/-- the invariants as a step-closed relation -/
theorem tableOk_closed : StepClosed (fun ed ed' => TableOk ed → TableOk ed') where
  refl := fun _ h => h
  trans := fun h1 h2 h => h2 (h1 h)
  loc := fun h hok => tableOk_loc h hok
  cmd := fun hl h hok => tableOk_loc (runCmd_local_any _ _ _ _ _ _ _ _ _ hl h) hok
  quiet := fun h hok => tableOk_quiet h hok
  sw := fun ed idx hp hok => tableOk_switch ed idx (hp hok) hok
  opn := fun ed p hok => tableOk_open ed p hok
  shift := fun ed hok => tableOk_shift ed hok
  fresh := fun ed _ hok => tableOk_fresh ed hok
  renum := fun ed hok => tableOk_renum ed hok

/-- the table before the first `:e`: 16 empty slots, counter 0 (whatever the rest of the editor) -/
theorem tableOk_init (ed : Ed) (hb : ed.bufs = List.replicate Gen.NBUFS none) (hc : ed.bufsCnt = 0) : TableOk ed := by
  refine ⟨by rw [hb]; simp, ?_, ?_⟩
  · refine ⟨by rw [hc]; decide, ?_, ?_⟩
    · intro i b h; rw [hb, getD_replicate_none] at h; cases h
    · intro i j bi bj _ h; rw [hb, getD_replicate_none] at h; cases h
  · intro i j _ h; rw [hb, getD_replicate_none] at h; cases h

/-! ### reachable editor states -/

/-- the states of a running editor: from an empty table, by `ex_init`, ex command lines
    (`ex_exec`, `ex_command`, one round of `ex()`), and any local step (whatever edits the current
    buffer, moves the cursor, sets options, changes the environment) -/
inductive Reach : Ed → Prop
  | init (ed : Ed) : ed.bufs = List.replicate Gen.NBUFS none → ed.bufsCnt = 0 → Reach ed
  | exInit {ed ed' : Ed} {files : List Bytes} {r : Int} : Reach ed → Ex.exInit ed files = some (r, ed') → Reach ed'
  | exec {ed ed' : Ed} {f : Nat} {ln : Bytes} {r : Int} : Reach ed → exExec f ed ln = some (r, ed') → Reach ed'
  | command {ed ed' : Ed} {f : Nat} {ln : Bytes} {r : Int} : Reach ed → exCommand f ed ln = some (r, ed') → Reach ed'
  | step {ed ed' : Ed} {r : Int} : Reach ed → exStep ed = some (r, ed') → Reach ed'
  | loc {ed ed' : Ed} : Reach ed → Loc ed ed' → Reach ed'

theorem reach_tableOk {ed : Ed} (h : Reach ed) : TableOk ed := by
  induction h with
  | init ed hb hc => exact tableOk_init ed hb hc
  | exInit _ h ih => exact exInit_T tableOk_closed h ih
  | exec _ h ih => exact exExec_T tableOk_closed h ih
  | command _ h ih => exact exCommand_T tableOk_closed h ih
  | step _ h ih => exact exStep_T tableOk_closed h ih
  | loc _ h ih => exact tableOk_loc h ih

/-- running a list of command lines one after the other (`ex_exec` on each; the return values are
    dropped, a trap or a hang stops the run) -/
def runLines (f : Nat) : Ed → List Bytes → Option Ed
  | ed, [] => some ed
  | ed, ln :: rest =>
    match exExec f ed ln with
    | none => none
    | some (_, ed1) => runLines f ed1 rest

theorem runLines_T {T : Ed → Ed → Prop} (hT : StepClosed T) (f : Nat) :
    ∀ (lines : List Bytes) (ed ed' : Ed), runLines f ed lines = some ed' → T ed ed' := by
  intro lines
  induction lines with
  | nil => intro ed ed' h; cases h; exact hT.refl _
  | cons ln rest ih =>
    intro ed ed' h
    rw [runLines] at h
    split at h
    · cases h
    · rename_i r ed1 he
      exact hT.trans (exExec_T hT he) (ih _ _ h)

theorem runLines_reach (f : Nat) : ∀ (lines : List Bytes) (ed ed' : Ed), Reach ed →
    runLines f ed lines = some ed' → Reach ed' := by
  intro lines
  induction lines with
  | nil => intro ed ed' hr h; cases h; exact hr
  | cons ln rest ih =>
    intro ed ed' hr h
    rw [runLines] at h
    split at h
    · cases h
    · rename_i r ed1 he
      exact ih _ _ (Reach.exec hr he) h

end Neatvi.Lemmas.C20c
