import NeatviVerif.Lemmas.C10Seg
/-!
# C10 lemmas, part 5: the cut counter is only a counter

Running the VM with a larger initial cut counter gives the same result with the counter shifted, so
whether a run succeeds, fails or traps does not depend on the counter.
-/
namespace Neatvi.Lemmas.C10
open Neatvi Neatvi.Regex

/-- add `d` to the cut counter of a result -/
def shiftRes (d : Nat) : Res → Res
  | Res.fail c => Res.fail (c + d)
  | Res.trap => Res.trap
  | Res.ok p m c => Res.ok p m (c + d)

theorem loop_none (cx : Ctx) {dep pc pos m cuts} (h : cx.prog[pc]? = none) :
    loop cx dep pc pos m cuts = Res.trap := by
  rw [loop]; split <;> simp_all

theorem loop_shift_step (cx : Ctx) (d dep : Nat)
    (hdeep : dep < cx.nd → ∀ pc pos m cuts,
      loop cx (dep + 1) pc pos m (cuts + d) = shiftRes d (loop cx (dep + 1) pc pos m cuts)) :
    ∀ k pc, cx.prog.length - pc ≤ k → ∀ pos m cuts,
      loop cx dep pc pos m (cuts + d) = shiftRes d (loop cx dep pc pos m cuts) := by
  intro k
  induction k with
  | zero =>
    intro pc hk pos m cuts
    have hn : cx.prog[pc]? = none := List.getElem?_eq_none (by omega)
    rw [loop_none cx hn, loop_none cx hn]; rfl
  | succ k ih =>
    intro pc hk pos m cuts
    cases hi : cx.prog[pc]? with
    | none => rw [loop_none cx hi, loop_none cx hi]; rfl
    | some i =>
      have hlt : pc < cx.prog.length := (List.getElem?_eq_some_iff.mp hi).1
      cases i with
      | atom a =>
        rw [loop_atom cx hi, loop_atom cx hi]
        split
        · rfl
        · rfl
        · exact ih _ (by omega) _ _ _
      | mark g =>
        rw [loop_mark cx hi, loop_mark cx hi]
        exact ih _ (by omega) _ _ _
      | jump a =>
        rw [loop_jump cx hi, loop_jump cx hi]
        split
        · exact ih _ (by omega) _ _ _
        · rfl
      | mtch =>
        rw [loop_mtch cx hi, loop_mtch cx hi]; rfl
      | fork a1 a2 =>
        rw [loop_fork cx hi, loop_fork cx hi, act_eq, act_eq]
        by_cases hd : dep ≥ cx.nd
        · rw [if_pos hd, if_pos hd]
          simp only []
          split
          · rw [show cuts + d + 1 = cuts + 1 + d by omega]
            exact ih _ (by omega) _ _ _
          · rfl
        · rw [if_neg hd, if_neg hd, hdeep (by omega)]
          cases hr : loop cx (dep + 1) a1 pos m cuts with
          | ok p' m' c' => rfl
          | trap => rfl
          | fail c' =>
            simp only [shiftRes]
            split
            · exact ih _ (by omega) _ _ _
            · rfl

/-- the cut counter does not influence a run, it is only shifted -/
theorem loop_shift (cx : Ctx) (d : Nat) : ∀ dep pc pos m cuts,
    loop cx dep pc pos m (cuts + d) = shiftRes d (loop cx dep pc pos m cuts) := by
  have key : ∀ n dep, cx.nd - dep ≤ n → ∀ pc pos m cuts,
      loop cx dep pc pos m (cuts + d) = shiftRes d (loop cx dep pc pos m cuts) := by
    intro n
    induction n with
    | zero =>
      intro dep hn pc pos m cuts
      exact loop_shift_step cx d dep (fun h => by omega) _ pc (Nat.le_refl _) pos m cuts
    | succ n ih =>
      intro dep hn pc pos m cuts
      exact loop_shift_step cx d dep (fun _ => ih (dep + 1) (by omega)) _ pc (Nat.le_refl _) pos m cuts
  intro dep pc pos m cuts
  exact key _ dep (Nat.le_refl _) pc pos m cuts

theorem recmatch_shift (cx : Ctx) (d start cuts : Nat) :
    recmatch cx start (cuts + d) = shiftRes d (recmatch cx start cuts) := by
  unfold recmatch
  rw [act_eq, act_eq]
  split
  · simp only [shiftRes]; rw [show cuts + d + 1 = cuts + 1 + d by omega]
  · exact loop_shift cx d _ _ _ _ _

/-- a start position where `recmatch` fails with one value of the cut counter has no successful
    run with any value -/
theorem recmatch_fail_any (cx : Ctx) {start cuts c : Nat} (h : recmatch cx start cuts = Res.fail c)
    (cuts' : Nat) : ∃ c', recmatch cx start cuts' = Res.fail c' := by
  rcases Nat.le_total cuts cuts' with hle | hle
  · obtain ⟨d, rfl⟩ : ∃ d, cuts' = cuts + d := ⟨cuts' - cuts, by omega⟩
    rw [recmatch_shift, h]; exact ⟨_, rfl⟩
  · obtain ⟨d, rfl⟩ : ∃ d, cuts = cuts' + d := ⟨cuts - cuts', by omega⟩
    rw [recmatch_shift] at h
    cases hr : recmatch cx start cuts' with
    | fail c' => exact ⟨_, rfl⟩
    | trap => rw [hr] at h; cases h
    | ok p m c' => rw [hr] at h; cases h

end Neatvi.Lemmas.C10
