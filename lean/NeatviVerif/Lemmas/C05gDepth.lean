import NeatviVerif.Lemmas.C05dVisit
import NeatviVerif.Props.C14
import NeatviVerif.Lemmas.C05gTactic
/-!
# C05g lemmas, part 1: nothing but `ec_at` touches the count of executing registers

`Ed.atDepth` is the `depth` counter of `ec_at` (registers executing registers).  Every primitive of the ex layer
and every handler other than `ec_at` leaves it alone; `ec_at` counts it up around the nested command line and
down again afterwards.  Hence (`Lemmas/C05gRestore.lean`) every `runCmd` / `exExec` / `exCommand` returns with
the counter it was called with.
-/
namespace Neatvi.Lemmas.C05g
open Neatvi Neatvi.Lbuf Neatvi.LbufIo Neatvi.Ex Neatvi.Rset Neatvi.Lemmas.ExFrame

/-! ### the primitives -/

@[simp] theorem setCur_depth (ed : Ed) (b : Buf) : (ed.setCur b).atDepth = ed.atDepth := rfl
@[simp] theorem setLb_depth (ed : Ed) (lb : Lb) : (ed.setLb lb).atDepth = ed.atDepth := by
  unfold Ed.setLb; split <;> rfl
@[simp] theorem show_depth (ed : Ed) (m : Bytes) : (ed.show m).atDepth = ed.atDepth := rfl
@[simp] theorem print_depth (ed : Ed) (m : Bytes) : (ed.print m).atDepth = ed.atDepth := rfl
@[simp] theorem putFile_depth (ed : Ed) (f : File) : (ed.putFile f).atDepth = ed.atDepth := by
  unfold Ed.putFile; split <;> rfl
@[simp] theorem nextFault_depth (ed : Ed) : ed.nextFault.2.atDepth = ed.atDepth := rfl
@[simp] theorem kwdSet_depth (ed : Ed) (k : Option Bytes) (d : Int) : (ed.kwdSet k d).atDepth = ed.atDepth := rfl
@[simp] theorem bufsSave_depth (ed : Ed) : ed.bufsSave.atDepth = ed.atDepth := by
  unfold Ed.bufsSave; split <;> rfl
@[simp] theorem bufsLoad_depth (ed : Ed) : ed.bufsLoad.atDepth = ed.atDepth := by
  unfold Ed.bufsLoad; split <;> rfl
@[simp] theorem bufsSwitch_depth (ed : Ed) (i : Nat) : (ed.bufsSwitch i).atDepth = ed.atDepth := by
  unfold Ed.bufsSwitch
  simp only [bufsLoad_depth]
  split <;> simp only [bufsSave_depth]
@[simp] theorem bufsOpen_depth (ed : Ed) (p : Bytes) : (ed.bufsOpen p).2.atDepth = ed.atDepth := rfl
@[simp] theorem bufsShift_depth (ed : Ed) : ed.bufsShift.atDepth = ed.atDepth := by
  unfold Ed.bufsShift; simp only [bufsLoad_depth]
@[simp] theorem modifiedAt_depth (ed : Ed) (i : Nat) : (ed.modifiedAt i).2.atDepth = ed.atDepth := by
  unfold Ed.modifiedAt; split <;> rfl
@[simp] theorem setOpt_depth (ed : Ed) (v : String) (x : Int) : (setOpt ed v x).atDepth = ed.atDepth := by
  unfold setOpt; repeat' split
  all_goals rfl
@[simp] theorem exTxt_depth (ed : Ed) (src ex : Bytes) : (exTxt ed src ex).2.atDepth = ed.atDepth := by
  unfold exTxt
  simp only []
  repeat' split
  all_goals rfl

theorem edit_depth {ed ed' : Ed} {s : Option Bytes} {b e : Int} (h : ed.edit s b e = some ed') :
    ed'.atDepth = ed.atDepth := by
  obtain ⟨_, _, lb, lb', _, _, rfl, _⟩ := Ed_edit_some h
  exact setLb_depth _ _

/-- close a goal `X.atDepth = ed.atDepth` from the equalities in the hypotheses -/
macro "depth_omega" : tactic => `(tactic| (
  (repeat' split) <;>
  first
  | rfl
  | omega
  | (simp only [setCur_depth, setLb_depth, show_depth, print_depth, putFile_depth, nextFault_depth, kwdSet_depth,
      bufsSave_depth, bufsLoad_depth, bufsSwitch_depth, bufsOpen_depth, bufsShift_depth, modifiedAt_depth,
      setOpt_depth, exTxt_depth] at * <;> first | rfl | omega)))

/-! ### writing, the guards, addresses, path expansion -/

theorem lbufSave_depth {ed ed' : Ed} {lb : Lb} {b : Nat} {e : Int} {path : Bytes} {force : Bool} {ts : Int}
    {r : Option Bytes} (h : lbufSave ed lb b e path force ts = some (r, ed')) : ed'.atDepth = ed.atDepth := by
  unfold lbufSave at h
  simp only [] at h
  frame_cases
  all_goals depth_omega

theorem lbufSaveP_depth {ed ed' : Ed} {lb : Lb} {b : Nat} {e : Int} {path : Bytes} {force : Bool} {ts : Int}
    {r : Option Bytes} (h : lbufSaveP ed lb b e path force ts = some (r, ed')) : ed'.atDepth = ed.atDepth := by
  unfold lbufSaveP at h
  split at h
  · simp only [] at h
    cases h
    split <;> rfl
  · exact lbufSave_depth h

theorem bufsModified_depth {ed ed' : Ed} {i : Nat} {msg : Option Bytes} {r : Bool}
    (h : bufsModified ed i msg = some (r, ed')) : ed'.atDepth = ed.atDepth := by
  unfold bufsModified at h
  simp only [] at h
  frame_cases
  all_goals depth_facts [lbufSave_depth]
  all_goals depth_omega

theorem exSearch_depth {ed ed' : Ed} {loc : Bytes} {r : Int × Bytes} (h : exSearch ed loc = some (r, ed')) :
    ed'.atDepth = ed.atDepth := by
  unfold exSearch at h
  simp only [] at h
  frame_cases
  all_goals depth_omega

theorem exLineno_depth {ed ed' : Ed} {loc : Bytes} {r : Int × Bytes} (h : exLineno ed loc = some (r, ed')) :
    ed'.atDepth = ed.atDepth := by
  unfold exLineno at h
  simp only [] at h
  frame_cases
  all_goals depth_facts [exSearch_depth]
  all_goals depth_omega

theorem exRegion_go_depth : ∀ (f : Nat) (ed : Ed) (loc : Bytes) (na : Nat) (b e : Int) (r : Int × Int) (ed' : Ed),
    exRegion.go f ed loc na b e = some (r, ed') → ed'.atDepth = ed.atDepth := by
  intro f
  induction f with
  | zero => intro ed loc na b e r ed' h; rw [exRegion.go] at h; cases h; rfl
  | succ f ih =>
    intro ed loc na b e r ed' h
    rw [exRegion.go] at h
    simp only [] at h
    split at h
    · cases h; rfl
    · split at h
      · cases h
      · rename_i n rest ed1 hl
        have e1 := exLineno_depth hl
        split at h
        · cases h; exact e1
        · split at h
          · cases h; exact e1
          · have e2 := ih _ _ _ _ _ _ _ h
            rw [e2]
            split <;> exact e1

theorem exRegion_depth {ed ed' : Ed} {loc : Bytes} {r : Nat × Int × Int} (h : exRegion ed loc = some (r, ed')) :
    ed'.atDepth = ed.atDepth := by
  unfold exRegion at h
  simp only [] at h
  split at h
  · cases h; rfl
  · split at h
    · cases h; rfl
    · split at h
      · cases h
      · rename_i b e ed1 hg
        have e1 := exRegion_go_depth _ _ _ _ _ _ _ _ hg
        frame_cases
        all_goals exact e1

theorem pathExpand_depth {ed ed' : Ed} {src : Bytes} {sp : Bool} {r : Option Bytes}
    (h : pathExpand ed src sp = some (r, ed')) : ed'.atDepth = ed.atDepth := by
  unfold pathExpand at h
  frame_cases
  all_goals depth_omega

theorem foldl_print_depth (b : Int) : ∀ (l : List Nat) (ed : Ed),
    (l.foldl (fun (ed : Ed) (k : Nat) => match ed.line (b + (k : Int)) with | some l => ed.print l | none => ed) ed).atDepth
      = ed.atDepth := by
  intro l
  induction l with
  | nil => intro ed; rfl
  | cons k l ih =>
    intro ed
    rw [List.foldl_cons, ih]
    split <;> rfl

theorem some_pair_inj' {α β} {a a' : α} {b b' : β} (h : some (a, b) = some (a', b')) : a = a' ∧ b = b' := by
  cases h; exact ⟨rfl, rfl⟩

theorem ecWrite_depth {ed ed' : Ed} {loc cmd arg : Bytes} {r : Int} (hw : ecWrite ed loc cmd arg = some (r, ed')) :
    ed'.atDepth = ed.atDepth := by
  unfold ecWrite at hw
  simp only [] at hw
  split at hw
  · cases hw
  · rename_i path ed1 hp
    have h1 : ed1.atDepth = ed.atDepth := by
      split at hp
      · exact pathExpand_depth hp
      · cases hp; rfl
    have hxx : ∀ (m : Bool) (ed2 : Ed), (if (List.headD cmd 0 == 120) = true then some (ed1.modifiedAt 0) else some (true, ed1)) = some (m, ed2) →
        ed2.atDepth = ed.atDepth := by
      intro m ed2 hx
      split at hx
      · have e := (some_pair_inj' (b := (ed1.modifiedAt 0).2) hx).2
        rw [← e, modifiedAt_depth]; exact h1
      · cases hx; exact h1
    split at hw
    · cases hw
    · rename_i ed2 hx
      cases hw
      exact hxx _ _ hx
    · rename_i ed2 hx
      have h2 := hxx _ _ hx
      split at hw
      · cases hw
      · rename_i rc b e ed3 hr
        have h3 : ed3.atDepth = ed.atDepth := (exRegion_depth hr).trans h2
        split at hw
        · cases hw; exact h3
        · split at hw
          · cases hw
          · rename_i cur hcur
            split at hw
            · split at hw
              · cases hw; exact h3
              · cases hw; depth_omega
            · split at hw
              · cases hw
              · rename_i err ed4 hs
                cases hw
                rw [show_depth]
                exact (lbufSaveP_depth hs).trans h3
              · rename_i ed4 hs
                have h4 : ed4.atDepth = ed.atDepth := (lbufSaveP_depth hs).trans h3
                generalize hE : Ed.show ed4 _ = ed5 at hw
                have h5 : ed5.atDepth = ed.atDepth := by rw [← hE]; exact h4
                split at hw
                · cases hw
                · rename_i cur2 hcur2
                  generalize hX : (if cur2.path.isEmpty = true then _ else (cur2, ed5) : Buf × Ed) = X at hw
                  have hX2 : X.2.atDepth = ed.atDepth := by rw [← hX]; split <;> exact h5
                  obtain ⟨c3, ed6⟩ := X
                  simp only [] at hw hX2
                  repeat' (split at hw)
                  all_goals
                    cases hw
                    exact hX2

theorem each_depth (cmd : Bytes) (all : Bool) : ∀ (g i : Nat) (ed ed' : Ed) (r : Bool),
    runCmd.each cmd all g i ed = some (r, ed') → ed'.atDepth = ed.atDepth := by
  intro g
  induction g with
  | zero => intro i ed ed' r h; rw [runCmd.each.eq_1] at h; cases h; rfl
  | succ g ih =>
    intro i ed ed' r h
    rw [runCmd.each.eq_2] at h
    simp only [] at h
    frame_cases
    all_goals depth_facts [bufsModified_depth, lbufSaveP_depth, ih]
    all_goals depth_omega

/-! ### the handlers that run no command line -/

theorem substPrep_depth (ed : Ed) (arg : Bytes) : (Props.C14.substPrep ed arg).1.atDepth = ed.atDepth := by
  unfold Props.C14.substPrep
  simp only []
  depth_omega

open Neatvi.Props in
theorem substLoop_depth (re : RStr) (g : Bool) (b : Int) : ∀ (n : Nat) (ed ed' : Ed),
    C14.substLoop re g b n ed = some ed' → ed'.atDepth = ed.atDepth := by
  intro n
  induction n with
  | zero => intro ed ed' h; cases h; rfl
  | succ n ih =>
    intro ed ed' h
    rw [C14.substLoop_succ] at h
    cases hm : C14.substLoop re g b n ed with
    | none => rw [hm] at h; cases h
    | some em =>
      rw [hm] at h
      simp only [Option.bind_some] at h
      have hm' := ih _ _ hm
      unfold C14.substStep at h
      frame_cases
      all_goals depth_facts [edit_depth]
      all_goals depth_omega

theorem runCmd_print_depth (f : Nat) (ed ed' : Ed) (loc cmd arg : Bytes) (txt : Option Bytes) (r : Int)
    (h : runCmd f ed "ec_print" loc cmd arg txt = some (r, ed')) : ed'.atDepth = ed.atDepth := by
  cases f with
  | zero => rw [runCmd] at h; cases h
  | succ f =>
    rw [runCmd] at h
    rw [if_neg (by decide), if_pos (by decide)] at h
    split at h
    · cases h; rfl
    · split at h
      · cases h
      · rename_i hr
        have e1 := exRegion_depth hr
        split at h
        · cases h; exact e1
        · cases h
          exact (foldl_print_depth _ _ _).trans e1

theorem foldl_pair_depth {α : Type} (F : Bool × Ed → α → Bool × Ed)
    (hF : ∀ st a, (F st a).2.atDepth = st.2.atDepth) : ∀ (l : List α) (st : Bool × Ed),
    (l.foldl F st).2.atDepth = st.2.atDepth := by
  intro l
  induction l with
  | nil => intro st; rfl
  | cons a l ih => intro st; rw [List.foldl_cons, ih, hF]

/-- every handler other than `ec_at`, `ec_glob`, `ec_edit` (given what those three do) -/
theorem runCmd_depth (f : Nat) (ed ed' : Ed) (hd : String) (loc cmd arg : Bytes) (txt : Option Bytes) (r : Int)
    (hat : ∀ ed r ed', ecAt f ed loc cmd arg = some (r, ed') → ed'.atDepth = ed.atDepth)
    (hglob : ∀ ed r ed', ecGlob f ed loc cmd arg = some (r, ed') → ed'.atDepth = ed.atDepth)
    (hedit : ∀ ed r ed', ecEdit f ed cmd arg = some (r, ed') → ed'.atDepth = ed.atDepth)
    (h : runCmd (f + 1) ed hd loc cmd arg txt = some (r, ed')) : ed'.atDepth = ed.atDepth := by
  by_cases hs : hd = "ec_substitute"
  · subst hs
    rw [Props.C14.runCmd_subst_eq] at h
    split at h
    · cases h
    · rename_i ed1 hr
      have e1 := exRegion_depth hr
      have e2 := substPrep_depth ed1 arg
      repeat' (split at h)
      all_goals (first | cases h | skip)
      · exact e1
      · omega
      · omega
      · rename_i hl
        have := substLoop_depth _ _ _ _ _ _ hl
        omega
  by_cases hq : hd = "ec_quit"
  · subst hq
    rw [Lemmas.C02Ex.runCmd_quit] at h
    split at h
    · cases h
    · rename_i rc ed1 hw
      have h1 : ed1.atDepth = ed.atDepth := by
        split at hw
        · exact ecWrite_depth hw
        · cases hw; rfl
      split at h
      · cases h; exact h1
      · split at h
        · cases h
        · rename_i he; cases h; exact (each_depth _ _ _ _ _ _ _ he).trans h1
        · rename_i he; cases h; exact (each_depth _ _ _ _ _ _ _ he).trans h1
  by_cases hw : hd = "ec_write"
  · subst hw
    rw [Lemmas.C02Ex.runCmd_write] at h
    exact ecWrite_depth h
  by_cases he : hd = "ec_edit"
  · subst he
    rw [Lemmas.C02Ex.runCmd_edit] at h
    exact hedit _ _ _ h
  rw [runCmd] at h
  by_cases c : (hd == "ec_insert") = true
  · rw [if_pos c] at h
    simp only [] at h
    clear hat hglob hedit
    frame_cases
    all_goals depth_facts [exRegion_depth, edit_depth]
    all_goals depth_omega
  rw [if_neg c] at h; clear c
  by_cases c : (hd == "ec_print") = true
  · have : hd = "ec_print" := by simpa using c
    subst this
    have h' : runCmd (f + 1) ed "ec_print" loc cmd arg txt = some (r, ed') := by
      rw [runCmd, if_neg (by decide), if_pos (by decide)]
      rw [if_pos c] at h
      exact h
    exact runCmd_print_depth _ _ _ _ _ _ _ _ h'
  rw [if_neg c] at h; clear c
  by_cases c : (hd == "ec_null") = true
  · rw [if_pos c] at h
    split at h
    · simp only [] at h
      have := runCmd_print_depth _ _ _ _ _ _ _ _ h
      exact this
    · clear hat hglob hedit
      frame_cases
      all_goals depth_facts [exRegion_depth]
      all_goals depth_omega
  rw [if_neg c] at h; clear c
  by_cases c : (hd == "ec_delete" || hd == "ec_yank") = true
  · rw [if_pos c] at h
    simp only [] at h
    clear hat hglob hedit
    frame_cases
    all_goals depth_facts [exRegion_depth, edit_depth]
    all_goals depth_omega
  rw [if_neg c] at h; clear c
  by_cases c : (hd == "ec_put") = true
  · rw [if_pos c] at h
    simp only [] at h
    clear hat hglob hedit
    frame_cases
    all_goals depth_facts [exRegion_depth, edit_depth]
    all_goals depth_omega
  rw [if_neg c] at h; clear c
  by_cases c : (hd == "ec_lnum") = true
  · rw [if_pos c] at h
    clear hat hglob hedit
    frame_cases
    all_goals depth_facts [exRegion_depth]
    all_goals depth_omega
  rw [if_neg c] at h; clear c
  by_cases c : (hd == "ec_undo") = true
  · rw [if_pos c] at h
    clear hat hglob hedit
    frame_cases
    all_goals depth_omega
  rw [if_neg c] at h; clear c
  by_cases c : (hd == "ec_redo") = true
  · rw [if_pos c] at h
    clear hat hglob hedit
    frame_cases
    all_goals depth_omega
  rw [if_neg c] at h; clear c
  by_cases c : (hd == "ec_mark") = true
  · rw [if_pos c] at h
    clear hat hglob hedit
    frame_cases
    all_goals depth_facts [exRegion_depth]
    all_goals depth_omega
  rw [if_neg c] at h; clear c
  by_cases c : (hd == "ec_rs") = true
  · rw [if_pos c] at h
    cases h; rfl
  rw [if_neg c] at h; clear c
  by_cases c : (hd == "ec_at") = true
  · rw [if_pos c] at h
    exact hat _ _ _ h
  rw [if_neg c] at h; clear c
  by_cases c : (hd == "ec_glob") = true
  · rw [if_pos c] at h
    exact hglob _ _ _ h
  rw [if_neg c] at h; clear c
  by_cases c : (hd == "ec_edit") = true
  · exact absurd (by simpa using c) he
  rw [if_neg c] at h; clear c
  by_cases c : (hd == "ec_substitute") = true
  · exact absurd (by simpa using c) hs
  rw [if_neg c] at h; clear c
  by_cases c : (hd == "ec_exec") = true
  · rw [if_pos c] at h
    simp only [] at h
    clear hat hglob hedit
    frame_cases
    all_goals (try (simp only [Option.map_eq_some_iff] at h; obtain ⟨edx, hx1, hx2⟩ := h; cases hx2))
    all_goals depth_facts [exRegion_depth, edit_depth, pathExpand_depth, bufsModified_depth]
    all_goals depth_omega
  rw [if_neg c] at h; clear c
  by_cases c : (hd == "ec_read") = true
  · rw [if_pos c] at h
    simp only [] at h
    clear hat hglob hedit
    frame_cases
    all_goals depth_facts [exRegion_depth, edit_depth, pathExpand_depth]
    all_goals depth_omega
  rw [if_neg c] at h; clear c
  by_cases c : (hd == "ec_write") = true
  · exact absurd (by simpa using c) hw
  rw [if_neg c] at h; clear c
  by_cases c : (hd == "ec_quit") = true
  · exact absurd (by simpa using c) hq
  rw [if_neg c] at h; clear c
  by_cases c : (hd == "ec_buffer") = true
  · rw [if_pos c] at h
    clear hat hglob hedit
    split at h
    · simp only [] at h
      cases h
      rw [foldl_pair_depth]
      intro st i
      obtain ⟨go, ed0⟩ := st
      simp only []
      depth_omega
    · split at h
      · simp only [] at h
        frame_cases
        all_goals depth_omega
      · split at h
        · simp only [] at h
          cases h
          rfl
        · simp only [] at h
          frame_cases
          all_goals depth_facts [bufsModified_depth]
          all_goals depth_omega
  rw [if_neg c] at h; clear c
  by_cases c : (hd == "ec_set") = true
  · rw [if_pos c] at h
    simp only [] at h
    clear hat hglob hedit
    frame_cases
    all_goals depth_omega
  rw [if_neg c] at h; clear c
  by_cases c : (hd == "ec_echo") = true
  · rw [if_pos c] at h
    cases h; rfl
  rw [if_neg c] at h; clear c
  cases h; rfl

end Neatvi.Lemmas.C05g
