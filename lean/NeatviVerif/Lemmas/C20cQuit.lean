import NeatviVerif.Lemmas.C20cTrace
/-!
# C20c lemmas, part 7: `:q` with a dirty buffer somewhere; `:e path` of an open path and the file system
-/
namespace Neatvi.Lemmas.C20c
open Neatvi Neatvi.Lbuf Neatvi.Ex Neatvi.Rset Neatvi.Props.C20 Neatvi.Props.C20b Neatvi.Lemmas.C20b
open Neatvi.Lemmas.ExFrame Neatvi.Lemmas.C02Ex Neatvi.Lemmas.C02c

/-! ### the loop of `ec_quit` stops at the first dirty buffer in table order -/

/-- only the table differs -/
def TableOnly (ed ed' : Ed) : Prop := ∃ bufs, ed' = { ed with bufs := bufs }

theorem TableOnly.refl (ed : Ed) : TableOnly ed ed := ⟨ed.bufs, rfl⟩
theorem TableOnly.trans {a b c : Ed} (h1 : TableOnly a b) (h2 : TableOnly b c) : TableOnly a c := by
  obtain ⟨_, e1⟩ := h1
  obtain ⟨_, e2⟩ := h2
  subst e1; subst e2
  exact ⟨_, rfl⟩

theorem tableOnly_bumpAt (ed : Ed) (i : Nat) (b : Buf) : TableOnly ed (bumpAt ed i b) := ⟨_, rfl⟩

/-- without `!` and without `a`, no autowrite: the loop passes the clean slots before `j` (bumping
    their sequence counters), refuses at the dirty slot `j` with the message, and switches to it -/
theorem each_first_dirty (cmd : Bytes) (hbang : hasBang cmd = false) (j : Nat) (bj : Buf)
    (hdj : (modified bj.lb).1 = true) : ∀ (g i : Nat) (ed : Ed), ed.xaw = 0 → i ≤ j → j < i + g →
    ed.bufs.getD j none = some bj →
    (∀ k b, i ≤ k → k < j → ed.bufs.getD k none = some b → (modified b.lb).1 = false) →
    ∃ ed1, runCmd.each cmd false g i ed = some (true, (ed1.show (strOf "buffer modified")).bufsSwitch j) ∧
      Quiet ed ed1 ∧ TableOnly ed ed1 := by
  intro g
  induction g with
  | zero => intro i ed _ h1 h2; omega
  | succ g ih =>
    intro i ed haw hij hjg hbj hclean
    obtain ⟨hjlt, _⟩ := getD_some hbj
    rw [runCmd.each.eq_2]
    have hi : ¬ i ≥ ed.bufs.length := by omega
    simp only [hi, if_false]
    by_cases heq : i = j
    · subst heq
      simp only [hbj, hbang, Bool.not_false, Bool.and_self, if_true]
      rw [guard_refuses_at ed i bj _ hbj hdj haw]
      exact ⟨bumpAt ed i bj, rfl, quiet_bumpAt ed i bj hbj, tableOnly_bumpAt ed i bj⟩
    · cases hbi : ed.bufs.getD i none with
      | none => exact ih (i + 1) ed haw (by omega) (by omega) hbj (fun k b hk => hclean k b (by omega))
      | some b =>
        simp only [hbang, Bool.not_false, Bool.and_self, if_true]
        rw [guard_passes_at ed i b _ hbi (hclean i b (Nat.le_refl _) (by omega) hbi)]
        simp only [Bool.false_eq_true, if_false]
        obtain ⟨ed1, he, hq, ht⟩ := ih (i + 1) (bumpAt ed i b) haw (by omega) (by omega)
          (by simp only [bumpAt]; rw [C02Ex.getD_set_ne _ _ _ _ heq]; exact hbj)
          (by
            intro k b' hk hkj hb'
            simp only [bumpAt] at hb'
            rw [C02Ex.getD_set_ne _ _ _ _ (by omega)] at hb'
            exact hclean k b' (by omega) hkj hb')
        exact ⟨ed1, he, (quiet_bumpAt ed i b hbi).trans hq, (tableOnly_bumpAt ed i b).trans ht⟩

theorem bufsSwitch_xquit (ed : Ed) (idx : Nat) : (ed.bufsSwitch idx).xquit = ed.xquit := by
  unfold Ed.bufsSwitch Ed.bufsLoad Ed.bufsSave Ed.setCur
  simp only []
  repeat' split
  all_goals rfl

theorem bufsSwitch_msg (ed : Ed) (idx : Nat) : (ed.bufsSwitch idx).msg = ed.msg := by
  unfold Ed.bufsSwitch Ed.bufsLoad Ed.bufsSave Ed.setCur
  simp only []
  repeat' split
  all_goals rfl

/-- `:q` / `:quit` (no `!`, no `a`, not `:wq` / `:x`), no autowrite, with a dirty buffer somewhere;
    `j` is the first dirty slot in table order (0 = current, 1 = alternate, …) -/
theorem quit_first_dirty (f : Nat) (ed : Ed) (loc cmd arg : Bytes) (txt : Option Bytes)
    (hw : cmd.headD 0 ≠ 119 ∧ cmd.headD 0 ≠ 120) (hbang : hasBang cmd = false) (hall : cmd.contains 97 = false)
    (haw : ed.xaw = 0) (j : Nat) (bj : Buf) (hbj : ed.bufs.getD j none = some bj)
    (hdj : (modified bj.lb).1 = true)
    (hfirst : ∀ k b, k < j → ed.bufs.getD k none = some b → (modified b.lb).1 = false) :
    ∃ ed1, runCmd (f + 1) ed "ec_quit" loc cmd arg txt =
        some (0, (ed1.show (strOf "buffer modified")).bufsSwitch j) ∧
      Quiet ed ed1 ∧ TableOnly ed ed1 := by
  rw [runCmd_quit]
  have h1 : (cmd.headD 0 == 119 || cmd.headD 0 == 120) = false := by
    rw [Bool.or_eq_false_iff]
    exact ⟨beq_eq_false_iff_ne.mpr hw.1, beq_eq_false_iff_ne.mpr hw.2⟩
  simp only [h1, Bool.false_eq_true, if_false, hall]
  obtain ⟨hjlt, _⟩ := getD_some hbj
  obtain ⟨ed1, he, hq, ht⟩ := each_first_dirty cmd hbang j bj hdj (ed.bufs.length + 1) 0 ed haw (by omega) (by omega) hbj
    (fun k b _ hk hb => hfirst k b hk hb)
  refine ⟨ed1, ?_, hq, ht⟩
  simp only [show ((0 : Int) != 0) = false by decide, Bool.false_eq_true, if_false, he]

/-- what `:q` leaves, in terms a user sees -/
theorem quit_refuses (f : Nat) (ed : Ed) (loc cmd arg : Bytes) (txt : Option Bytes)
    (hw : cmd.headD 0 ≠ 119 ∧ cmd.headD 0 ≠ 120) (hbang : hasBang cmd = false) (hall : cmd.contains 97 = false)
    (haw : ed.xaw = 0) (j : Nat) (bj : Buf) (hbj : ed.bufs.getD j none = some bj)
    (hdj : (modified bj.lb).1 = true)
    (hfirst : ∀ k b, k < j → ed.bufs.getD k none = some b → (modified b.lb).1 = false) :
    ∃ ed', runCmd (f + 1) ed "ec_quit" loc cmd arg txt = some (0, ed') ∧
      ed'.xquit = ed.xquit ∧ ed'.files = ed.files ∧
      ed'.msg = ed.msg ++ strOf "buffer modified" ++ [10] ∧
      (∀ i, obsAt ed' (if i = j then 0 else if i < j then i + 1 else i) = obsAt ed i) ∧
      (∀ i, idAt ed' (if i = j then 0 else if i < j then i + 1 else i) = idAt ed i) ∧
      ed'.bufs.length = ed.bufs.length ∧
      ∃ b', ed'.cur = some b' ∧ b'.id = bj.id ∧ b'.path = bj.path ∧ (modified b'.lb).1 = true := by
  obtain ⟨ed1, he, hq, ⟨bufs1, ht⟩⟩ := quit_first_dirty f ed loc cmd arg txt hw hbang hall haw j bj hbj hdj hfirst
  have hq2 : Quiet ed (ed1.show (strOf "buffer modified")) := hq.trans (quiet_show _ _)
  have hobs : ∀ i, obsAt ((ed1.show (strOf "buffer modified")).bufsSwitch j)
      (if i = j then 0 else if i < j then i + 1 else i) = obsAt ed i := by
    intro i
    rw [switch_obs]
    exact step_obs (ev := .quiet) hq2 i i rfl (by intro h; cases h)
  have hid : ∀ i, idAt ((ed1.show (strOf "buffer modified")).bufsSwitch j)
      (if i = j then 0 else if i < j then i + 1 else i) = idAt ed i := by
    intro i
    rw [switch_idAt]
    exact Quiet.idAt hq2 i
  refine ⟨_, he, ?_, ?_, ?_, hobs, hid, ?_, ?_⟩
  · rw [bufsSwitch_xquit, ht]; rfl
  · rw [switch_files, ht]; rfl
  · rw [bufsSwitch_msg, ht]; rfl
  · rw [switch_length _ _ (by rw [hq2.len]; exact (getD_some hbj).1), hq2.len]
  · have h0 := hobs j
    have h1 := hid j
    rw [if_pos rfl] at h0 h1
    unfold obsAt at h0
    unfold idAt at h1
    rw [hbj] at h0 h1
    cases hc : ((ed1.show (strOf "buffer modified")).bufsSwitch j).bufs.getD 0 none with
    | none => rw [hc] at h0; cases h0
    | some b' =>
      rw [hc] at h0 h1
      simp only [Option.map_some, Option.some.injEq] at h0 h1
      refine ⟨b', hc, h1, ?_, ?_⟩
      · have := congrArg Buf.path h0
        have e1 : ∀ (e : Ed) (i : Nat) (b : Buf), (obsB (viewed e i b)).path = b.path := by
          intro e i b; unfold viewed; split <;> rfl
        rw [e1, e1] at this; exact this
      · have := congrArg (fun b : Buf => (modified b.lb).1) h0
        simp only [dirty_obsB, dirty_viewed] at this
        rw [this]; exact hdj

/-! ### replacing the file system -/

/-- the editor with another file system -/
def withFiles (fs : List File) (ed : Ed) : Ed := { ed with files := fs }

theorem bufsModified_withFiles (fs : List File) (ed : Ed) (idx : Nat) (msg : Option Bytes) (haw : ed.xaw = 0) :
    bufsModified (withFiles fs ed) idx msg = (bufsModified ed idx msg).map (fun p => (p.1, withFiles fs p.2)) := by
  cases hb : ed.bufs.getD idx none with
  | none =>
    unfold bufsModified
    have : (withFiles fs ed).bufs.getD idx none = none := hb
    simp only [this, hb]
    rfl
  | some b =>
    have hb' : (withFiles fs ed).bufs.getD idx none = some b := hb
    cases hd : (modified b.lb).1 with
    | false =>
      rw [guard_passes_at ed idx b msg hb hd, guard_passes_at (withFiles fs ed) idx b msg hb' hd]
      rfl
    | true =>
      rw [guard_refuses_at ed idx b msg hb hd haw, guard_refuses_at (withFiles fs ed) idx b msg hb' hd haw]
      cases msg <;> rfl

theorem pathExpand_go_withFiles (fs : List File) (ed : Ed) (sp : Bool) : ∀ (f : Nat) (src dst : Bytes),
    pathExpand.go (withFiles fs ed) sp f src dst = pathExpand.go ed sp f src dst := by
  intro f
  induction f with
  | zero => intro src dst; rw [pathExpand.go, pathExpand.go]
  | succ f ih =>
    intro src dst
    cases src with
    | nil => rw [pathExpand.go, pathExpand.go]
    | cons c r =>
      rw [pathExpand.go, pathExpand.go]
      simp only [ih]
      rfl

theorem pathExpand_withFiles (fs : List File) (ed : Ed) (src : Bytes) (sp : Bool) :
    pathExpand (withFiles fs ed) src sp = (pathExpand ed src sp).map (fun p => (p.1, withFiles fs p.2)) := by
  unfold pathExpand
  rw [pathExpand_go_withFiles]
  repeat' split
  all_goals rfl

theorem bufsLoad_withFiles (fs : List File) (ed : Ed) : (withFiles fs ed).bufsLoad = withFiles fs ed.bufsLoad := by
  unfold Ed.bufsLoad
  have : (withFiles fs ed).cur = ed.cur := rfl
  rw [this]
  cases ed.cur <;> rfl

theorem mid_withFiles (fs : List File) (ed : Ed) : mid (withFiles fs ed) = withFiles fs (mid ed) := by
  unfold mid Ed.bufsSave
  have : (withFiles fs ed).cur = ed.cur := rfl
  rw [this]
  cases hc : ed.cur with
  | none =>
    simp only []
    have h1 : (withFiles fs ed).bufs.getD 0 none = none := hc
    have h2 : ed.bufs.getD 0 none = none := hc
    rw [h1, h2]
  | some b =>
    simp only []
    have hlt : 0 < ed.bufs.length := (getD_some (show ed.bufs.getD 0 none = some b from hc)).1
    have h1 : ∀ x : Buf, ((withFiles fs ed).setCur x).bufs.getD 0 none = some x := by
      intro x; exact getD_set_self _ _ _ hlt
    have h2 : ∀ x : Buf, (ed.setCur x).bufs.getD 0 none = some x := by
      intro x; exact getD_set_self _ _ _ hlt
    rw [h1, h2]
    rfl

theorem bufsSwitch_withFiles (fs : List File) (ed : Ed) (idx : Nat) :
    (withFiles fs ed).bufsSwitch idx = withFiles fs (ed.bufsSwitch idx) := by
  rw [switch_def, switch_def, mid_withFiles]
  exact bufsLoad_withFiles fs
    { mid ed with bufs := [(mid ed).bufs.getD idx none] ++ (mid ed).bufs.take idx ++ (mid ed).bufs.drop (idx + 1) }

theorem ewPre_withFiles (fs : List File) (ed : Ed) (cmd path : Bytes) :
    ewPre (withFiles fs ed) cmd path = withFiles fs (ewPre ed cmd path) := by
  unfold ewPre
  have : (withFiles fs ed).bufsFind path = ed.bufsFind path := rfl
  rw [this]
  split
  · exact bufsSwitch_withFiles fs ed 1
  · rfl

/-- **`:e path` of an open path never looks at the file system** (no autowrite, no `+cmd`): with
    any other file system `fs` in place of the editor's the command does the same thing — the same
    switch — and leaves `fs` as it is.  This holds for `:e!` as well: the `!` only skips the
    unsaved-changes guard, it does not force a reload. -/
theorem reedit_ignores_files (f : Nat) (ed ed1 ed2 : Ed) (cmd arg path : Bytes) (fs : List File)
    (haw : ed.xaw = 0)
    (hg : editGuard ed cmd = some (false, ed1))
    (hplus : (arg.dropWhile (· == 32)).headD 0 ≠ 43)
    (hp : pathExpand ed1 (arg.dropWhile (· == 32)) false = some (some path, ed2))
    (hne : path ≠ [])
    (hf : (ewPre ed2 cmd path).bufsFind path ≥ 0) :
    ecEdit (f + 1) ed cmd arg =
      some (0, (ewPre ed2 cmd path).bufsSwitch ((ewPre ed2 cmd path).bufsFind path).toNat) ∧
    ecEdit (f + 1) (withFiles fs ed) cmd arg =
      some (0, withFiles fs ((ewPre ed2 cmd path).bufsSwitch ((ewPre ed2 cmd path).bufsFind path).toNat)) ∧
    ((ewPre ed2 cmd path).bufsSwitch ((ewPre ed2 cmd path).bufsFind path).toNat).files = ed.files := by
  have hfiles1 : ed1.files = ed.files := (editGuard_sameTable ed ed1 cmd false haw hg).files
  have hfiles2 : ed2.files = ed1.files := (pathExpand_sameTable ed1 ed2 _ _ _ hp).files
  refine ⟨reopen_does_not_reread f ed ed1 ed2 cmd arg path hg hplus hp hne hf, ?_, ?_⟩
  · have hg' : editGuard (withFiles fs ed) cmd = some (false, withFiles fs ed1) := by
      unfold editGuard at hg ⊢
      have e1 : (withFiles fs ed).cur = ed.cur := rfl
      have e2 : (withFiles fs ed).xwa = ed.xwa := rfl
      rw [e1, e2]
      split
      · next hc =>
        rw [if_pos hc] at hg
        rw [bufsModified_withFiles fs ed 0 _ haw, hg]; rfl
      · next hc =>
        rw [if_neg hc] at hg
        cases hg; rfl
    have hp' : pathExpand (withFiles fs ed1) (arg.dropWhile (· == 32)) false = some (some path, withFiles fs ed2) := by
      rw [pathExpand_withFiles, hp]; rfl
    have hf' : (ewPre (withFiles fs ed2) cmd path).bufsFind path ≥ 0 := by
      rw [ewPre_withFiles]; exact hf
    have := reopen_does_not_reread f (withFiles fs ed) _ _ cmd arg path hg' hplus hp' hne hf'
    rw [this, ewPre_withFiles, bufsSwitch_withFiles]
    rfl
  · rw [reopen_files, hfiles2, hfiles1]

end Neatvi.Lemmas.C20c
