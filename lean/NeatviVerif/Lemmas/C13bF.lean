import NeatviVerif.Lemmas.C13bE
import NeatviVerif.Lemmas.C13Spec
/-!
# C13b, part F: the per-line matcher of `lbuf_search` against the whole-line matcher

* `PatCF kw`: the pattern text `kw` makes no word-boundary test — decided on the text: the literal
  fast path has no `\<` / `\>` anchor, or the tree the engine builds for it is `ContextFree`;
* `wholeMatcher re`: the matcher of the whole-line reading — `rstr_find` sees the whole line and
  reports the first match that starts at the given byte or later;
* `reMatcher_eq_whole`: for such patterns the matcher of `lbuf_search` (suffix + `RE_NOTBOL`) *is*
  the whole-line matcher, at every byte offset of the line.
-/
namespace Neatvi.Lemmas.C13b
open Neatvi Neatvi.Regex Neatvi.Rset Neatvi.Spec.RegexSem Neatvi.Mot Neatvi.Lemmas.C13

/-! ### from the pattern text to the compiled pattern -/

theorem treeAtoms_cf : ∀ (t : RNode), ContextFree t = true → TreeAtoms (fun a => CFAtom a = true) t := by
  intro t
  induction t with
  | nul => intro _; trivial
  | atom a mn mx => intro h; exact h
  | cat a b iha ihb =>
    intro h; simp only [ContextFree, Bool.and_eq_true] at h; exact ⟨iha h.1, ihb h.2⟩
  | alt a b iha ihb =>
    intro h; simp only [ContextFree, Bool.and_eq_true] at h; exact ⟨iha h.1, ihb h.2⟩
  | grp a g mn mx iha => intro h; exact iha h

theorem treeAtoms_nobeg : ∀ (t : RNode), NoBeg t = true → TreeAtoms (fun a => a.k ≠ AK.beg) t := by
  intro t
  induction t with
  | nul => intro _; trivial
  | atom a mn mx =>
    intro h
    have : a.k ≠ AK.beg := by simpa [NoBeg] using h
    exact this
  | cat a b iha ihb =>
    intro h; simp only [NoBeg, Bool.and_eq_true] at h; exact ⟨iha h.1, ihb h.2⟩
  | alt a b iha ihb =>
    intro h; simp only [NoBeg, Bool.and_eq_true] at h; exact ⟨iha h.1, ihb h.2⟩
  | grp a g mn mx iha => intro h; exact iha h

/-- **the pattern text makes no word-boundary test.**  When `rstr_make` takes the pattern as a literal
    (`simple`): it has no `\<` / `\>` anchor.  Otherwise: the tree of the pattern (as `rset_make`
    wraps it, `((kw))`) is `ContextFree`. -/
def PatCF (kw : Bytes) : Bool :=
  match simple kw with
  | some (_, wbeg, wend, _, _) => !wbeg && !wend
  | none =>
    match parse (combined [some kw]) with
    | some (some t) => ContextFree t
    | _ => true

/-- the engine's program for the pattern has no `^` (a literal `^lit` is handled by `RE_NOTBOL` alone) -/
def PatNoBeg (kw : Bytes) : Bool :=
  match simple kw with
  | some _ => true
  | none =>
    match parse (combined [some kw]) with
    | some (some t) => NoBeg t
    | _ => true

theorem make_prog {kw : Bytes} {flg : Nat} {r : RSet} (h : make [some kw] flg = some (some r)) :
    ∃ rflg, regcomp (combined [some kw]) rflg = some (some r.prog) := by
  unfold make at h
  simp only [] at h
  split at h
  · cases h
  · cases h
  · rename_i p hp
    injection h with h; injection h with h
    exact ⟨_, by rw [← h]; exact hp⟩

theorem reCF_of_pat {kw : Bytes} {flg : Nat} {re : RStr} (h : rstrMake kw flg = some (some re))
    (hp : PatCF kw = true) : ReCF re := by
  unfold rstrMake at h
  unfold PatCF at hp
  simp only [] at h
  split at h
  · rename_i lbeg wbeg wend lend lit hs
    rw [hs] at hp
    injection h with h; injection h with h
    rw [← h]
    simp only [Bool.and_eq_true, Bool.not_eq_true'] at hp
    exact hp
  · rename_i hs
    rw [hs] at hp
    split at h
    · cases h
    · cases h
    · rename_i r hm
      injection h with h; injection h with h
      rw [← h]
      obtain ⟨rflg, hc⟩ := make_prog hm
      show CodeAtoms (fun a => CFAtom a = true) r.prog.code
      apply codeAtoms_regcomp (P := fun a => CFAtom a = true) hc
      intro t ht
      rw [ht] at hp
      exact treeAtoms_cf t hp

theorem reNoBeg_of_pat {kw : Bytes} {flg : Nat} {re : RStr} (h : rstrMake kw flg = some (some re))
    (hp : PatNoBeg kw = true) : ReNoBeg re := by
  unfold rstrMake at h
  unfold PatNoBeg at hp
  simp only [] at h
  split at h
  · injection h with h; injection h with h
    rw [← h]
    trivial
  · rename_i hs
    rw [hs] at hp
    split at h
    · cases h
    · cases h
    · rename_i r hm
      injection h with h; injection h with h
      rw [← h]
      obtain ⟨rflg, hc⟩ := make_prog hm
      show CodeAtoms (fun a => a.k ≠ AK.beg) r.prog.code
      apply codeAtoms_regcomp (P := fun a => a.k ≠ AK.beg) hc
      intro t ht
      rw [ht] at hp
      exact treeAtoms_nobeg t hp

/-! ### the matchers -/

/-- the matcher of the whole-line reading: `rstr_find` sees the whole line `s` and reports the first
    match that starts at byte `off` or later; offsets relative to `off`, as `Matcher` wants them -/
def wholeMatcher (re : RStr) : Matcher := fun s off =>
  match rstrFindFrom re s off 1 0 search.Ex_ND search.Ex_NG with
  | none => none
  | some (res, offs, _) =>
    if res < 0 then some none else some (some ((offs.getD 0 0).toNat - off, (offs.getD 1 0).toNat - off))

theorem shift_getD_toNat (k : Nat) (offs : List Int) (i : Nat) :
    ((offs.map (shiftI k)).getD i 0).toNat - k = (offs.getD i 0).toNat := by
  rw [List.getD_eq_getElem?_getD, List.getD_eq_getElem?_getD, List.getElem?_map]
  cases offs[i]? with
  | none => simp
  | some v =>
    simp only [Option.map_some, Option.getD_some]
    unfold shiftI
    split <;> omega

/-- the side condition on `^` for a whole line: the engine's program has no `^`, or a newline occurs
    in the line only as its last byte (every line of the line buffer) -/
def LineNl (s : Bytes) : Prop := ∀ i, i + 1 < s.length → s.getD i 0 ≠ 10

/-- `LineNl`, decided: no newline among the bytes before the last one -/
def lineNlB (s : Bytes) : Bool := s.dropLast.all (fun c => c != 10)

theorem lineNl_of_bool {s : Bytes} (h : lineNlB s = true) : LineNl s := by
  intro i hi
  unfold lineNlB at h
  rw [List.all_eq_true] at h
  have hlt : i < s.dropLast.length := by rw [List.length_dropLast]; omega
  have hm : s.dropLast[i] ∈ s.dropLast := List.getElem_mem hlt
  have := h _ hm
  rw [List.getElem_dropLast] at this
  rw [List.getD_eq_getElem?_getD, List.getElem?_eq_getElem (by omega)]
  simpa using this

/-- **the matcher of `lbuf_search` is the whole-line matcher** for a pattern without word-boundary
    tests, at every byte offset `off ≤ s.length` -/
theorem reMatcher_eq_whole (re : RStr) (s : Bytes) (off : Nat) (hoff : off ≤ s.length)
    (hcf : ReCF re) (hbeg : ReNoBeg re ∨ LineNl s) :
    reMatcher re s off = wholeMatcher re s off := by
  unfold reMatcher wholeMatcher
  by_cases h0 : off = 0
  · subst h0
    rw [rstrFindFrom_zero]
    simp only [List.drop_zero, bne_self_eq_false, Bool.false_eq_true, if_false, Nat.sub_zero]
    cases rstrFind re s 1 0 search.Ex_ND search.Ex_NG <;> rfl
  · have hne : (off != 0) = true := by simpa using h0
    rw [hne, if_pos rfl]
    have hb : ReBegOk re s off := by
      rcases hbeg with hbeg | hbeg
      · exact Or.inl hbeg
      · by_cases hlt : off < s.length
        · exact Or.inr (Or.inl (hbeg (off - 1) (by omega)))
        · exact Or.inr (Or.inr (by omega))
    rw [rstrFind_shift re s off 1 search.Ex_ND search.Ex_NG hoff (by omega) hcf hb]
    cases rstrFind re (s.drop off) 1 RE_NOTBOL search.Ex_ND search.Ex_NG with
    | none => rfl
    | some x =>
      obtain ⟨res, offs, c⟩ := x
      simp only [Option.map_some, shiftF]
      split
      · rfl
      · rw [shift_getD_toNat, shift_getD_toNat]

/-! ### the references of C13 do not tell the two matchers apart -/

theorem fwdStart_le {r0 o0 j : Int} {s : Bytes} {b : Nat} (h : fwdStart r0 o0 j s = some b) : b ≤ s.length := by
  unfold fwdStart at h
  split at h
  · exact ucChr_le h
  · injection h with h; omega

theorem fwdLine_congr {m m' : Matcher} {s : Bytes} (h : ∀ off, off ≤ s.length → m s off = m' s off)
    (r0 o0 j : Int) : fwdLine m r0 o0 j s = fwdLine m' r0 o0 j s := by
  unfold fwdLine
  cases hb : fwdStart r0 o0 j s with
  | none => rfl
  | some b => simp only []; rw [h b (fwdStart_le hb)]

theorem chain_congr {m m' : Matcher} {s : Bytes} (h : ∀ off, off ≤ s.length → m s off = m' s off)
    {stop : Nat → Bool} {off : Nat} {l : List (Nat × Nat)} (hoff : off ≤ s.length)
    (hc : Chain m s stop off l) : Chain m' s stop off l := by
  induction hc with
  | nothing hm => exact Chain.nothing (by rw [← h _ hoff]; exact hm)
  | stopped hm hs => exact Chain.stopped (by rw [← h _ hoff]; exact hm) hs
  | final hm hs he => exact Chain.final (by rw [← h _ hoff]; exact hm) hs he
  | more hm hs hl hn _ ih => exact Chain.more (by rw [← h _ hoff]; exact hm) hs hl hn (ih (by omega))

theorem chain_congr_iff {m m' : Matcher} {s : Bytes} (h : ∀ off, off ≤ s.length → m s off = m' s off)
    {stop : Nat → Bool} {off : Nat} {l : List (Nat × Nat)} (hoff : off ≤ s.length) :
    Chain m s stop off l ↔ Chain m' s stop off l :=
  ⟨chain_congr h hoff, chain_congr (fun o ho => (h o ho).symm) hoff⟩

end Neatvi.Lemmas.C13b
