import NeatviVerif.Lemmas.Hist
/-!
# The history invariant of the line buffer and its simulation by the zipper of texts

The history is a list of *groups* (maximal runs of entries with one sequence number): `pg` are the
groups below `hist_u` (nearest first), `fg` those above it (nearest first).  The ghost texts are
`applyFwd T0 (prefix of hist)`; the zipper holds the ghost texts at the group boundaries.
-/
namespace Neatvi.Lemmas.Hist
open Neatvi Neatvi.Lbuf Neatvi.Spec Neatvi.Props.C01

/-- a run of history entries with one sequence number -/
abbrev Group := Nat × List Entry

def ents (gs : List Group) : List Entry := (gs.map Prod.snd).flatten

@[simp] theorem ents_nil : ents [] = [] := rfl
@[simp] theorem ents_cons (g : Group) (gs : List Group) : ents (g :: gs) = g.2 ++ ents gs := rfl
@[simp] theorem ents_append (a b : List Group) : ents (a ++ b) = ents a ++ ents b := by
  simp [ents]

theorem mem_ents (e : Entry) (gs : List Group) : e ∈ ents gs ↔ ∃ g ∈ gs, e ∈ g.2 := by
  induction gs with
  | nil => simp
  | cons g gs ih => simp [ih]

/-- texts at the group boundaries below the cursor, nearest first -/
def pastTexts (T0 : Text) : List Group → List Text
  | [] => []
  | _ :: ps => applyFwd T0 (ents ps.reverse) :: pastTexts T0 ps

/-- texts at the group boundaries above the cursor, nearest first -/
def futTexts (t : Text) : List Group → List Text
  | [] => []
  | g :: fs => applyFwd t g.2 :: futTexts (applyFwd t g.2) fs

theorem applyFwd_wf (t : Text) (es : List Entry) (h : ∀ l ∈ t, WfLine l) : ∀ l ∈ applyFwd t es, WfLine l := by
  induction es generalizing t with
  | nil => exact h
  | cons e r ih => exact ih (fwd e t) (splice_wf t _ _ _ h (optLines_wf e.ins))

structure Inv (T0 : Text) (lb : Lb) (z : Zipper) (pg fg : List Group) : Prop where
  hist : lb.hist = ents pg.reverse ++ ents fg
  histU : lb.histU = (ents pg.reverse).length
  gok : ∀ g ∈ pg ++ fg, g.2 ≠ [] ∧ ∀ e ∈ g.2, e.seq = g.1
  sorted : (pg.reverse ++ fg).Pairwise (fun a b => a.1 < b.1)
  le : ∀ g ∈ pg ++ fg, g.1 ≤ lb.useq
  closed : z.open_ = false → ∀ g ∈ pg ++ fg, g.1 < lb.useq
  opened : z.open_ = true → fg = [] ∧ ∃ g ps, pg = g :: ps ∧ g.1 = lb.useq
  chain : Chain T0 lb.hist
  lines : lb.lines = applyFwd T0 (ents pg.reverse)
  wf0 : ∀ l ∈ T0, WfLine l
  present : z.present = lb.lines
  past : z.past = pastTexts T0 pg
  future : z.future = futTexts lb.lines fg

theorem Inv.wf {T0 lb z pg fg} (h : Inv T0 lb z pg fg) : ∀ l ∈ lb.lines, WfLine l := by
  rw [h.lines]; exact applyFwd_wf _ _ h.wf0

theorem inv_make : Inv [] Lbuf.make {} [] [] where
  hist := rfl
  histU := rfl
  gok := by intro g hg; simp at hg
  sorted := by simp
  le := by intro g hg; simp at hg
  closed := by intro _ g hg; simp at hg
  opened := by intro h; simp at h
  chain := trivial
  lines := rfl
  wf0 := by intro l hl; simp at hl
  present := rfl
  past := rfl
  future := rfl

/-- the command boundary: bump the counter, close the zipper's command -/
theorem inv_bump {T0 lb z pg fg} (h : Inv T0 lb z pg fg) : Inv T0 (modified lb).2 z.commit pg fg where
  hist := h.hist
  histU := h.histU
  gok := h.gok
  sorted := h.sorted
  le := fun g hg => Nat.le_succ_of_le (h.le g hg)
  closed := fun _ g hg => Nat.lt_succ_of_le (h.le g hg)
  opened := by intro ho; simp [Zipper.commit] at ho
  chain := h.chain
  lines := h.lines
  wf0 := h.wf0
  present := h.present
  past := h.past
  future := h.future

/-- a logging splice -/
theorem inv_edit_log {T0 lb z pg fg} (h : Inv T0 lb z pg fg) (buf : Option Bytes) (b e : Nat) (hbe : b ≤ e)
    (hlog : ¬ (min b lb.lines.length = min e lb.lines.length ∧ buf = none))
    (f : Text → Text)
    (hf : f lb.lines = splice lb.lines (min b lb.lines.length)
      (min e lb.lines.length - min b lb.lines.length) (optLines buf)) :
    ∃ lb' pg', edit lb buf b e = some lb' ∧ lb'.useq = lb.useq ∧ Inv T0 lb' (z.edit f) pg' [] := by
  obtain ⟨lb', en, e1, e2, e3, e4, e5, e6, e7, e8⟩ :=
    edit_log lb buf b e (ents pg.reverse) (ents fg) h.hist h.histU h.wf hbe hlog
  have hchainA : Chain T0 (ents pg.reverse) := by
    have := h.chain; rw [h.hist, chain_append] at this; exact this.1
  have hchain' : Chain T0 (ents pg.reverse ++ [en]) := by
    rw [chain_append]; refine ⟨hchainA, ?_⟩
    rw [chain_single, ← h.lines]; exact e5
  have hlines' : lb'.lines = applyFwd T0 (ents pg.reverse ++ [en]) := by
    rw [applyFwd_append, applyFwd_single, ← h.lines]; exact e6
  have hpres : f z.present = lb'.lines := by rw [h.present, hf, e6, e7]
  cases ho : z.open_ with
  | false =>
    refine ⟨lb', (lb.useq, [en]) :: pg, e1, e8, ?_⟩
    have hz : z.edit f = { past := z.present :: z.past, present := f z.present, future := [], open_ := true } := by
      simp [Zipper.edit, ho]
    rw [hz]
    refine
      { hist := by rw [e2]; simp
        histU := by rw [e3]; simp
        gok := ?_, sorted := ?_, le := ?_
        closed := by intro hc; simp at hc
        opened := fun _ => ⟨rfl, _, _, rfl, e8.symm⟩
        chain := by rw [e2]; exact hchain'
        lines := by rw [hlines']; simp
        wf0 := h.wf0
        present := hpres
        past := by show z.present :: z.past = _; rw [h.present, h.past, h.lines]; rfl
        future := rfl }
    · intro g hg
      simp only [List.append_nil, List.mem_cons] at hg
      rcases hg with rfl | hg
      · exact ⟨by simp, by intro x hx; simp at hx; rw [hx]; exact e4⟩
      · exact h.gok g (by simp [hg])
    · simp only [List.reverse_cons, List.append_nil]
      rw [List.pairwise_append]
      refine ⟨?_, by simp, ?_⟩
      · have := h.sorted; rw [List.pairwise_append] at this; exact this.1
      · intro a ha c hc
        simp only [List.mem_singleton] at hc
        subst hc
        exact h.closed ho a (by simp at ha; simp [ha])
    · intro g hg
      simp only [List.append_nil, List.mem_cons] at hg
      rw [e8]
      rcases hg with rfl | hg
      · exact Nat.le_refl _
      · exact h.le g (by simp [hg])
  | true =>
    obtain ⟨hfg, g, ps, hpg, hg1⟩ := h.opened ho
    subst hfg hpg
    refine ⟨lb', (g.1, g.2 ++ [en]) :: ps, e1, e8, ?_⟩
    have hz : z.edit f = { z with present := f z.present } := by
      simp [Zipper.edit, ho]
    rw [hz]
    have hgok := h.gok g (by simp)
    refine
      { hist := by rw [e2]; simp
        histU := by rw [e3]; simp; omega
        gok := ?_, sorted := ?_, le := ?_
        closed := by intro hc; simp [ho] at hc
        opened := fun _ => ⟨rfl, _, _, rfl, by rw [e8]; exact hg1⟩
        chain := by rw [e2]; exact hchain'
        lines := by rw [hlines']; simp
        wf0 := h.wf0
        present := hpres
        past := by show z.past = _; rw [h.past]; rfl
        future := by show z.future = _; rw [h.future]; rfl }
    · intro g' hg'
      simp only [List.append_nil, List.mem_cons] at hg'
      rcases hg' with rfl | hg'
      · refine ⟨by simp, ?_⟩
        intro x hx
        simp only [List.mem_append, List.mem_singleton] at hx
        rcases hx with hx | hx
        · exact hgok.2 x hx
        · rw [hx, e4, hg1]
      · exact h.gok g' (by simp [hg'])
    · have hs := h.sorted
      simp only [List.reverse_cons, List.append_nil] at hs ⊢
      rw [List.pairwise_append] at hs ⊢
      refine ⟨hs.1, by simp, ?_⟩
      intro a ha c hc
      simp only [List.mem_singleton] at hc
      subst hc
      exact hs.2.2 a ha g (by simp)
    · intro g' hg'
      simp only [List.append_nil, List.mem_cons] at hg'
      rw [e8]
      rcases hg' with rfl | hg'
      · exact h.le g (by simp)
      · exact h.le g' (by simp [hg'])

/-- `lbuf_undo` at a command boundary -/
theorem inv_undo {T0 lb z pg fg} (h : Inv T0 lb z pg fg) (ho : z.open_ = false) :
    (pg = [] ∧ undo lb = some (1, lb) ∧ z.undo = none) ∨
    (∃ g ps lb' z', pg = g :: ps ∧ undo lb = some (0, lb') ∧ z.undo = some z' ∧ z'.open_ = false ∧
      lb'.useq = lb.useq ∧ Inv T0 lb' z' ps (g :: fg)) := by
  cases pg with
  | nil =>
    left
    have hU : lb.histU = 0 := by rw [h.histU]; rfl
    have hp : z.past = [] := by rw [h.past]; rfl
    refine ⟨rfl, ?_, ?_⟩
    · simp [undo, hU]
    · simp [Zipper.undo, hp]
  | cons g ps =>
    right
    have hgok := h.gok g (by simp)
    have hhist : lb.hist = ents ps.reverse ++ g.2 ++ ents fg := by rw [h.hist]; simp
    have hhU : lb.histU = (ents ps.reverse ++ g.2).length := by rw [h.histU]; simp
    have hlines : lb.lines = applyFwd T0 (ents ps.reverse ++ g.2) := by rw [h.lines]; simp
    have hchain : Chain T0 (ents ps.reverse ++ g.2) := by
      have := h.chain; rw [hhist, chain_append] at this; exact this.1
    have hsorted : (ps.reverse ++ g :: fg).Pairwise (fun a b => a.1 < b.1) := by
      have := h.sorted; simpa using this
    have hP : ∀ p ∈ ents ps.reverse, p.seq ≠ g.1 := by
      intro p hp
      obtain ⟨q, hq, hpq⟩ := (mem_ents p _).1 hp
      have h1 : p.seq = q.1 := (h.gok q (by simp at hq; simp [hq])).2 p hpq
      rw [List.pairwise_append] at hsorted
      have := hsorted.2.2 q hq g (by simp)
      omega
    -- the entry just below the cursor
    obtain ⟨G', e, hG⟩ : ∃ G' e, g.2 = G' ++ [e] := by
      rcases List.eq_nil_or_concat g.2 with h0 | ⟨l', b, hb⟩
      · exact absurd h0 hgok.1
      · exact ⟨l', b, by rw [hb, List.concat_eq_append]⟩
    have hes : e.seq = g.1 := hgok.2 e (by rw [hG]; simp)
    have hU : lb.histU = (ents ps.reverse ++ G').length + 1 := by rw [hhU, hG]; simp; omega
    have hget : lb.hist[(ents ps.reverse ++ G').length]? = some e := by
      rw [hhist, hG, ← List.append_assoc, List.append_assoc (ents ps.reverse ++ G')]
      rw [List.getElem?_append_right (Nat.le_refl _)]
      simp
    obtain ⟨lb', g1, g2, g3, g4, g5⟩ := undoGo_run T0 g.1 g.2.reverse ((ents ps.reverse ++ G').length + 1)
      (ents ps.reverse) (ents fg) lb (by rw [List.reverse_reverse]; exact hhist)
      (by rw [List.reverse_reverse]; exact hhU) (by rw [List.reverse_reverse]; exact hchain)
      (by rw [List.reverse_reverse]; exact hlines) (fun x hx => hgok.2 x (by simpa using hx)) hP
      (by rw [hG]; simp)
    have hzp : z.past = applyFwd T0 (ents ps.reverse) :: pastTexts T0 ps := by rw [h.past]; rfl
    refine ⟨g, ps, lb', (⟨pastTexts T0 ps, applyFwd T0 (ents ps.reverse), z.present :: z.future, false⟩ : Zipper),
      rfl, ?_, ?_, rfl, g5, ?_⟩
    · simp only [undo, hU, hget, hes, g1]
      rfl
    · simp [Zipper.undo, hzp]
    · have hback : applyFwd lb'.lines g.2 = lb.lines := by rw [g2, ← applyFwd_append, hlines]
      exact
        { hist := by rw [g3, hhist]; simp
          histU := g4
          gok := fun x hx => h.gok x (by
            simp only [List.mem_append, List.mem_cons] at hx ⊢
            rcases hx with hx | hx | hx
            · exact Or.inl (Or.inr hx)
            · exact Or.inl (Or.inl hx)
            · exact Or.inr hx)
          sorted := hsorted
          le := fun x hx => by
            rw [g5]
            exact h.le x (by
              simp only [List.mem_append, List.mem_cons] at hx ⊢
              rcases hx with hx | hx | hx
              · exact Or.inl (Or.inr hx)
              · exact Or.inl (Or.inl hx)
              · exact Or.inr hx)
          closed := fun _ x hx => by
            rw [g5]
            exact h.closed ho x (by
              simp only [List.mem_append, List.mem_cons] at hx ⊢
              rcases hx with hx | hx | hx
              · exact Or.inl (Or.inr hx)
              · exact Or.inl (Or.inl hx)
              · exact Or.inr hx)
          opened := by intro hc; simp at hc
          chain := by rw [g3]; exact h.chain
          lines := g2
          wf0 := h.wf0
          present := g2.symm
          past := rfl
          future := by
            show z.present :: z.future = futTexts lb'.lines (g :: fg)
            rw [h.present, h.future]
            simp only [futTexts, hback] }

/-- `lbuf_redo` at a command boundary -/
theorem inv_redo {T0 lb z pg fg} (h : Inv T0 lb z pg fg) (ho : z.open_ = false) :
    (fg = [] ∧ redo lb = some (1, lb) ∧ z.redo = none) ∨
    (∃ g fs lb' z', fg = g :: fs ∧ redo lb = some (0, lb') ∧ z.redo = some z' ∧ z'.open_ = false ∧
      lb'.useq = lb.useq ∧ Inv T0 lb' z' (g :: pg) fs) := by
  cases fg with
  | nil =>
    left
    have hU : lb.histU = lb.hist.length := by rw [h.histU, h.hist]; simp
    have hp : z.future = [] := by rw [h.future]; rfl
    refine ⟨rfl, ?_, ?_⟩
    · simp [redo, hU]
    · simp [Zipper.redo, hp]
  | cons g fs =>
    right
    have hgok := h.gok g (by simp)
    have hhist : lb.hist = ents pg.reverse ++ g.2 ++ ents fs := by rw [h.hist]; simp
    have hchain : Chain (applyFwd T0 (ents pg.reverse)) g.2 := by
      have := h.chain
      rw [hhist, List.append_assoc, chain_append, chain_append] at this
      exact this.2.1
    have hF : ∀ p ∈ ents fs, p.seq ≠ g.1 := by
      intro p hp
      obtain ⟨q, hq, hpq⟩ := (mem_ents p _).1 hp
      have h1 : p.seq = q.1 := (h.gok q (by simp [hq])).2 p hpq
      have hs := h.sorted
      rw [List.pairwise_append, List.pairwise_cons] at hs
      have := hs.2.1.1 q hq
      omega
    obtain ⟨e, G', hG⟩ : ∃ e G', g.2 = e :: G' := by
      cases hg2 : g.2 with
      | nil => exact absurd hg2 hgok.1
      | cons e G' => exact ⟨e, G', rfl⟩
    have hes : e.seq = g.1 := hgok.2 e (by rw [hG]; simp)
    have hne : lb.histU ≠ lb.hist.length := by rw [h.histU, hhist, hG]; simp
    have hget : lb.hist[lb.histU]? = some e := by
      rw [hhist, h.histU, hG, List.append_assoc, List.getElem?_append_right (Nat.le_refl _)]
      simp
    obtain ⟨lb', g1, g2, g3, g4, g5⟩ := redoGo_run T0 g.1 g.2 (lb.hist.length - lb.histU)
      (ents pg.reverse) (ents fs) lb hhist h.histU hchain h.lines hgok.2 hF
      (by rw [h.histU, hhist]; simp)
    have hzf : z.future = applyFwd lb.lines g.2 :: futTexts (applyFwd lb.lines g.2) fs := by
      rw [h.future]; rfl
    have hnew : applyFwd lb.lines g.2 = lb'.lines := by rw [g2, applyFwd_append, ← h.lines]
    refine ⟨g, fs, lb', (⟨z.present :: z.past, applyFwd lb.lines g.2, futTexts (applyFwd lb.lines g.2) fs, false⟩ : Zipper),
      rfl, ?_, ?_, rfl, g5, ?_⟩
    · simp only [redo, hne, if_false, hget, hes, g1]
      rfl
    · simp [Zipper.redo, hzf]
    · exact
        { hist := by rw [g3, hhist]; simp
          histU := by rw [g4]; simp
          gok := fun x hx => h.gok x (by
            simp only [List.mem_append, List.mem_cons] at hx ⊢
            rcases hx with (hx | hx) | hx
            · exact Or.inr (Or.inl hx)
            · exact Or.inl hx
            · exact Or.inr (Or.inr hx))
          sorted := by have := h.sorted; simpa using this
          le := fun x hx => by
            rw [g5]
            exact h.le x (by
              simp only [List.mem_append, List.mem_cons] at hx ⊢
              rcases hx with (hx | hx) | hx
              · exact Or.inr (Or.inl hx)
              · exact Or.inl hx
              · exact Or.inr (Or.inr hx))
          closed := fun _ x hx => by
            rw [g5]
            exact h.closed ho x (by
              simp only [List.mem_append, List.mem_cons] at hx ⊢
              rcases hx with (hx | hx) | hx
              · exact Or.inr (Or.inl hx)
              · exact Or.inl hx
              · exact Or.inr (Or.inr hx))
          opened := by intro hc; simp at hc
          chain := by rw [g3]; exact h.chain
          lines := by rw [g2]; simp
          wf0 := h.wf0
          present := hnew
          past := by
            show z.present :: z.past = pastTexts T0 (g :: pg)
            rw [h.present, h.past, h.lines]; rfl
          future := by
            show futTexts (applyFwd lb.lines g.2) fs = futTexts lb'.lines fs
            rw [hnew] }

end Neatvi.Lemmas.Hist
