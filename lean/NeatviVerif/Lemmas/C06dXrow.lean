import NeatviVerif.Lemmas.C06dFrame
import NeatviVerif.Lemmas.C05bRegion
/-!
# C06d: the current row never becomes the model's failure marker

`-1 ≤ xrow` is kept by address evaluation and by every covered line command, so the hypothesis
`ed.xrow ≠ -1000000` of `exRegion_ref` holds all along a script that starts with `-1 ≤ xrow`.
-/
set_option linter.unusedSimpArgs false
namespace Neatvi.Lemmas.C06d
open Neatvi Neatvi.Lbuf Neatvi.Ex Neatvi.Rset Neatvi.Lemmas.C06 Neatvi.Lemmas.C06b Neatvi.Lemmas.C05b

theorem go_xrow : ∀ (f : Nat) (ed : Ed) (loc : Bytes) (naddr : Nat) (b e : Int) (r : Int × Int) (ed' : Ed),
    -1 ≤ ed.xrow → exRegion.go f ed loc naddr b e = some (r, ed') → -1 ≤ ed'.xrow := by
  intro f
  induction f with
  | zero => intro ed loc naddr b e r ed' h0 h; rw [exRegion.go] at h; cases h; exact h0
  | succ f ih =>
    intro ed loc naddr b e r ed' h0 h
    rw [exRegion.go] at h
    simp only [] at h
    split at h
    · cases h; exact h0
    · split at h
      · cases h
      · rename_i n rest ed1 hl
        obtain ⟨k, d, rfl⟩ := exLineno_kwOnly _ _ _ _ hl
        split at h
        · cases h; exact h0
        · rename_i hn
          split at h
          · cases h; exact h0
          · refine ih _ _ _ _ _ _ _ ?_ h
            split
            · show -1 ≤ n + 1 - 1; omega
            · exact h0

theorem exRegion_xrow (ed ed' : Ed) (loc : Bytes) (r : Nat × Int × Int) (h0 : -1 ≤ ed.xrow)
    (h : exRegion ed loc = some (r, ed')) : -1 ≤ ed'.xrow := by
  unfold exRegion at h
  simp only [] at h
  split at h
  · cases h; exact h0
  · split at h
    · cases h; exact h0
    · split at h
      · cases h
      · rename_i hgo
        have := go_xrow _ _ _ _ _ _ _ _ h0 hgo
        repeat' split at h
        all_goals (cases h; exact this)

theorem edit_xrow {ed ed' : Ed} {s : Option Bytes} {b e : Int} (h : ed.edit s b e = some ed') : ed'.xrow = ed.xrow := by
  rw [edit_fields _ _ _ _ _ h]

theorem setLb_xrow (ed : Ed) (lb : Lb) : (ed.setLb lb).xrow = ed.xrow := by
  rw [setLb_fields]

theorem xrow_insert (f : Nat) (ed ed' : Ed) (loc cmd arg : Bytes) (txt : Option Bytes) (rc : Int) (h0 : -1 ≤ ed.xrow)
    (h : runCmd (f + 1) ed "ec_insert" loc cmd arg txt = some (rc, ed')) : -1 ≤ ed'.xrow := by
  obtain ⟨s1, s2, _⟩ := Props.C06.ec_insert_spec f ed ed' loc cmd arg txt rc h
  rcases s1 with rfl | rfl
  · obtain ⟨r, b, e, ed1, _, _, k1, k2, k3, k4⟩ := s2 rfl
    obtain ⟨_, _, k5⟩ := k4 _ _ rfl rfl
    have hl := len_nonneg ed'
    rw [k5]
    split <;> omega
  · rw [runCmd] at h
    simp only [String.reduceBEq, ↓reduceIte] at h
    split at h
    · cases h
    · rename_i hreg
      have hx := exRegion_xrow _ _ _ _ h0 hreg
      split at h
      · cases h; exact hx
      · split at h
        · cases h
        · simp at h

theorem xrow_delete_yank (f : Nat) (ed ed' : Ed) (hd : String) (hh : hd = "ec_delete" ∨ hd = "ec_yank")
    (loc cmd arg : Bytes) (txt : Option Bytes) (rc : Int) (h0 : -1 ≤ ed.xrow)
    (h : runCmd (f + 1) ed hd loc cmd arg txt = some (rc, ed')) : -1 ≤ ed'.xrow := by
  rcases hh with rfl | rfl
  · obtain ⟨s1, s2, _⟩ := Props.C06.ec_delete_spec f ed ed' loc cmd arg txt rc h
    rcases s1 with rfl | rfl
    · obtain ⟨b, e, ed1, _, k1, _, _, _, k5, _⟩ := s2 rfl
      omega
    · rw [runCmd] at h
      simp only [String.reduceBEq, Bool.false_eq_true, ↓reduceIte, Bool.or_false, Bool.or_self] at h
      split at h
      · cases h
      · rename_i hreg
        have hx := exRegion_xrow _ _ _ _ h0 hreg
        split at h
        · cases h; exact hx
        · split at h
          · cases h
          · simp at h
  · rw [runCmd] at h
    simp only [String.reduceBEq, Bool.false_eq_true, ↓reduceIte, Bool.or_true] at h
    split at h
    · cases h
    · rename_i hreg
      have hx := exRegion_xrow _ _ _ _ h0 hreg
      split at h
      · cases h; exact hx
      · cases h; exact hx

theorem xrow_put (f : Nat) (ed ed' : Ed) (loc cmd arg : Bytes) (txt : Option Bytes) (rc : Int) (h0 : -1 ≤ ed.xrow)
    (h : runCmd (f + 1) ed "ec_put" loc cmd arg txt = some (rc, ed')) : -1 ≤ ed'.xrow := by
  obtain ⟨s1, s2, _⟩ := Props.C06.ec_put_spec f ed ed' loc cmd arg txt rc h
  rcases s1 with rfl | rfl
  · obtain ⟨buf, r, b, e, ed1, _, _, _, k1, _, _, k5⟩ := s2 rfl
    have hl := len_nonneg ed'
    rw [k5]
    omega
  · rw [runCmd] at h
    simp only [String.reduceBEq, Bool.false_eq_true, ↓reduceIte, Bool.or_false, Bool.or_self] at h
    split at h
    · cases h; exact h0
    · split at h
      · cases h
      · rename_i hreg
        have hx := exRegion_xrow _ _ _ _ h0 hreg
        split at h
        · cases h; exact hx
        · split at h
          · cases h
          · simp at h

theorem xrow_print (f : Nat) (ed ed' : Ed) (loc cmd arg : Bytes) (txt : Option Bytes) (rc : Int) (h0 : -1 ≤ ed.xrow)
    (h : runCmd (f + 1) ed "ec_print" loc cmd arg txt = some (rc, ed')) : -1 ≤ ed'.xrow := by
  obtain ⟨s1, _, s3, _⟩ := Props.C06.ec_print_spec f ed ed' loc cmd arg txt rc h
  rcases s1 with rfl | rfl
  · obtain ⟨b, e, ed1, _, k1, _, _, _, k5⟩ := s3 rfl
    omega
  · rw [runCmd] at h
    simp only [String.reduceBEq, Bool.false_eq_true, ↓reduceIte, Bool.or_false, Bool.or_self] at h
    split at h
    · cases h; exact h0
    · split at h
      · cases h
      · rename_i hreg
        have hx := exRegion_xrow _ _ _ _ h0 hreg
        split at h
        · cases h; exact hx
        · simp at h

theorem xrow_lnum_mark_rs (f : Nat) (ed ed' : Ed) (hd : String) (hh : hd = "ec_lnum" ∨ hd = "ec_mark" ∨ hd = "ec_rs")
    (loc cmd arg : Bytes) (txt : Option Bytes) (rc : Int) (h0 : -1 ≤ ed.xrow)
    (h : runCmd (f + 1) ed hd loc cmd arg txt = some (rc, ed')) : -1 ≤ ed'.xrow := by
  rcases hh with rfl | rfl | rfl
  · rw [runCmd] at h
    simp only [String.reduceBEq, Bool.false_eq_true, ↓reduceIte, Bool.or_false, Bool.or_self] at h
    split at h
    · cases h
    · rename_i hreg
      have hx := exRegion_xrow _ _ _ _ h0 hreg
      split at h
      · cases h; exact hx
      · cases h; exact hx
  · rw [runCmd] at h
    simp only [String.reduceBEq, Bool.false_eq_true, ↓reduceIte, Bool.or_false, Bool.or_self] at h
    split at h
    · cases h
    · rename_i hreg
      have hx := exRegion_xrow _ _ _ _ h0 hreg
      split at h
      · cases h; exact hx
      · split at h
        · cases h
        · cases h; rw [setLb_xrow]; exact hx
  · rw [runCmd] at h
    simp only [String.reduceBEq, Bool.false_eq_true, ↓reduceIte, Bool.or_false, Bool.or_self] at h
    cases h; exact h0

theorem pathExpand_xrow {ed ed' : Ed} {src : Bytes} {sp : Bool} {r : Option Bytes}
    (h : pathExpand ed src sp = some (r, ed')) : ed'.xrow = ed.xrow := by
  obtain ⟨h1, h2⟩ := pathExpand_cases h
  cases r with
  | none => rw [h2 rfl]; rfl
  | some p => rw [h1 rfl]

theorem xrow_read (f : Nat) (ed ed' : Ed) (loc cmd arg : Bytes) (txt : Option Bytes) (rc : Int) (h0 : -1 ≤ ed.xrow)
    (h : runCmd (f + 1) ed "ec_read" loc cmd arg txt = some (rc, ed')) : -1 ≤ ed'.xrow := by
  obtain ⟨s1, s2, _⟩ := Props.C06b.ec_read_spec f ed ed' loc cmd arg txt rc h
  rcases s1 with rfl | rfl
  · obtain ⟨path, b, e, ed1, _, hreg, k1, _, k3, k4⟩ := s2 rfl
    by_cases hb : path.headD 0 = 33
    · obtain ⟨_, m1, m2⟩ := k4 hb
      cases hp : ed.pipe (path.drop 1) [] with
      | none =>
        rw [m1 hp]
        exact exRegion_xrow ed ed1 _ _ h0 hreg
      | some o =>
        obtain ⟨_, m3, _⟩ := m2 o hp
        rw [m3]; omega
    · obtain ⟨fl, _, _, m3, _⟩ := k3 hb
      rw [m3]; omega
  · rw [runCmd] at h
    simp only [String.reduceBEq, Bool.false_eq_true, ↓reduceIte, Bool.or_false, Bool.or_self] at h
    split at h
    · cases h
    · rename_i path ed0 hpr
      have hx0 : -1 ≤ ed0.xrow := by
        split at hpr
        · rw [pathExpand_xrow hpr]; exact h0
        · cases hpr; exact h0
      split at h
      · cases h
      · rename_i hreg
        have hx := exRegion_xrow _ _ _ _ hx0 hreg
        split at h
        · cases h; exact hx
        · split at h
          · split at h
            · cases h; exact hx
            · split at h
              · simp at h
              · split at h
                · cases h
                · simp at h
          · split at h
            · cases h; exact hx
            · split at h
              · cases h
              · simp at h

theorem xrow_exec (f : Nat) (ed ed' : Ed) (loc cmd arg : Bytes) (txt : Option Bytes) (rc : Int) (hloc : loc ≠ [])
    (h0 : -1 ≤ ed.xrow) (h : runCmd (f + 1) ed "ec_exec" loc cmd arg txt = some (rc, ed')) : -1 ≤ ed'.xrow := by
  obtain ⟨s1, s2, s3, _⟩ := Props.C06c.ec_exec_spec f ed ed' loc cmd arg txt rc hloc h
  obtain ⟨g, edg, _, hgf, k1, k2⟩ := s2
  have hxg : -1 ≤ edg.xrow := by rw [hgf.xrow]; exact h0
  rcases s1 with rfl | rfl
  · obtain ⟨edg', ecmd, b, e, ed1, _, hgf', _, hreg, _, _, _, k⟩ := s3 rfl
    have hx1 : -1 ≤ ed1.xrow := exRegion_xrow _ _ _ _ (by rw [hgf'.xrow]; exact h0) hreg
    rcases k with ⟨_, rfl⟩ | ⟨out, _, _, _, _, k5⟩
    · exact hx1
    · rw [k5]; exact hx1
  · cases g with
    | true => rw [(k1 rfl).2]; exact hxg
    | false =>
      obtain ⟨p, edp, hpe, m1, m2⟩ := k2 rfl
      cases p with
      | none =>
        obtain ⟨_, m3, m4⟩ := m1 rfl
        rw [m3, m4]; exact hxg
      | some ecmd =>
        obtain ⟨_, r, b, e, ed1, hreg, m3, m4⟩ := m2 ecmd rfl
        have hx1 := exRegion_xrow _ _ _ _ hxg hreg
        by_cases hr : r = 0
        · have := m4 hr; omega
        · rw [(m3 hr).2]; exact hx1

open Neatvi.Props.C06b Neatvi.Props.C06c in
/-- **`-1 ≤ xrow` is an invariant of the covered line commands** (`a i c d y pu k = p r rs`, and the filter with an
    address) -/
theorem runCmd_xrow (f : Nat) (ed ed' : Ed) (c : LineCmd) (rc : Int) (hc : CoveredX c) (h0 : -1 ≤ ed.xrow)
    (h : runCmd (f + 1) ed c.hd c.loc c.cmd c.arg c.txt = some (rc, ed')) : -1 ≤ ed'.xrow := by
  obtain ⟨hd, loc, cmd, arg, txt⟩ := c
  simp only [] at h
  rcases hc with hc | ⟨hc, hloc⟩
  · simp only [covered, List.mem_cons, List.not_mem_nil, or_false] at hc
    rcases hc with rfl | rfl | rfl | rfl | rfl | rfl | rfl | rfl | rfl
    · exact xrow_insert f ed ed' loc cmd arg txt rc h0 h
    · exact xrow_delete_yank f ed ed' _ (Or.inl rfl) loc cmd arg txt rc h0 h
    · exact xrow_delete_yank f ed ed' _ (Or.inr rfl) loc cmd arg txt rc h0 h
    · exact xrow_put f ed ed' loc cmd arg txt rc h0 h
    · exact xrow_print f ed ed' loc cmd arg txt rc h0 h
    · exact xrow_lnum_mark_rs f ed ed' _ (Or.inl rfl) loc cmd arg txt rc h0 h
    · exact xrow_lnum_mark_rs f ed ed' _ (Or.inr (Or.inl rfl)) loc cmd arg txt rc h0 h
    · exact xrow_lnum_mark_rs f ed ed' _ (Or.inr (Or.inr rfl)) loc cmd arg txt rc h0 h
    · exact xrow_read f ed ed' loc cmd arg txt rc h0 h
  · simp only [] at hc hloc
    subst hc
    exact xrow_exec f ed ed' loc cmd arg txt rc hloc h0 h

end Neatvi.Lemmas.C06d
