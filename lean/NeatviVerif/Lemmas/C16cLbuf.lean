import NeatviVerif.Lemmas.C16cUtf8
/-!
# C16c, part 2: `lbuf.c` — every primitive that changes a line buffer keeps it valid UTF-8
-/
set_option linter.unusedSimpArgs false
set_option linter.unusedVariables false
namespace Neatvi.Lemmas.C16c
open Neatvi Neatvi.Uc Neatvi.Spec Neatvi.Lbuf Neatvi.LbufIo Neatvi.Props.C11b Neatvi.Props.C16b

/-- an optional text (NULL or a string) is valid -/
def OptValid (o : Option Bytes) : Prop := ∀ x, o = some x → IsU8 x

theorem optValid_none : OptValid none := by intro x h; cases h
theorem optValid_some {x : Bytes} : OptValid (some x) ↔ IsU8 x :=
  ⟨fun h => h x rfl, fun h y hy => by injection hy with hy; subst hy; exact h⟩

instance (o : Option Bytes) : Decidable (OptValid o) :=
  match o with
  | none => isTrue optValid_none
  | some x => decidable_of_iff _ optValid_some.symm

/-- **`BufValid`: every line of the buffer is valid UTF-8** -/
def BufValid (lb : Lb) : Prop := ∀ l ∈ lb.lines, IsU8 l

/-- every line of the buffer ends with its newline -/
def LinesNl (lb : Lb) : Prop := ∀ l ∈ lb.lines, EndsNl l

/-- every text the undo history holds (inserted or deleted) is valid UTF-8 -/
def HistValid (lb : Lb) : Prop := ∀ e ∈ lb.hist, OptValid e.ins ∧ OptValid e.del

/-- the invariant of a line buffer: lines and undo history are valid UTF-8, every line ends with its newline -/
structure LbOk (lb : Lb) : Prop where
  lines : BufValid lb
  nl : LinesNl lb
  hist : HistValid lb

instance (lb : Lb) : Decidable (BufValid lb) := by unfold BufValid; exact inferInstance
instance (s : Bytes) : Decidable (EndsNl s) :=
  decidable_of_iff (s.getLast? = some 10) (by
    constructor
    · intro h
      rcases List.eq_nil_or_concat s with rfl | ⟨t, x, rfl⟩
      · simp at h
      · simp at h; subst h; exact ⟨t, by simp⟩
    · rintro ⟨t, rfl⟩; simp)
instance (lb : Lb) : Decidable (LinesNl lb) := by unfold LinesNl; exact inferInstance
instance (lb : Lb) : Decidable (HistValid lb) := by unfold HistValid; exact inferInstance
instance (lb : Lb) : Decidable (LbOk lb) :=
  decidable_of_iff (BufValid lb ∧ LinesNl lb ∧ HistValid lb)
    ⟨fun h => ⟨h.1, h.2.1, h.2.2⟩, fun h => ⟨h.lines, h.nl, h.hist⟩⟩

theorem lbOk_make : LbOk Lbuf.make :=
  ⟨by intro l hl; simp [Lbuf.make] at hl, by intro l hl; simp [Lbuf.make] at hl, by intro e he; simp [Lbuf.make] at he⟩

/-! ## fields the invariant does not read -/

theorem setMark_hist (lb : Lb) (c : Nat) (p o : Int) : (setMark lb c p o).hist = lb.hist := by
  unfold setMark; split <;> rfl

theorem setMark_ok {lb : Lb} (h : LbOk lb) (c : Nat) (p o : Int) : LbOk (setMark lb c p o) := by
  have h1 := Props.C01.setMark_lines lb c p o
  have h2 := setMark_hist lb c p o
  exact ⟨by unfold BufValid; rw [h1]; exact h.lines, by unfold LinesNl; rw [h1]; exact h.nl,
    by unfold HistValid; rw [h2]; exact h.hist⟩

/-- a buffer with the same lines and history -/
theorem lbOk_congr {lb lb' : Lb} (h : LbOk lb) (h1 : lb'.lines = lb.lines) (h2 : lb'.hist = lb.hist) : LbOk lb' :=
  ⟨by unfold BufValid; rw [h1]; exact h.lines, by unfold LinesNl; rw [h1]; exact h.nl,
    by unfold HistValid; rw [h2]; exact h.hist⟩

theorem globSet_ok {lb : Lb} (h : LbOk lb) (p d : Nat) : LbOk (globSet lb p d) := lbOk_congr h rfl rfl
theorem globGet_ok {lb : Lb} (h : LbOk lb) (p d : Nat) : LbOk (globGet lb p d).2 := lbOk_congr h rfl rfl
theorem modified_ok {lb : Lb} (h : LbOk lb) : LbOk (modified lb).2 := lbOk_congr h rfl rfl
theorem unsavedMark_ok {lb : Lb} (h : LbOk lb) : LbOk (unsavedMark lb) := lbOk_congr h rfl rfl

theorem savedCore_ok {lb : Lb} (h : LbOk lb) (clear : Bool) : LbOk (savedCore lb clear) := by
  unfold savedCore
  cases clear
  · exact lbOk_congr h rfl rfl
  · exact ⟨h.lines, h.nl, by intro e he; simp at he⟩

theorem loadPos_ok {lb : Lb} (h : LbOk lb) (e : Entry) : LbOk (loadPos lb e) := lbOk_congr h rfl rfl

theorem loadMarks_ok {lb : Lb} (h : LbOk lb) (e : Entry) : LbOk (loadMarks lb e) := by
  unfold loadMarks
  split
  · exact h
  · exact lbOk_congr h rfl rfl

/-! ## `lbuf_replace`, `lbuf_opt`, `lbuf_edit` -/

theorem endsNl_of_wf {l : Bytes} (h : Props.C01.WfLine l) : EndsNl l := by
  obtain ⟨w, rfl, _⟩ := h
  exact ⟨w, rfl⟩

theorem mem_splice {α : Type} {a n b : List α} {x : α} (h : x ∈ a.take k ++ n ++ b.drop j) : x ∈ a ∨ x ∈ n ∨ x ∈ b := by
  simp only [List.mem_append] at h
  rcases h with (h | h) | h
  · exact Or.inl ((List.take_sublist _ _).subset h)
  · exact Or.inr (Or.inl h)
  · exact Or.inr (Or.inr ((List.drop_sublist _ _).subset h))

/-- **`lbuf_replace` with a valid text** -/
theorem replace_ok {lb lb' : Lb} {s : Option Bytes} {pos nDel : Nat} (h : LbOk lb) (hs : OptValid s)
    (hr : replace lb s pos nDel = some lb') : LbOk lb' := by
  unfold replace at hr
  simp only [] at hr
  split at hr
  · injection hr with hr
    subst hr
    apply setMark_ok
    apply setMark_ok
    have hnew : ∀ l ∈ (match s with | none => [] | some x => splitLines x), IsU8 l ∧ EndsNl l := by
      intro l hl
      cases s with
      | none => simp at hl
      | some x => exact ⟨splitLines_valid (hs x rfl) l hl, endsNl_of_wf (Props.C01.lines_wf x l hl)⟩
    refine ⟨?_, ?_, h.hist⟩
    · intro l hl
      rcases mem_splice hl with h1 | h1 | h1
      · exact h.lines l h1
      · exact (hnew l h1).1
      · exact h.lines l h1
    · intro l hl
      rcases mem_splice hl with h1 | h1 | h1
      · exact h.nl l h1
      · exact (hnew l h1).2
      · exact h.nl l h1
  · cases hr

/-- **`lbuf_opt`**: the undo record holds the valid text inserted and the (valid) lines deleted -/
theorem opt_ok {lb : Lb} (h : LbOk lb) {buf : Option Bytes} (hb : OptValid buf) (pos nDel : Nat) :
    LbOk (opt lb buf pos nDel) := by
  refine ⟨h.lines, h.nl, ?_⟩
  intro e he
  unfold opt at he
  simp only [List.mem_append, List.mem_singleton] at he
  rcases he with he | he
  · exact h.hist e ((List.take_sublist _ _).subset he)
  · subst he
    refine ⟨hb, ?_⟩
    simp only []
    split
    · exact optValid_some.mpr (cp_valid lb h.lines _ _)
    · exact optValid_none

/-- **`lbuf_edit` with a valid text** -/
theorem edit_ok {lb lb' : Lb} {buf : Option Bytes} {b e : Nat} (h : LbOk lb) (hb : OptValid buf)
    (hr : Lbuf.edit lb buf b e = some lb') : LbOk lb' := by
  unfold Lbuf.edit at hr
  simp only [] at hr
  split at hr
  · cases hr
  · split at hr
    · injection hr with hr; subst hr; exact h
    · exact replace_ok (opt_ok h hb _ _) hb hr

/-! ## undo and redo -/

theorem hist_getElem_valid {lb : Lb} (h : LbOk lb) {u : Nat} {e : Entry} (he : lb.hist[u]? = some e) :
    OptValid e.ins ∧ OptValid e.del :=
  h.hist e (List.mem_of_getElem? he)

theorem undoGo_ok (seq : Nat) : ∀ (f : Nat) (lb lb' : Lb), LbOk lb → undoGo seq f lb = some lb' → LbOk lb'
  | 0, lb, lb', h, hr => by
    unfold undoGo at hr; injection hr with hr; subst hr; exact h
  | f + 1, lb, lb', h, hr => by
    unfold undoGo at hr
    split at hr
    · injection hr with hr; subst hr; exact h
    · rename_i u hu
      split at hr
      · cases hr
      · rename_i e he
        split at hr
        · split at hr
          · cases hr
          · rename_i lb1 h1
            have hv := hist_getElem_valid h he
            have hu' : LbOk { lb with histU := u } := lbOk_congr h rfl rfl
            have h2 := replace_ok hu' hv.2 h1
            exact undoGo_ok seq f _ lb' (loadMarks_ok (loadPos_ok h2 e) e) hr
        · injection hr with hr; subst hr; exact h

/-- **`lbuf_undo`** -/
theorem undo_ok {lb lb' : Lb} {rc : Nat} (h : LbOk lb) (hr : Lbuf.undo lb = some (rc, lb')) : LbOk lb' := by
  unfold Lbuf.undo at hr
  split at hr
  · injection hr with hr; injection hr with _ hr; subst hr; exact h
  · split at hr
    · cases hr
    · rename_i e he
      cases hg : undoGo e.seq lb.histU lb with
      | none => rw [hg] at hr; cases hr
      | some l =>
        rw [hg] at hr
        simp only [Option.map_some] at hr
        injection hr with hr; injection hr with _ hr; subst hr
        exact undoGo_ok _ _ _ _ h hg

theorem redoGo_ok (seq : Nat) : ∀ (f : Nat) (lb lb' : Lb), LbOk lb → redoGo seq f lb = some lb' → LbOk lb'
  | 0, lb, lb', h, hr => by
    unfold redoGo at hr; injection hr with hr; subst hr; exact h
  | f + 1, lb, lb', h, hr => by
    unfold redoGo at hr
    split at hr
    · split at hr
      · cases hr
      · rename_i e he
        split at hr
        · split at hr
          · cases hr
          · rename_i lb1 h1
            have hv := hist_getElem_valid h he
            have hu' : LbOk { lb with histU := lb.histU + 1 } := lbOk_congr h rfl rfl
            have h2 := replace_ok hu' hv.1 h1
            exact redoGo_ok seq f _ lb' (loadPos_ok h2 e) hr
        · injection hr with hr; subst hr; exact h
    · injection hr with hr; subst hr; exact h

/-- **`lbuf_redo`** -/
theorem redo_ok {lb lb' : Lb} {rc : Nat} (h : LbOk lb) (hr : Lbuf.redo lb = some (rc, lb')) : LbOk lb' := by
  unfold Lbuf.redo at hr
  split at hr
  · injection hr with hr; injection hr with _ hr; subst hr; exact h
  · split at hr
    · cases hr
    · rename_i e he
      cases hg : redoGo e.seq (lb.hist.length - lb.histU) lb with
      | none => rw [hg] at hr; cases hr
      | some l =>
        rw [hg] at hr
        simp only [Option.map_some] at hr
        injection hr with hr; injection hr with _ hr; subst hr
        exact redoGo_ok _ _ _ _ h hg

/-! ## `lbuf_rd` -/

theorem rdAcc_s : ∀ (chunks : List Bytes) (sb sb' : Sbuf.Sb), rdAcc chunks sb = some sb' → sb'.s = sb.s ++ chunks.flatten
  | [], sb, sb', h => by unfold rdAcc at h; injection h with h; subst h; simp
  | c :: r, sb, sb', h => by
    unfold rdAcc at h
    split at h
    · cases h
    · rename_i sb1 h1
      have := rdAcc_s r sb1 sb' h
      rw [this]
      have e1 : sb1.s = sb.s ++ c := by
        unfold Sbuf.mem at h1
        simp only [] at h1
        repeat' split at h1
        all_goals (cases h1 <;> rfl)
      rw [e1]; simp

/-- **`lbuf_rd` of a valid file** (whatever way the kernel chunks the reads) -/
theorem rd_ok {lb lb' : Lb} {chunks : List Bytes} {finErr : Bool} {b e rc : Nat} (h : LbOk lb)
    (hc : IsU8 chunks.flatten) (hr : LbufIo.rd lb chunks finErr b e = some (rc, lb')) : LbOk lb' := by
  unfold LbufIo.rd at hr
  split at hr
  · cases hr
  · rename_i sb hsb
    have hs := rdAcc_s chunks _ sb hsb
    split at hr
    · injection hr with hr; injection hr with _ hr; subst hr; exact h
    · split at hr
      · cases hr
      · rename_i buf hbuf
        have hbs : buf = sb.s := by
          unfold Sbuf.buf at hbuf
          simp only [] at hbuf
          repeat' split at hbuf
          all_goals (cases hbuf <;> rfl)
        split at hr
        · cases hr
        · rename_i lb1 h1
          injection hr with hr; injection hr with _ hr; subst hr
          have hv : IsU8 buf := by rw [hbs, hs]; simpa using hc
          rw [cstr_valid hv] at h1
          exact edit_ok h (optValid_some.mpr hv) h1

end Neatvi.Lemmas.C16c
