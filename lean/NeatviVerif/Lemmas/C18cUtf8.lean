import NeatviVerif.Props.C16
import NeatviVerif.Model.Dir
/-!
# C18c helpers: `slice`, `ucChop`, `ucOff` on a valid UTF-8 line

`byteOff cs k` (Spec) is the byte offset of character `k` of `encStr cs`.  A *boundary* of `encStr cs`
is an offset of the form `byteOff cs k` with `k ≤ cs.length` (the same predicate as `C11b.Boundary`,
which unfolds `byteOff`).
-/
namespace Neatvi.Props.C18c
open Neatvi Neatvi.Uc Neatvi.Spec Neatvi.Dir

/-- all code points valid (the predicate `C11b.Valid`, restated here to keep the imports small) -/
def ValidStr (cs : List Nat) : Prop := ∀ c ∈ cs, ValidCp c

instance (cs : List Nat) : Decidable (ValidStr cs) := by unfold ValidStr; exact inferInstance

/-- `off` is a character boundary of `encStr cs` -/
def IsBoundary (cs : List Nat) (off : Nat) : Prop := ∃ k, k ≤ cs.length ∧ off = byteOff cs k

theorem validStr_sub {cs : List Nat} (h : ValidStr cs) (b e : Nat) : ValidStr ((cs.take e).drop b) :=
  fun c hc => h c (List.mem_of_mem_take (List.mem_of_mem_drop hc))

/-! ### `byteOff` is strictly monotone -/

theorem byteOff_add (cs : List Nat) (j d : Nat) :
    byteOff cs (j + d) = byteOff cs j + (encStr ((cs.drop j).take d)).length := by
  unfold byteOff
  rw [List.take_add, encStr_append, List.length_append]

theorem byteOff_mono (cs : List Nat) {j k : Nat} (h : j ≤ k) : byteOff cs j ≤ byteOff cs k := by
  obtain ⟨d, rfl⟩ := Nat.exists_eq_add_of_le h
  rw [byteOff_add]; omega

theorem encStr_length_ge (cs : List Nat) : cs.length ≤ (encStr cs).length := by
  induction cs with
  | nil => simp
  | cons c r ih =>
    rw [encStr_cons, List.length_append, List.length_cons]
    have := enc_length_pos c
    omega

theorem byteOff_strict (cs : List Nat) {j k : Nat} (h : j < k) (hk : k ≤ cs.length) :
    byteOff cs j < byteOff cs k := by
  obtain ⟨d, rfl⟩ := Nat.exists_eq_add_of_le (Nat.le_of_lt h)
  rw [byteOff_add]
  have h1 := encStr_length_ge ((cs.drop j).take d)
  rw [List.length_take, List.length_drop] at h1
  have : 0 < min d (cs.length - j) := by omega
  omega

theorem byteOff_le_iff (cs : List Nat) {j k : Nat} (hj : j ≤ cs.length) :
    byteOff cs j ≤ byteOff cs k ↔ j ≤ k := by
  constructor
  · intro h
    apply Decidable.byContradiction
    intro hn
    have := byteOff_strict cs (show k < j by omega) hj
    omega
  · exact byteOff_mono cs

theorem byteOff_lt_iff (cs : List Nat) {j k : Nat} (hk : k ≤ cs.length) :
    byteOff cs j < byteOff cs k ↔ j < k := by
  constructor
  · intro h
    apply Decidable.byContradiction
    intro hn
    have := byteOff_mono cs (show k ≤ j by omega)
    omega
  · intro h; exact byteOff_strict cs h hk

theorem byteOff_length (cs : List Nat) : byteOff cs cs.length = (encStr cs).length := by
  unfold byteOff; rw [List.take_length]

/-! ### `ucChop`, `slice` -/

theorem chop_length {cs : List Nat} (h : ValidStr cs) : (ucChop (encStr cs)).length = cs.length + 1 := by
  rw [C16.chop_spec h]; simp

theorem chop_get {cs : List Nat} (h : ValidStr cs) {k : Nat} (hk : k ≤ cs.length) :
    (ucChop (encStr cs))[k]? = some (byteOff cs k) := by
  rw [C16.chop_spec h, List.getElem?_map, List.getElem?_range (by omega)]
  rfl

/-- `slice` cuts exactly the characters `[b, e)` -/
theorem slice_spec {cs : List Nat} (h : ValidStr cs) {b e : Nat} (hbe : b ≤ e) (he : e ≤ cs.length) :
    slice (encStr cs) (ucChop (encStr cs)) b e = some (encStr ((cs.take e).drop b)) := by
  unfold slice
  rw [chop_get h (show b ≤ cs.length by omega), chop_get h he]
  have hs := C16.sub_spec h b e hbe he
  unfold ucSub at hs
  rw [C16.chr_spec h, C16.chr_spec h, if_pos (by omega), if_pos he] at hs
  simp only [byteOff_mono cs hbe, if_true] at hs
  simp only [hs]

/-! ### `ucOff` on boundaries -/

/-- `ucOff` of a boundary is the number of characters before it -/
theorem ucOff_boundary {cs : List Nat} (h : ValidStr cs) {off : Nat} (hb : IsBoundary cs off) :
    ∃ k, k ≤ cs.length ∧ off = byteOff cs k ∧ ucOff (encStr cs) off = k := by
  obtain ⟨k, hk, rfl⟩ := hb
  exact ⟨k, hk, rfl, C16.off_chr_roundtrip h k hk⟩

theorem ucOff_le_length {cs : List Nat} (h : ValidStr cs) {off : Nat} (hb : IsBoundary cs off) :
    ucOff (encStr cs) off ≤ cs.length := by
  obtain ⟨k, hk, _, e⟩ := ucOff_boundary h hb
  omega

/-- on boundaries `ucOff` is monotone, and strictly so -/
theorem ucOff_le_iff {cs : List Nat} (h : ValidStr cs) {x y : Nat} (hx : IsBoundary cs x) (hy : IsBoundary cs y) :
    ucOff (encStr cs) x ≤ ucOff (encStr cs) y ↔ x ≤ y := by
  obtain ⟨j, hj, rfl, e1⟩ := ucOff_boundary h hx
  obtain ⟨k, hk, rfl, e2⟩ := ucOff_boundary h hy
  rw [e1, e2, byteOff_le_iff cs hj]

theorem ucOff_lt_iff {cs : List Nat} (h : ValidStr cs) {x y : Nat} (hx : IsBoundary cs x) (hy : IsBoundary cs y) :
    ucOff (encStr cs) x < ucOff (encStr cs) y ↔ x < y := by
  obtain ⟨j, hj, rfl, e1⟩ := ucOff_boundary h hx
  obtain ⟨k, hk, rfl, e2⟩ := ucOff_boundary h hy
  rw [e1, e2, byteOff_lt_iff cs hk]

end Neatvi.Props.C18c
