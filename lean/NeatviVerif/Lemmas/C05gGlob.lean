import NeatviVerif.Lemmas.C05dRun
/-!
# C05g lemmas, part 5: the loop of `:g` never indexes `ln_glob[]` with a negative number

After the command list has run on line `i` the scan resumes at `MAX(0, MIN(i, xrow))`.  So every index at which the
loop reads the mark bit (`globGet lb i.toNat dep` in `ecGlob.scan.adv`) is non-negative, and the check
`if i < 0 then none` of the model's loop (the C code's `ln_glob[i]` with a negative `i`) never fires.
-/
namespace Neatvi.Lemmas.C05g
open Neatvi Neatvi.Lbuf Neatvi.LbufIo Neatvi.Ex Neatvi.Rset Neatvi.Lemmas.C05d

/-- one round of the loop (`globStep`): from a non-negative index, the index it hands on is non-negative -/
theorem globStep_index_nonneg {f : Nat} {neg : Bool} {body : Bytes} {re : RStr} {ed ed2 : Ed} {i i2 : Int} {st : Bool}
    (h : globStep f neg body re ed i = some (st, ed2, i2)) (h0 : 0 ≤ i) : 0 ≤ i2 := by
  unfold globStep at h
  split at h
  · cases h
  · split at h
    · cases h
    · split at h
      · split at h
        · cases h
        · split at h
          · cases h; exact h0
          · cases h; exact Int.le_max_left 0 _
      · cases h; exact h0

/-- after the command list has run (`exExec` returned 0) the index handed on is non-negative whatever `i` was -/
theorem globStep_index_nonneg_exec {f : Nat} {neg : Bool} {body : Bytes} {re : RStr} {ed ed1 ed2 : Ed} {i i2 : Int}
    {ln : Bytes} {res : Int} {x : List Int × Nat} (hl : ed.line i = some ln)
    (hf : rstrFind re ln 16 0 ND NG = some (res, x)) (hn : ((res < 0) == neg) = true)
    (hx : exExec f { ed with xrow := i } body = some (0, ed1))
    (h : globStep f neg body re ed i = some (false, ed2, i2)) : i2 = max 0 (min i ed1.xrow) ∧ 0 ≤ i2 := by
  unfold globStep at h
  rw [hl] at h
  simp only [] at h
  rw [hf] at h
  simp only [] at h
  rw [if_pos hn, hx] at h
  simp only [bne_self_eq_false, Bool.false_eq_true, if_false, Option.some.injEq, Prod.mk.injEq, true_and] at h
  obtain ⟨_, rfl⟩ := h
  exact ⟨rfl, Int.le_max_left 0 _⟩

/-- `adv` only moves forward -/
theorem adv_index_ge (dep : Nat) : ∀ (h : Nat) (ed : Ed) (i : Int), i ≤ (ecGlob.scan.adv dep h ed i).2 := by
  intro h
  induction h with
  | zero => intro ed i; rw [ecGlob.scan.adv]; exact Int.le_refl _
  | succ h ih =>
    intro ed i
    rw [ecGlob.scan.adv]
    split
    · exact Int.le_refl _
    · split
      · exact Int.le_refl _
      · simp only []
        split
        · exact Int.le_refl _
        · have := ih (ed.setLb (globGet ‹Lb› i.toNat dep).2) (i + 1)
          omega

/-- the indices `j` at which `ecGlob.scan.adv dep h ed i` reads the mark bit (`globGet lb j.toNat dep`) -/
inductive AdvReads (dep : Nat) : Nat → Ed → Int → Int → Prop
  | here {h : Nat} {ed : Ed} {i : Int} {lb : Lb} : ¬ (i ≥ ed.len) → ed.lb = some lb → AdvReads dep (h + 1) ed i i
  | next {h : Nat} {ed : Ed} {i j : Int} {lb : Lb} : ¬ (i ≥ ed.len) → ed.lb = some lb →
      (globGet lb i.toNat dep).1 = false → AdvReads dep h (ed.setLb (globGet lb i.toNat dep).2) (i + 1) j →
      AdvReads dep (h + 1) ed i j

theorem advReads_ge {dep h : Nat} {ed : Ed} {i j : Int} (hr : AdvReads dep h ed i j) : i ≤ j := by
  induction hr with
  | here _ _ => exact Int.le_refl _
  | next _ _ _ _ ih => omega

/-- the indices at which the scan `ecGlob.scan f neg body re dep g ed i` reads the mark bit: in every round that
    goes on, those of `adv` from the index `globStep` handed on.  (The model's check `if i < 0 then none` is NOT
    assumed to have passed: the relation follows the loop as if the check were not there.) -/
inductive ScanReads (f : Nat) (neg : Bool) (body : Bytes) (re : RStr) (dep : Nat) : Nat → Ed → Int → Int → Prop
  | round {g : Nat} {ed ed2 : Ed} {i i2 j : Int} : ¬ (i ≥ ed.len) →
      globStep f neg body re ed i = some (false, ed2, i2) → AdvReads dep (ed2.len.toNat + 1) ed2 i2 j →
      ScanReads f neg body re dep (g + 1) ed i j
  | later {g : Nat} {ed ed2 : Ed} {i i2 j : Int} : ¬ (i ≥ ed.len) →
      globStep f neg body re ed i = some (false, ed2, i2) →
      ScanReads f neg body re dep g (ecGlob.scan.adv dep (ed2.len.toNat + 1) ed2 i2).1
        (ecGlob.scan.adv dep (ed2.len.toNat + 1) ed2 i2).2 j →
      ScanReads f neg body re dep (g + 1) ed i j

/-- **every index read is non-negative**, when the scan starts at a non-negative index -/
theorem scanReads_nonneg {f : Nat} {neg : Bool} {body : Bytes} {re : RStr} {dep : Nat} :
    ∀ {g : Nat} {ed : Ed} {i j : Int}, 0 ≤ i → ScanReads f neg body re dep g ed i j → 0 ≤ j := by
  intro g ed i j h0 hr
  induction hr with
  | round _ hs ha =>
    have := globStep_index_nonneg hs h0
    have := advReads_ge ha
    omega
  | @later g ed ed2 i i2 j _ hs _ ih =>
    have h1 := globStep_index_nonneg hs h0
    have h2 := adv_index_ge dep (ed2.len.toNat + 1) ed2 i2
    exact ih (by omega)

/-- **the check never fires**: from a non-negative index, one round of the scan is the round without the
    negative-index check -/
theorem scan_succ_nonneg (f : Nat) (neg : Bool) (body : Bytes) (re : RStr) (dep g : Nat) (ed : Ed) (i : Int)
    (h0 : 0 ≤ i) :
    ecGlob.scan f neg body re dep (g + 1) ed i =
      if i ≥ ed.len then some ed else
      match globStep f neg body re ed i with
      | none => none
      | some (true, ed, _) => some ed
      | some (false, ed, i) =>
        ecGlob.scan f neg body re dep g (ecGlob.scan.adv dep (ed.len.toNat + 1) ed i).1
          (ecGlob.scan.adv dep (ed.len.toNat + 1) ed i).2 := by
  rw [scan_succ]
  split
  · rfl
  · cases hs : globStep f neg body re ed i with
    | none => rfl
    | some z =>
      obtain ⟨st, ed2, i2⟩ := z
      cases st with
      | true => rfl
      | false =>
        simp only []
        have := globStep_index_nonneg hs h0
        rw [if_neg (by omega)]

/-- the scan of `ec_glob` starts at the first line of a resolved region: a non-negative index -/
theorem glob_start_nonneg {ed ed1 : Ed} {loc : Bytes} {b e : Int}
    (h : exRegion ed loc = some ((0, b, e), ed1)) : 0 ≤ b :=
  ((exRegion_ok h).2.1 rfl).1

end Neatvi.Lemmas.C05g
