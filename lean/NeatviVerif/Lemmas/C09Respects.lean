import NeatviVerif.Lemmas.C09KeyEq
/-!
# C09: `Respects` for the larger readers of vi.c / led.c, by a small syntax-directed tactic

`respects_tac` walks a `do` block: `bind`, `pure`, `if`, `match`, the key-queue primitives, `modify f` with
`f` commuting with `norm`, and `get` with a continuation that only uses `norm`-invariant observations.
-/
namespace Neatvi.Lemmas.C09
open Neatvi Neatvi.Vi Neatvi.Ex

theorem norm_ed (s : VS) : (norm s).ed = s.ed := rfl
theorem norm_icmd (s : VS) : (norm s).icmd = s.icmd := rfl
theorem norm_vibuf (s : VS) : (norm s).vibuf = s.vibuf := rfl
theorem norm_xcol (s : VS) : (norm s).xcol = s.xcol := rfl
theorem norm_arg1 (s : VS) : (norm s).arg1 = s.arg1 := rfl
theorem norm_arg2 (s : VS) : (norm s).arg2 = s.arg2 := rfl
theorem norm_ybuf (s : VS) : (norm s).ybuf = s.ybuf := rfl
theorem norm_charlast (s : VS) : (norm s).charlast = s.charlast := rfl
theorem norm_charcmd (s : VS) : (norm s).charcmd = s.charcmd := rfl
theorem norm_pcol (s : VS) : (norm s).pcol = s.pcol := rfl
theorem norm_soset (s : VS) : (norm s).soset = s.soset := rfl
theorem norm_so (s : VS) : (norm s).so = s.so := rfl
theorem norm_scroll (s : VS) : (norm s).scroll = s.scroll := rfl
theorem norm_repCmd (s : VS) : (norm s).repCmd = s.repCmd := rfl
theorem norm_execReg (s : VS) : (norm s).execReg = s.execReg := rfl
theorem norm_msg (s : VS) : (norm s).msg = s.msg := rfl
theorem norm_xrows (s : VS) : (norm s).xrows = s.xrows := rfl
theorem norm_xcols (s : VS) : (norm s).xcols = s.xcols := rfl
theorem norm_xai (s : VS) : (norm s).xai = s.xai := rfl
theorem norm_xkmap (s : VS) : (norm s).xkmap = s.xkmap := rfl
theorem norm_exKmap (s : VS) : (norm s).exKmap = s.exKmap := rfl
theorem norm_xkmapAlt (s : VS) : (norm s).xkmapAlt = s.xkmapAlt := rfl
theorem norm_unmodelled (s : VS) : (norm s).unmodelled = s.unmodelled := rfl
theorem norm_lines (s : VS) : lines (norm s) = lines s := rfl
theorem norm_lenOf (s : VS) : lenOf (norm s) = lenOf s := rfl
theorem norm_lineOf (s : VS) : lineOf (norm s) = lineOf s := rfl
theorem norm_cntOf (s : VS) : cntOf (norm s) = cntOf s := rfl
theorem norm_renOpts (s : VS) : renOpts (norm s) = renOpts s := rfl
theorem norm_posTab (s : VS) : posTab (norm s) = posTab s := rfl
theorem norm_off2col (s : VS) : off2col (norm s) = off2col s := rfl
theorem norm_col2off (s : VS) : col2off (norm s) = col2off s := rfl
theorem norm_noeol (s : VS) : noeol (norm s) = noeol s := rfl
theorem norm_dirCtx (s : VS) : dirCtx (norm s) = dirCtx s := rfl
theorem norm_nextcol (s : VS) : nextcol (norm s) = nextcol s := rfl
theorem norm_curword (s : VS) : curword (norm s) = curword s := rfl
theorem norm_ledLeft (s : VS) : ledLeft (norm s) = ledLeft s := rfl

theorem norm_viSearch_rep (cmd : Nat) (cnt : Int) (s : VS) (kwd : Bytes) (dir : Int) (f : Nat)
    (r o i : Int) :
    viSearch.rep cmd cnt (norm s) kwd dir f r o i = viSearch.rep cmd cnt s kwd dir f r o i := by
  induction f generalizing r o i with
  | zero => rfl
  | succ f ih =>
    unfold viSearch.rep
    simp only [norm_lines, norm_ed, ih]

theorem norm_lineE (s : VS) : lineE (norm s) = lineE s := rfl
theorem norm_viIndents (s : VS) : viIndents (norm s) = viIndents s := rfl
theorem norm_lbufRegion (s : VS) : lbufRegion (norm s) = lbufRegion s := rfl
theorem norm_vcJoin_go (s : VS) (beg e : Int) (f : Nat) (i : Int) (sb : Bytes) (off : Int) :
    vcJoin.go (norm s) beg e f i sb off = vcJoin.go s beg e f i sb off := by
  induction f generalizing i sb off with
  | zero => rfl
  | succ f ih =>
    unfold vcJoin.go
    simp only [norm_lineE, ih]

macro "norm_inv" : tactic => `(tactic| (simp only [norm_ed, norm_icmd, norm_vibuf, norm_xcol, norm_arg1, norm_arg2, norm_ybuf, norm_charlast, norm_charcmd, norm_pcol, norm_soset, norm_so, norm_scroll, norm_repCmd, norm_execReg, norm_msg, norm_xrows, norm_xcols, norm_xai, norm_xkmap, norm_exKmap, norm_xkmapAlt, norm_unmodelled, norm_lines, norm_lenOf, norm_lineOf, norm_cntOf, norm_renOpts, norm_posTab, norm_off2col, norm_col2off, norm_noeol, norm_dirCtx, norm_nextcol, norm_curword, norm_ledLeft, norm_viSearch_rep, norm_lineE, norm_viIndents, norm_lbufRegion, norm_vcJoin_go]))

/-! ### further primitives -/

theorem respects_modify' {f : VS → VS} (hf : ∀ s, norm (f s) = f (norm s)) :
    Respects (Vi.modify f) := respects_modify hf

theorem respects_withEd (f : Ed → Ed) : Respects (withEd f) := respects_modify (fun _ => rfl)
theorem respects_setMsg (m : Bytes) : Respects (setMsg m) := respects_modify (fun _ => rfl)
theorem respects_unmodelled : Respects Vi.unmodelled := respects_modify (fun _ => rfl)
theorem respects_setPos (r o : Int) : Respects (setPos r o) := respects_withEd _
theorem respects_setRow (r : Int) : Respects (setRow r) := respects_withEd _
theorem respects_setOff (o : Int) : Respects (setOff o) := respects_withEd _
theorem respects_setTop (t : Int) : Respects (setTop t) := respects_withEd _
theorem respects_markSet (c : Nat) (r o : Int) : Respects (markSet c r o) := respects_withEd _
theorem respects_regPut (c : Nat) (x : Bytes) (ln : Nat) : Respects (regPut c x ln) := respects_withEd _
theorem respects_lbufModified : Respects lbufModified := respects_withEd _
theorem respects_viNextline : Respects viNextline := respects_withEd _

/-- a pure observation of the state that does not look at the queue -/
theorem respects_reader {α : Type} (g : VS → α) (hg : ∀ s, g s = g (norm s)) :
    Respects (fun s => Res.ok (g s) s) := by
  intro s t h
  show RelRes (Res.ok (g s) s) (Res.ok (g t) t)
  rw [hg s, hg t, show norm t = norm s from h.symm]
  exact RelRes.ok _ _ _ h

theorem respects_liftO {α : Type} (o : Option α) : Respects (liftO o) := by
  intro s t h
  unfold liftO
  cases o with
  | none => exact RelRes.trap
  | some a => exact RelRes.ok _ _ _ h

theorem respects_edEdit (txt : Option Bytes) (b e : Int) : Respects (edEdit txt b e) := by
  intro s t h
  have he : s.ed = t.ed := by
    have h' : norm s = norm t := h
    have := congrArg VS.ed h'
    exact this
  unfold edEdit
  rw [← he]
  cases s.ed.edit txt b e with
  | none => exact RelRes.trap
  | some ed =>
    have : QueueFree (fun s => { s with ed := ed }) := fun _ => rfl
    exact respects_modify this s t h

theorem respects_repeatM (n : Nat) {m : M Unit} (hm : Respects m) : Respects (repeatM n m) := by
  induction n with
  | zero => exact respects_pure _
  | succ n ih => exact respects_bind hm fun _ => ih

syntax "respects_step" : tactic
macro_rules | `(tactic| respects_step) => `(tactic| first
  | with_reducible exact respects_termRead
  | with_reducible exact respects_viRead
  | with_reducible exact respects_termCmd
  | with_reducible exact respects_viBack _
  | with_reducible exact respects_pure _
  | with_reducible exact respects_trap
  | with_reducible exact respects_withEd _
  | with_reducible exact respects_setMsg _
  | with_reducible exact respects_unmodelled
  | with_reducible exact respects_setPos _ _
  | with_reducible exact respects_setRow _
  | with_reducible exact respects_setOff _
  | with_reducible exact respects_setTop _
  | with_reducible exact respects_markSet _ _ _
  | with_reducible exact respects_regPut _ _ _
  | with_reducible exact respects_lbufModified
  | with_reducible exact respects_viNextline
  | with_reducible exact respects_liftO _
  | with_reducible exact respects_edEdit _ _ _
  | with_reducible exact respects_viYankbuf
  | with_reducible exact respects_viPrefix
  | with_reducible exact respects_viChar
  | with_reducible exact respects_readCharS _ _
  | with_reducible exact respects_readKey
  | ((with_reducible refine respects_reader _ (fun _ => ?_)); (norm_inv; try rfl))
  | (with_reducible refine respects_repeatM _ ?_)
  | (with_reducible refine respects_modify' (fun _ => ?_)); rfl
  | with_reducible assumption
  | ((with_reducible refine respects_get_bind (fun _ => ?_) (fun _ => ?_)); (norm_inv; try rfl))
  | with_reducible refine respects_bind ?_ (fun _ => ?_)
  | with_reducible refine respects_ite ?_ ?_
  | dsimp only
  | (show Respects _; split))

macro "respects_tac" : tactic => `(tactic| repeat' respects_step)

theorem respects_viMotionln (row cmd : Int) : Respects (viMotionln row cmd) := by
  unfold viMotionln
  respects_tac

macro_rules | `(tactic| respects_step) => `(tactic| with_reducible exact respects_viMotionln _ _)

/-! ### `led_line`, `vi_prompt` -/

theorem respects_ledLine_go (post : Bytes) (aiMax : Nat) (im pe : Bool)
    (setKmap : Option Nat → M Unit) (getKmap : M Nat) (redraw : Bytes → Bytes → Bytes → M Unit)
    (hS : ∀ k, Respects (setKmap k)) (hG : Respects getKmap) (hR : ∀ a b c, Respects (redraw a b c))
    (f : Nat) (sb ai : Bytes) (c1 : Int) :
    Respects (ledLine.go post aiMax im pe setKmap getKmap redraw f sb ai c1) := by
  induction f generalizing sb ai c1 with
  | zero => unfold ledLine.go; exact respects_pure _
  | succ f ih =>
    unfold ledLine.go
    repeat' (first | exact hS _ | exact hG | exact hR _ _ _ | exact ih _ _ _ | respects_step)

theorem respects_ledLine (pref post ai0 : Bytes) (aiMax : Nat) (im ex : Bool) :
    Respects (ledLine pref post ai0 aiMax im ex) := by
  unfold ledLine
  dsimp only
  apply respects_ledLine_go
  · intro k
    respects_tac
  · respects_tac
  · intro a b c
    respects_tac

macro_rules | `(tactic| respects_step) => `(tactic| with_reducible exact respects_ledLine _ _ _ _ _ _)

theorem respects_viPrompt (ex : Bool) : Respects (viPrompt ex) := by
  unfold viPrompt
  respects_tac

macro_rules | `(tactic| respects_step) => `(tactic| with_reducible exact respects_viPrompt _)

/-! ### searching and motions -/

theorem respects_viSearch (cmd : Nat) (cnt r o : Int) : Respects (viSearch cmd cnt r o) := by
  unfold viSearch
  respects_tac

macro_rules | `(tactic| respects_step) => `(tactic| with_reducible exact respects_viSearch _ _ _ _)

theorem respects_viMotion (row off : Int) : Respects (viMotion row off) := by
  unfold viMotion
  respects_tac

macro_rules | `(tactic| respects_step) => `(tactic| with_reducible exact respects_viMotion _ _)

end Neatvi.Lemmas.C09
