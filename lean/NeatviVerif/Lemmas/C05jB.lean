import NeatviVerif.Lemmas.C05jA
/-!
# C05j, part B: `:s` keeps the line invariant — what `substLine` writes is made of bytes of the line and of the
replacement, and `lbuf_edit` splits it at its newlines
-/
set_option linter.unusedSimpArgs false
set_option linter.unusedVariables false
namespace Neatvi.Lemmas.C05j
open Neatvi Neatvi.Uc Neatvi.Lbuf Neatvi.LbufIo Neatvi.Ex Neatvi.Mot Neatvi.Vi Neatvi.Rset
open Neatvi.Lemmas.C05f Neatvi.Lemmas.ExFrame

theorem substExpand_go_noNul (ln : Bytes) (offs : List Int) (hl : NoNul ln) :
    ∀ (f : Nat) (rep acc x : Bytes), NoNul rep → NoNul acc → substExpand.go ln offs f rep acc = some x → NoNul x := by
  intro f
  induction f with
  | zero => intro rep acc x _ ha h; rw [substExpand.go.eq_def] at h; cases h; exact ha
  | succ f ih =>
    intro rep acc x hr ha h
    rw [substExpand.go.eq_def] at h
    dsimp only at h
    split at h
    · cases h; exact ha
    · rename_i c r
      obtain ⟨hc, hr'⟩ := noNul_cons.mp hr
      split at h
      · split at h
        · split at h
          · cases h
          · split at h
            · exact ih _ _ _ (hr'.drop 1) ha h
            · split at h
              · cases h
              · exact ih _ _ _ (hr'.drop 1) (noNul_append.mpr ⟨ha, (hl.drop _).take _⟩) h
        · refine ih _ _ _ (hr'.drop 1) (noNul_append.mpr ⟨ha, noNul_singleton.mpr ?_⟩) h
          rename_i hne _
          have : r ≠ [] := by
            intro hn; subst hn; simp at hne
          cases r with
          | nil => exact absurd rfl this
          | cons d r' => exact (noNul_cons.mp hr').1
      · exact ih _ _ _ hr' (noNul_append.mpr ⟨ha, noNul_singleton.mpr hc⟩) h

theorem substExpand_noNul {rep ln : Bytes} {offs : List Int} {x : Bytes} (hr : NoNul rep) (hl : NoNul ln)
    (h : substExpand rep ln offs = some x) : NoNul x :=
  substExpand_go_noNul ln offs hl _ rep [] x hr noNul_nil h

theorem substLine_go_noNul (re : RStr) (rep : Bytes) (g : Bool) (hrep : NoNul rep) :
    ∀ (f : Nat) (ln : Bytes) (r : Option Bytes) (first : Bool) (r' : Option Bytes) (ln' : Bytes), NoNul ln → NoNulO r →
      substLine.go re rep g f ln r first = some (r', ln') → NoNulO r' ∧ NoNul ln' := by
  intro f
  induction f with
  | zero => intro ln r first r' ln' hl hr h; rw [substLine.go] at h; cases h; exact ⟨hr, hl⟩
  | succ f ih =>
    intro ln r first r' ln' hl hr h
    rw [substLine.go] at h
    split at h
    · cases h
    · rename_i res offs cuts hfind
      split at h
      · cases h; exact ⟨hr, hl⟩
      · dsimp only at h
        split at h
        · cases h
        · rename_i x hx
          have hx0 := substExpand_noNul hrep hl hx
          have hacc : NoNul (r.getD [] ++ ln.take (offs.getD 0 0).toNat ++ x) := by
            refine noNul_append.mpr ⟨noNul_append.mpr ⟨?_, hl.take _⟩, hx0⟩
            cases r with
            | none => exact noNul_nil
            | some y => exact hr y rfl
          by_cases hempty : offs.getD 1 0 ≤ offs.getD 0 0
          · simp only [hempty, decide_true, if_true] at h
            have h2a := noNul_append.mpr ⟨hacc, ((hl.drop (offs.getD 1 0).toNat).take
              (min (Uc.ucLen ((ln.drop (offs.getD 1 0).toNat).headD 0)) (ln.drop (offs.getD 1 0).toNat).length))⟩
            have h2b := (hl.drop (offs.getD 1 0).toNat).drop
              (min (Uc.ucLen ((ln.drop (offs.getD 1 0).toNat).headD 0)) (ln.drop (offs.getD 1 0).toNat).length)
            split at h
            · cases h; exact ⟨noNulO_some.mpr h2a, h2b⟩
            · exact ih _ _ _ _ _ h2b (noNulO_some.mpr h2a) h
          · simp only [hempty, decide_false, if_false] at h
            split at h
            · cases h; exact ⟨noNulO_some.mpr hacc, hl.drop _⟩
            · exact ih _ _ _ _ _ (hl.drop _) (noNulO_some.mpr hacc) h

/-- **what `:s` writes for a line**: a NUL-free line and a NUL-free replacement give a NUL-free text -/
theorem substLine_noNul {re : RStr} {rep : Bytes} {g : Bool} {line nl : Bytes} (hrep : NoNul rep) (hl : NoNul line)
    (h : substLine re rep g line = some (some nl)) : NoNul nl := by
  unfold substLine at h
  split at h
  · cases h
  · cases h
  · rename_i acc rest hgo
    cases h
    obtain ⟨h1, h2⟩ := substLine_go_noNul re rep g hrep _ _ _ _ _ _ hl noNulO_none hgo
    exact noNul_append.mpr ⟨h1 acc rfl, h2⟩


theorem EOk.kwdSet {ed : Ed} {c : Prop} (h : EOk ed c) (k : Option Bytes) (d : Int) : EOk (ed.kwdSet k d) c :=
  h.of_eq rfl rfl

/-- one round of the loop of `ec_substitute` -/
theorem subst_round {re : RStr} {g : Bool} {b : Int} (acc : Option (Ed × Int)) (k : Nat)
    (hacc : ∀ ed sh, acc = some (ed, sh) → EOk ed False ∧ NoNul ed.xrep) :
    ∀ ed sh, (match acc with
      | none => none
      | some (ed, sh) =>
        let row := b + (k : Int) + sh
        match ed.line row with
        | none => none
        | some ln =>
          match substLine re ed.xrep g ln with
          | none => none
          | some none => some (ed, sh)
          | some (some nl) =>
            match ed.edit (some nl) row (row + 1) with
            | none => none
            | some ed' => some (ed', sh + (ed'.len - ed.len))) = some (ed, sh) → EOk ed False ∧ NoNul ed.xrep := by
  intro ed' sh' h
  split at h
  · cases h
  · rename_i ed sh
    obtain ⟨h1, h2⟩ := hacc ed sh rfl
    dsimp only at h
    split at h
    · cases h
    · rename_i ln hln
      split at h
      · cases h
      · cases h; exact ⟨h1, h2⟩
      · rename_i nl hnl
        split at h
        · cases h
        · rename_i ed2 he
          cases h
          have hx : ed'.xrep = ed.xrep := by
            obtain ⟨_, _, lb, lb', _, _, rfl, _⟩ := Ed_edit_some he
            unfold Ed.setLb; split <;> rfl
          refine ⟨h1.edit (by omega) (noNulO_some.mpr (substLine_noNul h2 (h1.lines _ ln hln).noNul hnl)) he, ?_⟩
          rw [hx]; exact h2

theorem reRead_go_rest_noNul (delim : Nat) : ∀ (f : Nat) (s acc : Bytes), NoNul s →
    NoNul (reRead.go delim f s acc).2 := by
  intro f
  induction f with
  | zero => intro s acc hs; unfold reRead.go; exact hs
  | succ f ih =>
    intro s acc hs
    unfold reRead.go
    cases s with
    | nil => exact noNul_nil
    | cons c r =>
      obtain ⟨hc, hr⟩ := noNul_cons.mp hs
      simp only []
      splits
      all_goals first
        | exact hr
        | exact ih _ _ hr
        | exact ih _ _ (hr.drop 1)

theorem reRead_rest_noNul {src : Bytes} (h : NoNul src) : NoNul (reRead src).2 := by
  unfold reRead
  cases src with
  | nil => exact noNul_nil
  | cons d s =>
    simp only []
    exact reRead_go_rest_noNul d _ s [] (noNul_cons.mp h).2

theorem headD_singleton_noNul {arg : Bytes} (h : NoNul arg) (hne : arg ≠ []) : NoNul [arg.headD 0] := by
  cases arg with
  | nil => exact absurd rfl hne
  | cons a t => exact noNul_singleton.mpr (noNul_cons.mp h).1

/-- the prologue of `ec_substitute`: the remembered pattern and replacement change, from a NUL-free argument -/
theorem sPrep_eok {ed : Ed} {c : Prop} (h : EOk ed c) (hrep : NoNul ed.xrep) (arg : Bytes) (harg : NoNul arg) :
    EOk (Lemmas.C05e.sPrep ed arg).1 c ∧ NoNul (Lemmas.C05e.sPrep ed arg).1.xrep := by
  have hb := Lemmas.C05e.sPrep_bufs ed arg
  have hr : (Lemmas.C05e.sPrep ed arg).1.regs = ed.regs := by
    unfold Lemmas.C05e.sPrep
    dsimp only
    repeat' split
    all_goals rfl
  refine ⟨h.of_eq hb hr, ?_⟩
  unfold Lemmas.C05e.sPrep
  dsimp only
  have hrest := reRead_rest_noNul harg
  have hx0 : NoNul (match (reRead arg).1 with
      | some p => if (!p.isEmpty) = true then ed.kwdSet (some p) 1 else ed
      | none => ed).xrep := by
    split
    · split
      · exact hrep
      · exact hrep
    · exact hrep
  have aux : ∀ (c : Prop) [Decidable c] (x : Bytes) (e0 : Ed), NoNul x → NoNul e0.xrep →
      NoNul (if c then { e0 with xrep := x } else e0).xrep := by
    intro c _ x e0 h1 h2; split
    · exact h1
    · exact h2
  refine aux _ _ _ ?_ hx0
  refine NoNul.take ?_ _
  split
  · rename_i hc
    have hne : arg ≠ [] := by
      intro hn; subst hn; simp [reRead] at hc
    have := reRead_noNul (noNul_append.mpr ⟨headD_singleton_noNul harg hne, hrest⟩)
    cases hq : (reRead ([arg.headD 0] ++ (reRead arg).2)).1 with
    | none => exact noNul_nil
    | some y => exact this y hq
  · exact noNul_nil

theorem sLoop_eok (re : RStr) (g : Bool) (b : Int) : ∀ (n : Nat) (ed : Ed), EOk ed False → NoNul ed.xrep →
    ∀ ed' sh, Lemmas.C05e.sLoop re g b n ed = some (ed', sh) → EOk ed' False ∧ NoNul ed'.xrep := by
  intro n
  induction n with
  | zero => intro ed h hr ed' sh hl; cases hl; exact ⟨h, hr⟩
  | succ n ih =>
    intro ed h hr ed' sh hl
    rw [Lemmas.C05e.sLoop_succ] at hl
    exact subst_round _ n (fun e2 s2 he => ih ed h hr e2 s2 he) ed' sh hl

/-! ### `:s` with a NUL-free argument -/
theorem keeps_subst (f : Nat) {ed ed' : Ed} {c : Prop} (h : EOk ed c) (hrep : NoNul ed.xrep) (loc cmd arg : Bytes)
    (txt : Option Bytes) (harg : NoNul arg)
    (r : Int) (hr : runCmd (f + 1) ed "ec_substitute" loc cmd arg txt = some (r, ed')) : EOk ed' False ∧ NoNul ed'.xrep := by
  rw [Lemmas.C05e.runCmd_subst_eq'] at hr
  split at hr
  · cases hr
  · rename_i rc b e ed1 hreg
    obtain ⟨h1, _⟩ := region_eok h hreg
    have hrep1 : NoNul ed1.xrep := by
      obtain ⟨ha, _⟩ := Lemmas.C06.region_all ed loc rc b e ed1 hreg
      obtain ⟨_, _, _, rfl⟩ := ha
      exact hrep
    obtain ⟨h2, hrep2⟩ := sPrep_eok h1 hrep1 arg harg
    split at hr
    · cases hr; exact ⟨h1.weaken, hrep1⟩
    · split at hr
      · cases hr; exact ⟨h2.weaken, hrep2⟩
      · split at hr
        · cases hr
        · cases hr; exact ⟨h2.weaken, hrep2⟩
        · split at hr
          · cases hr
          · rename_i ed3 sh hl
            cases hr
            exact sLoop_eok _ _ _ _ _ h2.weaken hrep2 _ _ hl

end Neatvi.Lemmas.C05j
