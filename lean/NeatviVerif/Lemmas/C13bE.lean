import NeatviVerif.Lemmas.C13bD
/-!
# C13b, part E: the literal fast path, and `rstr_find` as a whole

`rstrFindFrom re s k`: `rstr_find` put to the whole line `s`, reporting the first match that starts
at byte `k` or later (absolute offsets).  `rstrFind_shift`: for a compiled pattern that makes no
word-boundary test, `rstr_find` on the rest `s.drop k` with `RE_NOTBOL` is `rstrFindFrom` shifted.
-/
namespace Neatvi.Lemmas.C13b
open Neatvi Neatvi.Regex Neatvi.Rset Neatvi.Spec.RegexSem

/-- `rstr_find` on the whole line from byte `k`: the engine with its start-position loop entered at
    `k`, or the candidate loop of the literal entered at `k` -/
def rstrFindFrom (rs : RStr) (s : Bytes) (k n : Nat) (flg : Nat) (nd ngrps : Nat) : Option (Int × List Int × Nat) :=
  match rs.rs with
  | some r => findFrom r s k n flg nd ngrps
  | none =>
    let lit := rs.str.getD []
    if rs.lbeg && flg &&& RE_NOTBOL != 0 then some (-1, [], 0) else
    let len := lit.length
    let e : Int := (s.length : Int) - len - 1
    if e < 0 then some (-1, [], 0) else
    let b : Int := if rs.lend then e else 0
    let e : Int := if rs.lbeg then 0 else e
    match literalLoop rs lit s (s.length + 2) (max b k) e with
    | none => none
    | some none => some (-1, [], 0)
    | some (some r) => some (0, (if n ≥ 1 then [(r : Int), (r + len : Nat)] else []) ++ List.replicate (2 * (n - 1)) (-1), 0)

theorem rstrFindFrom_zero (rs : RStr) (s : Bytes) (n flg nd ngrps : Nat) :
    rstrFindFrom rs s 0 n flg nd ngrps = rstrFind rs s n flg nd ngrps := by
  unfold rstrFindFrom rstrFind
  cases rs.rs with
  | some r => rfl
  | none =>
    simp only []
    split
    · rfl
    · split
      · rfl
      · rename_i he
        have : max (if rs.lend = true then (s.length : Int) - (rs.str.getD []).length - 1 else 0) ((0 : Nat) : Int) =
            (if rs.lend = true then (s.length : Int) - (rs.str.getD []).length - 1 else 0) := by
          split <;> omega
        rw [this]
        rfl

/-- the compiled pattern makes no word-boundary test: no `\<`, `\>` instruction in the program of the
    engine; no `\<`, `\>` anchor on the literal -/
def ReCF (re : RStr) : Prop :=
  match re.rs with
  | some r => CodeAtoms (fun a => CFAtom a = true) r.prog.code
  | none => re.wbeg = false ∧ re.wend = false

/-- the program of the engine has no `^` (the literal path handles `^` through `RE_NOTBOL` alone) -/
def ReNoBeg (re : RStr) : Prop :=
  match re.rs with
  | some r => CodeAtoms (fun a => a.k ≠ AK.beg) r.prog.code
  | none => True

/-- the side condition on `^` -/
def ReBegOk (re : RStr) (line : Bytes) (k : Nat) : Prop := ReNoBeg re ∨ NlFree line k

theorem codeAtoms_ok {code : List Inst} {line : Bytes} {k : Nat} (h1 : CodeAtoms (fun a => CFAtom a = true) code)
    (h2 : CodeAtoms (fun a => a.k ≠ AK.beg) code ∨ NlFree line k) : CodeAtoms (AtomOk line k) code := by
  intro a ha
  refine ⟨h1 a ha, fun hb => ?_⟩
  rcases h2 with h2 | h2
  · exact absurd hb (h2 a ha)
  · exact h2

/-! ### the literal -/

theorem literalLoop_shift (rs : RStr) (lit s : Bytes) (k : Nat) (hwb : rs.wbeg = false) (hwe : rs.wend = false) :
    ∀ (f f' : Nat) (r e : Int), 0 ≤ r → (e - r + 1).toNat < f → (e - r + 1).toNat < f' →
      literalLoop rs lit s f' (r + k) (e + k) = (literalLoop rs lit (s.drop k) f r e).map (·.map (· + k)) := by
  intro f
  induction f with
  | zero => intro f' r e _ h; omega
  | succ f ih =>
    intro f' r e hr h1 h2
    cases f' with
    | zero => omega
    | succ f' =>
      rw [literalLoop, literalLoop]
      by_cases hre : r > e
      · rw [if_pos hre, if_pos (by omega)]; rfl
      · rw [if_neg hre, if_neg (by omega)]
        simp only [hwb, hwe, Bool.false_and, Bool.false_eq_true, if_false]
        have e1 : (r + (k : Int)).toNat = r.toNat + k := by omega
        rw [e1, drop_drop']
        split
        · rfl
        · rw [show r + (k : Int) + 1 = (r + 1) + k by omega]
          exact ih f' (r + 1) e (by omega) (by omega) (by omega)

/-- when the first candidate is already beyond the last one the loop finds nothing -/
theorem literalLoop_none (rs : RStr) (lit s : Bytes) (f : Nat) (r e : Int) (h : r > e) :
    literalLoop rs lit s (f + 1) r e = some none := by
  rw [literalLoop, if_pos h]

/-- **rstr_find on the rest = rstr_find on the whole line from `k`** -/
theorem rstrFind_shift (re : RStr) (line : Bytes) (k n nd ngrps : Nat) (hk : k ≤ line.length) (hk0 : 0 < k)
    (hcf : ReCF re) (hbeg : ReBegOk re line k) :
    rstrFindFrom re line k n 0 nd ngrps = (rstrFind re (line.drop k) n RE_NOTBOL nd ngrps).map (shiftF k) := by
  unfold rstrFindFrom rstrFind
  unfold ReCF at hcf
  unfold ReBegOk ReNoBeg at hbeg
  cases hrs : re.rs with
  | some r =>
    rw [hrs] at hcf hbeg
    exact find_shift r line k n nd ngrps hk hk0 (codeAtoms_ok hcf hbeg)
  | none =>
    rw [hrs] at hcf
    simp only [List.length_drop]
    have hnb : (RE_NOTBOL &&& RE_NOTBOL != 0) = true := by decide
    have hz : ((0 : Nat) &&& RE_NOTBOL != 0) = false := by decide
    rw [hnb, hz, Bool.and_false, Bool.and_true]
    generalize hlit : re.str.getD [] = lit
    by_cases hlb : re.lbeg = true
    · -- `^lit`: refused on the rest because of `RE_NOTBOL`; on the whole line the only candidate is byte 0 < k
      rw [if_pos hlb]
      split
      · rfl
      · rw [literalLoop_none]
        · split <;> rfl
        · have : (0 : Int) < k := by omega
          omega
    · rw [if_neg hlb]
      simp only [hlb, Bool.false_eq_true, if_false]
      by_cases heS : ((line.length - k : Nat) : Int) - lit.length - 1 < 0
      · -- nothing fits into the rest
        rw [if_pos heS]
        split
        · rfl
        · rename_i he
          rw [literalLoop_none]
          · rfl
          · split <;> omega
      · rw [if_neg heS, if_neg (by omega)]
        have hb : max (if re.lend = true then (line.length : Int) - lit.length - 1 else 0) (k : Int) =
            (if re.lend = true then ((line.length - k : Nat) : Int) - lit.length - 1 else 0) + k := by
          split <;> omega
        have he : (line.length : Int) - lit.length - 1 = (((line.length - k : Nat) : Int) - lit.length - 1) + k := by
          omega
        rw [hb, he, literalLoop_shift re lit line k hcf.1 hcf.2 (line.length - k + 2) (line.length + 2)
          _ _ (by split <;> omega) (by split <;> omega) (by split <;> omega)]
        cases literalLoop re lit (line.drop k) (line.length - k + 2)
            (if re.lend = true then ((line.length - k : Nat) : Int) - lit.length - 1 else 0)
            (((line.length - k : Nat) : Int) - lit.length - 1) with
        | none => rfl
        | some x =>
          cases x with
          | none => rfl
          | some r =>
            have h1 : shiftI k ((r : Nat) : Int) = ((r + k : Nat) : Int) := by
              unfold shiftI; split <;> omega
            have h2 : shiftI k ((r + lit.length : Nat) : Int) = ((r + k + lit.length : Nat) : Int) := by
              unfold shiftI; split <;> omega
            simp only [Option.map_some, shiftF, List.map_append, List.map_replicate, shiftI_neg1]
            split
            · simp only [List.map_cons, List.map_nil, h1, h2]
            · rfl

end Neatvi.Lemmas.C13b
