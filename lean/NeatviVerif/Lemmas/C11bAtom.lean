import NeatviVerif.Lemmas.C11bUtf8
import NeatviVerif.Lemmas.C11Range
/-!
# C11b, part 2: one atom leads from a character boundary to a character boundary
-/
namespace Neatvi.Props.C11b
open Neatvi Neatvi.Uc Neatvi.Regex Neatvi.Spec

/-- the literal of a `chr` atom is the encoding of valid code points -/
def StrictLit (s : Bytes) : Prop := ∃ ls, Valid ls ∧ s = encStr ls

/-- … or it starts with a continuation byte (the tail of a character the parser split: such a
    literal can never match at a character boundary of a valid subject) -/
def DeadLit (s : Bytes) : Prop := ∃ b r, s = b :: r ∧ Cont b

/-- a well-formed atom: only literals carry a condition (`.`, bracket sets and the anchors need
    none for the boundary property) -/
def WfAtom (a : Atom) : Prop := a.k = AK.chr → StrictLit a.s ∨ DeadLit a.s

/-- the strict form: every literal is the encoding of valid code points -/
def StrictAtom (a : Atom) : Prop := a.k = AK.chr → StrictLit a.s

theorem StrictAtom.wf {a : Atom} (h : StrictAtom a) : WfAtom a := fun hk => Or.inl (h hk)

/-- the ICASE literal comparison walks the subject by `uc_len` steps: from a boundary it stays on
    boundaries, whatever the literal is -/
theorem chrIcase_boundary {cs : List Nat} (hv : Valid cs) (lit : Bytes) : ∀ f k r pos',
    Boundary cs r → chrIcase lit (encStr cs) f k r = AR.ok pos' → Boundary cs pos' := by
  intro f
  induction f with
  | zero => intro k r pos' _ h; simp [chrIcase] at h
  | succ f ih =>
    intro k r pos' hr h
    rw [chrIcase] at h
    split at h
    · cases h
    · cases h; exact hr
    · split at h
      · split at h
        · cases h
        · exact ih _ _ _ (boundary_rx hv hr) h
      · cases h

/-- `ratom_match` on a valid subject, started at a character boundary, ends at a character
    boundary.  Only a literal compared without ICASE needs a hypothesis. -/
theorem atomMatch_boundary_aux (a : Atom) (cs : List Nat) (flg pos pos' : Nat) (hv : Valid cs)
    (hwf : a.k = AK.chr → hasFlag flg REG_ICASE = false → StrictLit a.s ∨ DeadLit a.s)
    (hp : Boundary cs pos)
    (h : atomMatch a (encStr cs) flg pos = AR.ok pos') : Boundary cs pos' := by
  have hx := boundary_rx hv hp
  unfold atomMatch at h
  split at h
  · cases h
  · rename_i cur hcur
    cases hk : a.k <;> simp only [hk] at h
    · -- chr
      split at h
      · rename_i hic
        split at h
        · rename_i heq
          have he := eq_of_beq heq
          cases h
          rcases hwf hk (by simpa using hic) with ⟨ls, hl, hs⟩ | ⟨b, r, hs, hb⟩
          · rw [hs] at he ⊢
            exact boundary_literal hv hl hp he
          · rw [hs] at he
            exact absurd he (boundary_dead hv hp hb)
        · cases h
      · exact chrIcase_boundary hv _ _ _ _ _ hp h
    · -- beg
      split at h
      · split at h
        · cases h
        · cases h; exact hp
      · split at h
        · split at h
          · cases h; exact hp
          · cases h
        · cases h
    · -- end
      split at h
      · split at h
        · cases h
        · cases h; exact hp
      · split at h
        · split at h
          · cases h; exact hp
          · cases h
        · cases h
    · -- any
      split at h
      · cases h
      · cases h; exact hx
    · -- brk
      split at h
      · cases h
      · split at h
        · cases h
        · split at h
          · cases h
          · cases h; exact hx
          · cases h
    · -- wbeg
      split at h
      · cases h; exact hp
      · cases h
    · -- wend
      split at h
      · cases h; exact hp
      · cases h

end Neatvi.Props.C11b
