import NeatviVerif.Props.C05e
import NeatviVerif.Props.C05f
import NeatviVerif.Lemmas.C20cVi
/-!
# C05h, part A: an ex command entered from vi (`exCommandV`) on a state whose editor is `Safe` (C05e)

`exCommandV` runs `ex_command` with 64 units of fuel (the `ex()` loop uses 200); the covered class of lines is the
one of C05e with that fuel: flat, or flat mixed with `:g` over local flat command lists, or plain with at most 15 `+`.
-/
set_option linter.unusedSimpArgs false
set_option linter.unusedVariables false
namespace Neatvi.Lemmas.C05h
open Neatvi Neatvi.Uc Neatvi.Lbuf Neatvi.Ex Neatvi.Mot Neatvi.Vi Neatvi.Rset
open Neatvi.Lemmas.C05e Neatvi.Lemmas.C05f

/-- a `:` line covered with the fuel `vi` gives `ex_command` (64): decidable -/
def ColonLineOk (l : Bytes) : Prop :=
  flatLine (l.length + 1) l = true ∨ gflatLine (l.length + 1) l = true ∨ (Plain l ∧ 4 * nest l + 4 ≤ 64)

/-- the part of the state C05e's theorems need: the editor is `Safe` (every buffer built by the lbuf API, a current
    buffer, the remembered pattern a C string) and no `:@` is running -/
def EdSafe (s : VS) : Prop := Safe s.ed ∧ s.ed.atDepth = 0

theorem command64_ok {ed : Ed} (h : Safe ed) (hd : ed.atDepth = 0) (l : Bytes) (hl : ColonLineOk l) :
    Ret 0 (exCommand 64 ed l) := by
  rcases hl with hfl | hfl | ⟨hp, hn⟩
  · have := exec_flat 60 h l hfl
    rw [hd] at this
    exact exCommand_of_exec this
  · have := exec_gflat 57 h l hfl
    rw [hd] at this
    exact exCommand_of_exec this
  · have := command_ret reSafe reGroups lineCond_plain 64 l h hp (by unfold need; rw [hd]; simp only [Nat.mul_zero, Nat.add_zero]; omega)
    rw [hd] at this
    exact this

/-- **`:` from vi on a covered line**: `exCommandV` returns, and the editor is `Safe` again, at depth 0 -/
theorem exCommandV_safe (ln : Bytes) (s : VS) (h : EdSafe s) (hl : ColonLineOk ln) :
    ∃ rc s', exCommandV ln s = Res.ok rc s' ∧ EdSafe s' := by
  rcases Lemmas.C20c.exCommandV_eq ln s with e | ⟨s1, hed, e⟩
  · rw [e]; exact ⟨_, _, rfl, h⟩
  · rw [e]
    unfold Lemmas.C20c.exCommandVCore
    rw [hed]
    obtain ⟨rc, ed1, he, h1, hd1⟩ := command64_ok (ed := { s.ed with out := [], msg := [], input := [], xvis := true })
      (h.1.of_bufs rfl) h.2 ln hl
    rw [he]
    exact ⟨_, _, rfl, h1, hd1⟩

theorem exCommandV_no_trap (ln : Bytes) (s : VS) (h : EdSafe s) (hl : ColonLineOk ln) : exCommandV ln s ≠ Res.trap := by
  obtain ⟨rc, s', he, _⟩ := exCommandV_safe ln s h hl
  rw [he]; exact fun h => by cases h

end Neatvi.Lemmas.C05h
