import NeatviVerif.Lemmas.C11VM
/-!
# C11, part 5: reported offsets lie inside the subject
-/
namespace Neatvi.Props.C11
open Neatvi Neatvi.Regex

/-! ## one atom advances inside the subject -/

theorem rxLen_le (s : Bytes) (i : Nat) : rxLen s i ≤ s.length - i := Nat.min_le_right _ _

/-- the ICASE literal comparison walks the subject forward and never over the terminator: each
    step adds `rxLen subj r ≤ subj.length - r` -/
theorem chrIcase_range (lit subj : Bytes) : ∀ f k r pos', r ≤ subj.length →
    chrIcase lit subj f k r = AR.ok pos' → r ≤ pos' ∧ pos' ≤ subj.length := by
  intro f
  induction f with
  | zero => intro k r pos' _ h; simp [chrIcase] at h
  | succ f ih =>
    intro k r pos' hr h
    rw [chrIcase] at h
    split at h
    · cases h
    · cases h; omega
    · split at h
      · split at h
        · cases h
        · have hx := rxLen_le subj r
          have := ih _ _ _ (by omega) h
          omega
      · cases h

/-- `ratom_match` never moves backwards and never steps over the terminator, for every atom and
    all flags -/
theorem atomMatch_range_aux (a : Atom) (subj : Bytes) (flg pos pos' : Nat) (hp : pos ≤ subj.length)
    (h : atomMatch a subj flg pos = AR.ok pos') : pos ≤ pos' ∧ pos' ≤ subj.length := by
  have hx := rxLen_le subj pos
  unfold atomMatch at h
  split at h
  · cases h
  · rename_i cur hcur
    cases hk : a.k <;> simp only [hk] at h
    · -- chr
      split at h
      · split at h
        · rename_i heq
          have hl := congrArg List.length (eq_of_beq heq)
          simp only [List.length_take, List.length_drop] at hl
          cases h
          omega
        · cases h
      · exact chrIcase_range _ _ _ _ _ _ hp h
    · -- beg
      split at h
      · split at h
        · cases h
        · cases h; omega
      · split at h
        · split at h
          · cases h; omega
          · cases h
        · cases h
    · -- end
      split at h
      · split at h
        · cases h
        · cases h; omega
      · split at h
        · split at h
          · cases h; omega
          · cases h
        · cases h
    · -- any
      split at h
      · cases h
      · cases h; omega
    · -- brk
      split at h
      · cases h
      · split at h
        · cases h
        · split at h
          · cases h
          · cases h; omega
          · cases h
    · -- wbeg
      split at h
      · cases h; omega
      · cases h
    · -- wend
      split at h
      · cases h; omega
      · cases h

/-! ## marks stay in range -/

/-- every mark is unset (`-1`) or an offset between `lo` and `hi` -/
def MarksOk (lo hi : Nat) (m : Marks) : Prop :=
  ∀ x ∈ m, x = -1 ∨ ((lo : Int) ≤ x ∧ x ≤ (hi : Int))

theorem marksOk_replicate (lo hi n : Nat) : MarksOk lo hi (List.replicate n (-1)) := by
  intro x hx
  exact Or.inl (List.mem_replicate.mp hx).2

theorem marksOk_set {lo hi : Nat} {m : Marks} (k pos : Nat) (h : MarksOk lo hi m) (h1 : lo ≤ pos)
    (h2 : pos ≤ hi) : MarksOk lo hi (m.set k (pos : Int)) := by
  intro x hx
  rcases List.mem_or_eq_of_mem_set hx with hx | hx
  · exact h x hx
  · subst hx; right; omega

variable (cx : Ctx)

/-- the hypothesis on atoms used by `offsets_in_range`: every atom of the program advances inside
    the subject -/
def AtomRange : Prop :=
  ∀ a, Inst.atom a ∈ cx.prog → ∀ pos pos', pos ≤ cx.subj.length →
    atomMatch a cx.subj cx.flg pos = AR.ok pos' → pos ≤ pos' ∧ pos' ≤ cx.subj.length

/-- it holds for every context -/
theorem atomRange_all : AtomRange cx :=
  fun a _ pos pos' hp hm => atomMatch_range_aux a cx.subj cx.flg pos pos' hp hm

theorem lt_of_getElem? {l : List Inst} {pc : Nat} {x : Inst} (h : l[pc]? = some x) : pc < l.length :=
  (List.getElem?_eq_some_iff.mp h).1

theorem loop_range (hat : AtomRange cx) (lo : Nat) :
    ∀ dep pc pos m cuts p' m' c', lo ≤ pos → pos ≤ cx.subj.length →
      MarksOk lo cx.subj.length m → loop cx dep pc pos m cuts = Res.ok p' m' c' →
      pos ≤ p' ∧ p' ≤ cx.subj.length ∧ MarksOk lo cx.subj.length m' := by
  apply loop_induction cx (fun dep pc => ∀ pos m cuts p' m' c', lo ≤ pos → pos ≤ cx.subj.length →
      MarksOk lo cx.subj.length m → loop cx dep pc pos m cuts = Res.ok p' m' c' →
      pos ≤ p' ∧ p' ≤ cx.subj.length ∧ MarksOk lo cx.subj.length m')
  intro dep pc ihd ihp pos m cuts p' m' c' hlo hhi hm h
  cases hi : cx.prog[pc]? with
  | none => rw [loop_none cx hi] at h; cases h
  | some inst =>
    have hpc := lt_of_getElem? hi
    cases inst with
    | atom a =>
      rw [loop_atom cx hi] at h
      split at h
      · cases h
      · cases h
      · rename_i pos1 heq
        have h1 := hat a (List.mem_of_getElem? hi) pos pos1 hhi heq
        have h2 := ihp (pc + 1) (by omega) hpc _ _ _ _ _ _ (by omega) h1.2 hm h
        exact ⟨by omega, h2.2⟩
    | mark k =>
      rw [loop_mark cx hi] at h
      refine ihp (pc + 1) (by omega) hpc _ _ _ _ _ _ hlo hhi ?_ h
      split
      · exact marksOk_set k pos hm hlo hhi
      · exact hm
    | jump a =>
      rw [loop_jump cx hi] at h
      split at h
      · rename_i hgt
        exact ihp a hgt hpc _ _ _ _ _ _ hlo hhi hm h
      · cases h
    | fork a1 a2 =>
      rw [loop_fork cx hi] at h
      split at h
      · rename_i p1 m1 c1 heq
        cases h
        rw [act_eq] at heq
        split at heq
        · cases heq
        · exact ihd a1 (by omega) _ _ _ _ _ _ hlo hhi hm heq
      · cases h
      · split at h
        · rename_i hgt
          exact ihp a2 hgt hpc _ _ _ _ _ _ hlo hhi hm h
        · cases h
    | mtch =>
      rw [loop_mtch cx hi] at h
      cases h
      exact ⟨Nat.le_refl _, hhi, hm⟩

theorem recmatch_range (hat : AtomRange cx) {start cuts pos : Nat} {m : Marks} {c : Nat}
    (hs : start ≤ cx.subj.length) (h : recmatch cx start cuts = Res.ok pos m c) :
    start ≤ pos ∧ pos ≤ cx.subj.length ∧ MarksOk start cx.subj.length m := by
  unfold recmatch at h
  rw [act_eq] at h
  split at h
  · cases h
  · exact loop_range cx hat start _ _ _ _ _ _ _ _ (Nat.le_refl _) hs (marksOk_replicate _ _ _) h

/-! ## the shape of compiled programs: `mark 0` first, `mark 1` just before `mtch` -/

/-- instructions of the body: no `mtch`, no mark below 2 -/
def BodyInst : Inst → Prop
  | .mtch => False
  | .mark k => 2 ≤ k
  | _ => True

/-- `mark 0`, then a body that only targets itself or the closing `mark 1`, then `mark 1; mtch` -/
def Shape (prog : List Inst) : Prop :=
  ∃ body, prog = [Inst.mark 0] ++ body ++ [Inst.mark 1, Inst.mtch] ∧
    SegOk body 1 1 (1 + body.length) ∧ ∀ x ∈ body, BodyInst x

theorem shape_get_zero {body : List Inst} :
    ([Inst.mark 0] ++ body ++ [Inst.mark 1, Inst.mtch])[0]? = some (Inst.mark 0) := by
  simp

theorem shape_get_body {body : List Inst} {pc : Nat} (h1 : 1 ≤ pc) (h2 : pc < 1 + body.length) :
    ([Inst.mark 0] ++ body ++ [Inst.mark 1, Inst.mtch])[pc]? = body[pc - 1]? := by
  rw [List.getElem?_append_left (by simp; omega), List.getElem?_append_right (by simp; omega)]
  simp

theorem shape_get_mark {body : List Inst} :
    ([Inst.mark 0] ++ body ++ [Inst.mark 1, Inst.mtch])[1 + body.length]? = some (Inst.mark 1) := by
  have hl : ([Inst.mark 0] ++ body).length = 1 + body.length := by
    rw [List.length_append, List.length_singleton]
  rw [List.getElem?_append_right (by omega), hl, Nat.sub_self]
  rfl

theorem shape_get_mtch {body : List Inst} :
    ([Inst.mark 0] ++ body ++ [Inst.mark 1, Inst.mtch])[1 + body.length + 1]? = some Inst.mtch := by
  have hl : ([Inst.mark 0] ++ body).length = 1 + body.length := by
    rw [List.length_append, List.length_singleton]
  rw [List.getElem?_append_right (by omega), hl,
    show 1 + body.length + 1 - (1 + body.length) = 1 by omega]
  rfl

theorem loop_shape (body : List Inst)
    (hprog : cx.prog = [Inst.mark 0] ++ body ++ [Inst.mark 1, Inst.mtch])
    (hseg : SegOk body 1 1 (1 + body.length)) (hbody : ∀ x ∈ body, BodyInst x)
    (hng : 2 ≤ cx.ngrps) (start : Int) :
    ∀ dep pc, 1 ≤ pc → pc ≤ 1 + body.length → ∀ pos m cuts p' m' c', 2 ≤ m.length →
      m[0]? = some start → loop cx dep pc pos m cuts = Res.ok p' m' c' →
      m'[0]? = some start ∧ m'[1]? = some (p' : Int) := by
  apply loop_induction cx (fun dep pc => 1 ≤ pc → pc ≤ 1 + body.length →
      ∀ pos m cuts p' m' c', 2 ≤ m.length →
      m[0]? = some start → loop cx dep pc pos m cuts = Res.ok p' m' c' →
      m'[0]? = some start ∧ m'[1]? = some (p' : Int))
  intro dep pc ihd ihp h1 h2 pos m cuts p' m' c' hlen h0 h
  have hplen : cx.prog.length = body.length + 3 := by rw [hprog]; simp
  have hpc : pc < cx.prog.length := by omega
  by_cases hlast : pc = 1 + body.length
  · -- the closing `mark 1`, then `mtch`
    have hi : cx.prog[pc]? = some (Inst.mark 1) := by rw [hprog, hlast]; exact shape_get_mark
    have hi2 : cx.prog[pc + 1]? = some Inst.mtch := by rw [hprog, hlast]; exact shape_get_mtch
    rw [loop_mark cx hi, loop_mtch cx hi2, if_pos (by omega)] at h
    cases h
    exact ⟨by rw [List.getElem?_set_ne (by omega)]; exact h0, List.getElem?_set_self (by omega)⟩
  · have hlt : pc < 1 + body.length := by omega
    have hget : cx.prog[pc]? = body[pc - 1]? := by rw [hprog]; exact shape_get_body h1 hlt
    obtain ⟨inst, hbi⟩ : ∃ inst, body[pc - 1]? = some inst :=
      ⟨_, List.getElem?_eq_getElem (by omega)⟩
    have hi : cx.prog[pc]? = some inst := by rw [hget, hbi]
    have hmem : inst ∈ body := List.mem_of_getElem? hbi
    have hB := hbody inst hmem
    have hS := hseg (pc - 1) inst hbi
    rw [show 1 + (pc - 1) = pc by omega] at hS
    cases inst with
    | atom a =>
      rw [loop_atom cx hi] at h
      split at h
      · cases h
      · cases h
      · exact ihp (pc + 1) (by omega) hpc (by omega) (by omega) _ _ _ _ _ _ hlen h0 h
    | mark k =>
      simp only [BodyInst] at hB
      rw [loop_mark cx hi] at h
      refine ihp (pc + 1) (by omega) hpc (by omega) (by omega) _ _ _ _ _ _ ?_ ?_ h
      · split
        · rw [List.length_set]; exact hlen
        · exact hlen
      · split
        · rw [List.getElem?_set_ne (by omega)]; exact h0
        · exact h0
    | jump a =>
      simp only [InstOk] at hS
      rw [loop_jump cx hi] at h
      split at h
      · exact ihp a (by omega) hpc (by omega) (by omega) _ _ _ _ _ _ hlen h0 h
      · cases h
    | fork a1 a2 =>
      simp only [InstOk] at hS
      rw [loop_fork cx hi] at h
      split at h
      · rename_i p1 m1 c1 heq
        cases h
        rw [act_eq] at heq
        split at heq
        · cases heq
        · exact ihd a1 (by omega) (by omega) (by omega) _ _ _ _ _ _ hlen h0 heq
      · cases h
      · split at h
        · exact ihp a2 (by omega) hpc (by omega) (by omega) _ _ _ _ _ _ hlen h0 h
        · cases h
    | mtch => exact absurd hB (by simp [BodyInst])

theorem recmatch_shape (hshape : Shape cx.prog) (hng : 2 ≤ cx.ngrps) {start cuts pos : Nat}
    {m : Marks} {c : Nat} (h : recmatch cx start cuts = Res.ok pos m c) :
    m[0]? = some (start : Int) ∧ m[1]? = some (pos : Int) := by
  obtain ⟨body, hprog, hseg, hbody⟩ := hshape
  unfold recmatch at h
  rw [act_eq] at h
  split at h
  · cases h
  · have hi : cx.prog[0]? = some (Inst.mark 0) := by rw [hprog]; exact shape_get_zero
    rw [loop_mark cx hi, if_pos (by omega)] at h
    refine loop_shape cx body hprog hseg hbody hng start 1 1 (Nat.le_refl _) (by omega)
      _ _ _ _ _ _ ?_ ?_ h
    · simp; omega
    · rw [List.getElem?_set_self (by simp; omega)]

/-! ## compiled programs have that shape -/

/-- every group number is at least `n` -/
def GrpGe (n : Nat) : RNode → Prop
  | .nul => True
  | .atom _ _ _ => True
  | .cat a b => GrpGe n a ∧ GrpGe n b
  | .alt a b => GrpGe n a ∧ GrpGe n b
  | .grp a g _ _ => n ≤ g ∧ GrpGe n a

theorem grpGe_mono {n n' : Nat} (hn : n ≤ n') (t : RNode) : GrpGe n' t → GrpGe n t := by
  induction t with
  | nul => intro h; exact h
  | atom a mn mx => intro h; exact h
  | cat a b iha ihb => intro h; exact ⟨iha h.1, ihb h.2⟩
  | alt a b iha ihb => intro h; exact ⟨iha h.1, ihb h.2⟩
  | grp a g mn mx iha => intro h; exact ⟨Nat.le_trans hn h.1, iha h.2⟩

theorem grpnum_grpGe (t : RNode) : ∀ num, GrpGe num (grpnum t num).1 := by
  induction t with
  | nul => intro num; trivial
  | atom a mn mx => intro num; trivial
  | cat a b iha ihb =>
    intro num
    exact ⟨iha num, grpGe_mono (Nat.le_add_right _ _) _ (ihb _)⟩
  | alt a b iha ihb =>
    intro num
    exact ⟨iha num, grpGe_mono (Nat.le_add_right _ _) _ (ihb _)⟩
  | grp a g mn mx iha =>
    intro num
    exact ⟨Nat.le_refl _, grpGe_mono (Nat.le_add_right _ _) _ (iha _)⟩

theorem mem_emitCopies (Q : Inst → Prop) (body : Nat → List Inst) (bl : Nat)
    (hb : ∀ b, ∀ x ∈ body b, Q x) : ∀ k base, ∀ x ∈ emitCopies body bl k base, Q x := by
  intro k
  induction k with
  | zero => intro base x hx; simp [emitCopies] at hx
  | succ k ih =>
    intro base x hx
    simp only [emitCopies, List.mem_append] at hx
    rcases hx with hx | hx
    · exact hb _ x hx
    · exact ih _ x hx

theorem mem_emitOpts (Q : Inst → Prop) (body : Nat → List Inst) (bl endA : Nat)
    (hf : ∀ a b, Q (Inst.fork a b))
    (hb : ∀ b, ∀ x ∈ body b, Q x) : ∀ k base, ∀ x ∈ emitOpts body bl endA k base, Q x := by
  intro k
  induction k with
  | zero => intro base x hx; simp [emitOpts] at hx
  | succ k ih =>
    intro base x hx
    simp only [emitOpts, List.mem_append, List.mem_singleton] at hx
    rcases hx with (hx | hx) | hx
    · subst hx; exact hf _ _
    · exact hb _ x hx
    · exact ih _ x hx

theorem mem_ite {Q : Inst → Prop} {c : Prop} [Decidable c] {y x : Inst} (hy : Q y)
    (hx : x ∈ (if c then [y] else [])) : Q x := by
  split at hx
  · simp at hx; subst hx; exact hy
  · simp at hx

theorem mem_emitRep (Q : Inst → Prop) (body : Nat → List Inst) (bl : Nat) (mn mx : Int) (base : Nat)
    (hf : ∀ a b, Q (Inst.fork a b))
    (hb : ∀ b, ∀ x ∈ body b, Q x) : ∀ x ∈ emitRep body bl mn mx base, Q x := by
  intro x hx
  unfold emitRep at hx
  split at hx
  · simp at hx
  · split at hx
    · exact hb _ x hx
    · dsimp only at hx
      simp only [List.mem_append] at hx
      rcases hx with ((hx | hx) | hx) | hx
      · exact mem_ite (hf _ _) hx
      · exact mem_emitCopies Q body bl hb _ _ x hx
      · exact mem_ite (hf _ _) hx
      · exact mem_emitOpts Q body bl _ hf hb _ _ x hx

theorem emit_bodyInst (t : RNode) : GrpGe 1 t → ∀ base, ∀ x ∈ emit t base, BodyInst x := by
  induction t with
  | nul => intro _ base x hx; simp [emit] at hx
  | atom a mn mx =>
    intro _ base x hx
    simp only [emit] at hx
    refine mem_emitRep BodyInst _ 1 mn mx base (fun _ _ => trivial) (fun b y hy => ?_) x hx
    simp at hy; subst hy; trivial
  | cat a b iha ihb =>
    intro h base x hx
    simp only [emit, List.mem_append] at hx
    rcases hx with hx | hx
    · exact iha h.1 _ x hx
    · exact ihb h.2 _ x hx
  | alt a b iha ihb =>
    intro h base x hx
    simp only [emit, List.mem_append, List.mem_singleton] at hx
    rcases hx with ((hx | hx) | hx) | hx
    · subst hx; trivial
    · exact iha h.1 _ x hx
    · subst hx; trivial
    · exact ihb h.2 _ x hx
  | grp a g mn mx iha =>
    intro h base x hx
    simp only [emit] at hx
    refine mem_emitRep BodyInst _ (emitLen a + 2) mn mx base (fun _ _ => trivial)
      (fun b y hy => ?_) x hx
    simp only [List.mem_append, List.mem_singleton] at hy
    have hg := h.1
    rcases hy with (hy | hy) | hy
    · subst hy; simp only [BodyInst]; omega
    · exact iha h.2 _ y hy
    · subst hy; simp only [BodyInst]; omega

theorem regcomp_shape_aux {p : Bytes} {flg : Nat} {prog : Prog}
    (h : regcomp p flg = some (some prog)) : Shape prog.code := by
  unfold regcomp at h
  split at h
  · cases h
  · cases h
  · rename_i t ht
    split at h
    · cases h
    simp only [Option.some.injEq] at h
    subst h
    refine ⟨emit (grpnum t 1).1 1, rfl, ?_, emit_bodyInst _ (grpnum_grpGe t 1) 1⟩
    rw [emit_length_aux]
    exact segOk_emit _ 1

end Neatvi.Props.C11
