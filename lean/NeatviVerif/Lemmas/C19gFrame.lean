import NeatviVerif.Lemmas.C19fMain
import NeatviVerif.Lemmas.C20cRun
/-!
# C19g helper lemmas, part 1: the ex layer and `xleft` — frames

`LP P ed`: `xleft` and every `left` saved in the buffer table have the property `P` (`C19f.LOk` is
`LP (0 ≤ ·)`).  `LK P a b` says the step from `a` to `b` keeps it.  The ex layer writes `xleft` in one
place only, `bufs_load()` (from the saved `left` of the buffer that becomes current, or 0), and a
saved `left` in two, `bufs_save()` (from `xleft`) and `bufs_init()` (0).  Hence `LP P` is kept whenever
`P 0` (`HasZero P`).  Everything else leaves both alone:

* `SameL a b`: the buffer table and `xleft` are untouched (address parser, path expansion, `:se`, the
  message and output functions);
* `Quiet` (C20c: sequence counters only) and `IoOnly` (C20c: the file system only) steps;
* updates of the line buffer of the current entry (`setLb`, `Ed.edit`) and of the current record that
  keep its `left` (`lk_setCur`);
* the table operations `bufs_switch`, `bufs_open`, `bufs_shift`, the fresh buffer of `:b !`, `:b ~`.
-/
set_option linter.unusedSimpArgs false
set_option linter.unusedVariables false

namespace Neatvi.Lemmas.C19g
open Neatvi Neatvi.Lbuf Neatvi.Ex Neatvi.Rset
open Neatvi.Lemmas.C19f (LOk lOk_setLb lOk_edit)
open Neatvi.Lemmas.C20c (Quiet IoOnly coreB)
open Neatvi.Lemmas.ExFrame

/-- `xleft` and every `left` saved in the buffer table have the property `P`.  `LOk` is
    `LP (0 ≤ ·)`; `LP (· = 0)` says the window has never been scrolled sideways in any buffer. -/
def LP (P : Int → Prop) (ed : Ed) : Prop := P ed.xleft ∧ ∀ bf, some bf ∈ ed.bufs → P bf.left

/-- a property of `xleft` values that 0 has: the ex layer creates the value 0 (a new buffer, an empty
    slot becoming current) and otherwise only copies `xleft` into the table and back -/
class HasZero (P : Int → Prop) : Prop where
  zero : P 0

instance : HasZero (fun x : Int => 0 ≤ x) := ⟨Int.le_refl 0⟩
instance : HasZero (fun x : Int => x = 0) := ⟨rfl⟩

theorem lOk_iff (ed : Ed) : LOk ed ↔ LP (fun x : Int => 0 ≤ x) ed := Iff.rfl

/-- the step from `a` to `b` keeps `LP P` -/
def LK (P : Int → Prop) (a b : Ed) : Prop := LP P a → LP P b

variable {P : Int → Prop}

theorem LK.refl (a : Ed) : LK P a a := fun h => h
theorem LK.trans {a b c : Ed} (h1 : LK P a b) (h2 : LK P b c) : LK P a c := fun h => h2 (h1 h)

/-- the buffer table and `xleft` are the same -/
def SameL (a b : Ed) : Prop := b.bufs = a.bufs ∧ b.xleft = a.xleft

theorem SameL.refl (a : Ed) : SameL a a := ⟨rfl, rfl⟩
theorem SameL.trans {a b c : Ed} (h1 : SameL a b) (h2 : SameL b c) : SameL a c :=
  ⟨h2.1.trans h1.1, h2.2.trans h1.2⟩

theorem LK.of_same {a b : Ed} (h : SameL a b) : LK P a b := by
  intro hl
  unfold LP at *
  rw [h.1, h.2]
  exact hl

theorem LK.same {a b c : Ed} (h1 : LK P a b) (h2 : SameL b c) : LK P a c := h1.trans (LK.of_same h2)

theorem LK.to {a b c : Ed} (h1 : LK P a b) (hb : c.bufs = b.bufs) (hx : c.xleft = b.xleft) : LK P a c :=
  h1.same ⟨hb, hx⟩

theorem LK.ite {a x y : Ed} (c : Prop) [Decidable c] (hx : LK P a x) (hy : LK P a y) :
    LK P a (if c then x else y) := by
  split <;> assumption

/-! ### the current entry -/


theorem cur_mem {ed : Ed} {b : Buf} (hc : ed.cur = some b) : some b ∈ ed.bufs := by
  unfold Ed.cur at hc
  rw [List.getD_eq_getElem?_getD] at hc
  cases hg : ed.bufs[0]? with
  | none => rw [hg] at hc; cases hc
  | some x =>
    rw [hg] at hc
    simp only [Option.getD_some] at hc
    rw [← hc]
    exact List.mem_of_getElem? hg

/-- an update of the current record that keeps its saved `left` -/
theorem lk_setCur {ed : Ed} {b b' : Buf} (hc : ed.cur = some b) (hl : b'.left = b.left) : LK P ed (ed.setCur b') := by
  intro h
  refine ⟨h.1, fun bf hbf => ?_⟩
  unfold Ed.setCur at hbf
  rcases List.mem_or_eq_of_mem_set hbf with h1 | h1
  · exact h.2 bf h1
  · cases h1
    rw [hl]
    exact h.2 b (cur_mem hc)

theorem lk_setLb (ed : Ed) (lb : Lb) : LK P ed (ed.setLb lb) := by
  unfold Ed.setLb
  cases hc : ed.cur with
  | none => exact LK.refl _
  | some b => exact lk_setCur (b := b) (b' := { b with lb := lb }) hc rfl

theorem lk_edit {ed ed' : Ed} {s : Option Bytes} {b e : Int} (h : ed.edit s b e = some ed') : LK P ed ed' := by
  obtain ⟨_, _, lb, lb', _, _, he, _⟩ := Ed_edit_some h
  rw [he]; exact lk_setLb ed lb'

/-! ### quiet steps, the file system -/

theorem getD_mem_some {α : Type} {l : List (Option α)} {i : Nat} {x : α} (h : l.getD i none = some x) : some x ∈ l := by
  rw [List.getD_eq_getElem?_getD] at h
  cases hg : l[i]? with
  | none => rw [hg] at h; cases h
  | some y =>
    rw [hg] at h
    simp only [Option.getD_some] at h
    rw [← h]
    exact List.mem_of_getElem? hg

theorem lk_quiet {a b : Ed} (h : Quiet a b) : LK P a b := by
  intro hl
  refine ⟨by rw [h.xleft]; exact hl.1, fun bf hbf => ?_⟩
  obtain ⟨i, hi, hget⟩ := List.getElem_of_mem hbf
  have hg' : b.bufs.getD i none = some bf := by
    rw [List.getD_eq_getElem?_getD, List.getElem?_eq_getElem hi, hget]; rfl
  have hq := h.getD i
  rw [hg'] at hq
  cases ha : a.bufs.getD i none with
  | none => rw [ha] at hq; cases hq
  | some x =>
    rw [ha] at hq
    simp only [Option.map_some, Option.some.injEq] at hq
    have hlf : (coreB bf).left = (coreB x).left := by rw [hq]
    have : bf.left = x.left := hlf
    rw [this]
    exact hl.2 x (getD_mem_some ha)

theorem sameL_io {a b : Ed} (h : IoOnly a b) : SameL a b := ⟨h.same.1, h.view.2.2.2.1⟩

theorem lk_io {a b : Ed} (h : IoOnly a b) : LK P a b := LK.of_same (sameL_io h)

/-! ### `SameL`: the address parser, the path expansion, the small helpers -/

/-- as `same_split` of `Lemmas/C20cFrame.lean` -/
macro "samel_split" h:ident : tactic => `(tactic| (
  repeat' (split at $h:ident)
  all_goals (try (simp only [Option.some.injEq, Prod.mk.injEq, reduceCtorEq] at $h:ident))
  all_goals (try (have h2 := And.right $h:ident; subst h2))
  all_goals (first | exact ⟨rfl, rfl⟩ | skip)))

theorem exSearch_sameL {ed ed' : Ed} {loc : Bytes} {r : Int × Bytes}
    (h : exSearch ed loc = some (r, ed')) : SameL ed ed' := by
  unfold exSearch at h
  simp only [] at h
  samel_split h

theorem exLineno_sameL {ed ed' : Ed} {loc : Bytes} {r : Int × Bytes}
    (h : exLineno ed loc = some (r, ed')) : SameL ed ed' := by
  unfold exLineno at h
  simp only [] at h
  split at h
  · cases h
  · rename_i n rest ed1 hb
    have h1 : SameL ed ed1 := by
      samel_split hb
      rename_i hs _
      exact exSearch_sameL hs
      rename_i hs _
      exact exSearch_sameL hs
    samel_split h
    all_goals exact h1

theorem exRegion_go_sameL : ∀ (f : Nat) (ed : Ed) (loc : Bytes) (na : Nat) (b e : Int) (r : Int × Int) (ed' : Ed),
    exRegion.go f ed loc na b e = some (r, ed') → SameL ed ed' := by
  intro f
  induction f with
  | zero => intro ed loc na b e r ed' h; rw [exRegion.go] at h; cases h; exact SameL.refl _
  | succ f ih =>
    intro ed loc na b e r ed' h
    rw [exRegion.go] at h
    simp only [] at h
    split at h
    · cases h; exact SameL.refl _
    · split at h
      · cases h
      · rename_i n rest ed1 hl
        have h1 := exLineno_sameL hl
        split at h
        · cases h; exact h1
        · split at h
          · cases h; exact h1
          · have := ih _ _ _ _ _ _ _ h
            refine SameL.trans ?_ this
            split
            · exact ⟨h1.1, h1.2⟩
            · exact h1

theorem exRegion_sameL {ed ed' : Ed} {loc : Bytes} {r : Nat × Int × Int}
    (h : exRegion ed loc = some (r, ed')) : SameL ed ed' := by
  unfold exRegion at h
  simp only [] at h
  split at h
  · cases h; exact SameL.refl _
  · split at h
    · cases h; exact SameL.refl _
    · split at h
      · cases h
      · rename_i hg
        have h1 := exRegion_go_sameL _ _ _ _ _ _ _ _ hg
        samel_split h
        all_goals exact h1

theorem pathExpand_sameL {ed ed' : Ed} {src : Bytes} {sp : Bool} {r : Option Bytes}
    (h : pathExpand ed src sp = some (r, ed')) : SameL ed ed' := by
  unfold pathExpand at h
  samel_split h

theorem setOpt_sameL (ed : Ed) (v : String) (val : Int) : SameL ed (setOpt ed v val) := by
  unfold setOpt
  repeat' split
  all_goals exact ⟨rfl, rfl⟩

theorem exTxt_sameL (ed : Ed) (src ex : Bytes) : SameL ed (exTxt ed src ex).2 := by
  unfold exTxt
  simp only []
  repeat' split
  all_goals exact ⟨rfl, rfl⟩

theorem foldl_print_sameL (b : Int) : ∀ (l : List Nat) (ed : Ed),
    SameL ed (l.foldl (fun (ed : Ed) (k : Nat) => match ed.line (b + (k : Int)) with | some l => ed.print l | none => ed) ed) := by
  intro l
  induction l with
  | nil => intro ed; exact SameL.refl _
  | cons k l ih =>
    intro ed
    rw [List.foldl_cons]
    refine SameL.trans ?_ (ih _)
    split <;> exact ⟨rfl, rfl⟩

theorem globPrep_sameL (ed : Ed) (arg : Bytes) : SameL ed (Props.C15.globPrep ed arg) := by
  unfold Props.C15.globPrep
  repeat' split
  all_goals exact ⟨rfl, rfl⟩

theorem substPrep_sameL (ed : Ed) (arg : Bytes) : SameL ed (Props.C14.substPrep ed arg).1 := by
  unfold Props.C14.substPrep
  simp only []
  repeat' split
  all_goals exact ⟨rfl, rfl⟩

/-! ### the unsaved-changes checks -/

theorem lk_bufsModified {ed ed' : Ed} {idx : Nat} {msg : Option Bytes} {r : Bool}
    (h : bufsModified ed idx msg = some (r, ed')) : LK P ed ed' := lk_quiet (C20c.quiet_bufsModified h)

theorem lk_guard {ed ed' : Ed} {c : Prop} [Decidable c] {idx : Nat} {msg : Option Bytes} {r : Bool}
    (h : (if c then bufsModified ed idx msg else some (false, ed) : R Bool) = some (r, ed')) : LK P ed ed' :=
  lk_quiet (C20c.quiet_guard h)

theorem lk_modifiedAt (ed : Ed) (i : Nat) : LK P ed (ed.modifiedAt i).2 := lk_quiet (C20c.quiet_modifiedAt ed i)

/-! ### the table operations -/

/-- `bufs_save()`: the saved `left` of the current entry becomes `xleft` -/
theorem lk_bufsSave (ed : Ed) : LK P ed ed.bufsSave := by
  intro h
  unfold Ed.bufsSave
  cases hc : ed.cur with
  | none => exact h
  | some b =>
    refine ⟨h.1, fun bf hbf => ?_⟩
    unfold Ed.setCur at hbf
    rcases List.mem_or_eq_of_mem_set hbf with h1 | h1
    · exact h.2 bf h1
    · cases h1
      exact h.1

/-- `bufs_load()`: `xleft` becomes the saved `left` of the current entry, or 0 -/
theorem lk_bufsLoad [HasZero P] (ed : Ed) : LK P ed ed.bufsLoad := by
  intro h
  unfold Ed.bufsLoad
  cases hc : ed.cur with
  | none => exact ⟨HasZero.zero, h.2⟩
  | some b => exact ⟨h.2 b (cur_mem hc), h.2⟩

/-- a table made of entries of the old one (and empty slots), `xleft` kept -/
theorem lOk_of_sub {a b : Ed} (hx : b.xleft = a.xleft) (hsub : ∀ bf, some bf ∈ b.bufs → some bf ∈ a.bufs) : LK P a b :=
  fun h => ⟨by rw [hx]; exact h.1, fun bf hbf => h.2 bf (hsub bf hbf)⟩

theorem lk_leave (e1 : Ed) : LK P e1 (C02Ex.leave e1) := by
  unfold C02Ex.leave
  cases hb : e1.bufs.getD 0 none with
  | none => exact LK.refl _
  | some b => exact lk_setCur (b := b) (b' := { b with lb := (Lbuf.modified b.lb).2 }) hb rfl

/-- `bufs_switch(idx)` -/
theorem lk_bufsSwitch [HasZero P] (ed : Ed) (idx : Nat) : LK P ed (ed.bufsSwitch idx) := by
  rw [C02Ex.bufsSwitch_eq]
  refine LK.trans ((lk_bufsSave ed).trans (lk_leave _)) ?_
  generalize C02Ex.leave ed.bufsSave = e2
  refine LK.trans ?_ (lk_bufsLoad _)
  refine lOk_of_sub rfl ?_
  intro bf hbf
  simp only [List.cons_append, List.nil_append, List.mem_cons, List.mem_append] at hbf
  rcases hbf with h1 | h1 | h1
  · exact getD_mem_some h1.symm
  · exact List.mem_of_mem_take h1
  · exact List.mem_of_mem_drop h1

/-- `bufs_open(path)`: the new entry has `left = 0` -/
theorem lk_bufsOpen [HasZero P] (ed : Ed) (p : Bytes) : LK P ed (ed.bufsOpen p).2 := by
  intro h
  unfold Ed.bufsOpen
  refine ⟨h.1, fun bf hbf => ?_⟩
  rcases List.mem_or_eq_of_mem_set hbf with h1 | h1
  · exact h.2 bf h1
  · cases h1
    exact HasZero.zero

/-- `bufs_shift()` -/
theorem lk_bufsShift [HasZero P] (ed : Ed) : LK P ed ed.bufsShift := by
  unfold Ed.bufsShift
  refine LK.trans ?_ (lk_bufsLoad _)
  refine lOk_of_sub rfl ?_
  intro bf hbf
  simp only [List.mem_append, List.mem_singleton, reduceCtorEq, or_false] at hbf
  exact List.mem_of_mem_drop hbf

/-- the fresh buffer of `:b !` -/
theorem lk_fresh [HasZero P] (ed : Ed) : LK P ed { ed with bufs := ed.bufs.set 0 (some (Props.C20b.freshBuf ed)), bufsCnt := ed.bufsCnt + 1 } := by
  intro h
  refine ⟨h.1, fun bf hbf => ?_⟩
  rcases List.mem_or_eq_of_mem_set hbf with h1 | h1
  · exact h.2 bf h1
  · cases h1
    exact HasZero.zero

theorem lk_delEd [HasZero P] (ed : Ed) : LK P ed (Props.C20b.delEd ed) := by
  unfold Props.C20b.delEd
  split
  · exact (lk_bufsShift ed).trans (lk_fresh _)
  · exact lk_bufsShift ed

theorem renum_mem (bf : Buf) : ∀ (L : List (Option Buf)) (acc : List (Option Buf)) (k : Int),
    some bf ∈ (L.foldl C20b.renumStep (acc, k)).1 →
      some bf ∈ acc ∨ ∃ x, some x ∈ L ∧ bf.left = x.left := by
  intro L
  induction L with
  | nil => intro acc k h; exact Or.inl h
  | cons y L ih =>
    intro acc k h
    rw [List.foldl_cons] at h
    cases y with
    | none =>
      rcases ih _ _ h with h1 | ⟨x, hx, hl⟩
      · simp only [C20b.renumStep, List.mem_append, List.mem_singleton, reduceCtorEq, or_false] at h1
        exact Or.inl h1
      · exact Or.inr ⟨x, List.mem_cons_of_mem _ hx, hl⟩
    | some z =>
      rcases ih _ _ h with h1 | ⟨x, hx, hl⟩
      · simp only [C20b.renumStep, List.mem_append, List.mem_singleton, Option.some.injEq] at h1
        rcases h1 with h1 | h1
        · exact Or.inl h1
        · exact Or.inr ⟨z, List.mem_cons_self, by rw [h1]⟩
      · exact Or.inr ⟨x, List.mem_cons_of_mem _ hx, hl⟩

/-- `:b ~` changes numbers only -/
theorem lk_renum (ed : Ed) : LK P ed (Props.C20b.renumEd ed) := by
  intro h
  unfold Props.C20b.renumEd
  refine ⟨h.1, fun bf hbf => ?_⟩
  rcases renum_mem bf ed.bufs [] 0 hbf with h1 | ⟨x, hx, hl⟩
  · cases h1
  · rw [hl]; exact h.2 x hx

end Neatvi.Lemmas.C19g
