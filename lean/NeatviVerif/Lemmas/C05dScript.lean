import NeatviVerif.Lemmas.C05dRun
import NeatviVerif.Props.C02
/-!
# C05d lemmas, part 6: the `ex()` loop, `ex_init`, whole scripts; `AddrFits` from the invariant
-/
namespace Neatvi.Lemmas.C05d
open Neatvi Neatvi.Lbuf Neatvi.LbufIo Neatvi.Ex Neatvi.Rset Neatvi.Lemmas.ExFrame Neatvi.Lemmas.C02Ex
open Neatvi.Props.C02.Ex (exRun)

variable {M : Option Int}

/-! ### the three entry points with fuel, the side condition stated on the visited states -/

theorem exCommand_pos' {f : Nat} {ed ed' : Ed} {ln : Bytes} {r : Int} (hi : PosOk M ed)
    (h : exCommand f ed ln = some (r, ed')) (hv : ∀ s, VCommand f ed ln s → LenLe M s.len) :
    PosOk M ed' ∧ ∀ s, VCommand f ed ln s → PosOk M s :=
  (all_ok M f).2.1 _ _ _ _ hi h hv

theorem exExec_pos' {f : Nat} {ed ed' : Ed} {ln : Bytes} {r : Int} (hi : PosOk M ed)
    (h : exExec f ed ln = some (r, ed')) (hv : ∀ s, VExec f ed ln s → LenLe M s.len) :
    PosOk M ed' ∧ ∀ s, VExec f ed ln s → PosOk M s :=
  (all_ok M f).1 _ _ _ _ hi h hv

theorem runCmd_pos' {f : Nat} {ed ed' : Ed} {hd : String} {loc cmd arg : Bytes} {txt : Option Bytes} {r : Int}
    (hi : PosOk M ed) (h : runCmd f ed hd loc cmd arg txt = some (r, ed')) (hl : LenLe M ed'.len)
    (hv : ∀ s, VRun f ed hd loc cmd arg txt s → LenLe M s.len) :
    PosOk M ed' ∧ ∀ s, VRun f ed hd loc cmd arg txt s → PosOk M s :=
  (all_ok M f).2.2.1 _ _ _ _ _ _ _ _ hi h hl hv

theorem ecEdit_pos' {f : Nat} {ed ed' : Ed} {cmd arg : Bytes} {r : Int} (hi : PosOk M ed)
    (h : ecEdit f ed cmd arg = some (r, ed')) (hv : ∀ s, VEdit f ed cmd arg s → LenLe M s.len) :
    PosOk M ed' ∧ ∀ s, VEdit f ed cmd arg s → PosOk M s := by
  cases f with
  | zero => rw [ecEdit] at h; cases h
  | succ f => exact ecEdit_pos f (all_ok M f).2.1 ed ed' cmd arg r hi h hv

/-- the handlers that call no command line of their own visit nothing -/
theorem vrun_atomic {f : Nat} {ed : Ed} {hd : String} {loc cmd arg : Bytes} {txt : Option Bytes} {s : Ed}
    (h1 : hd ≠ "ec_at") (h2 : hd ≠ "ec_glob") (h3 : hd ≠ "ec_edit") : ¬ VRun f ed hd loc cmd arg txt s := by
  intro hv
  cases hv with
  | «at» _ => exact h1 rfl
  | glob _ => exact h2 rfl
  | edit _ => exact h3 rfl

/-! ### one round of the `ex()` loop -/

/-- the state in which `exStep` calls `ex_command` on the line it read -/
def stepStart (ed : Ed) (rest : List Bytes) : Ed := { ed with input := rest, out := [], msg := [], calls := 0, fired := 0 }

/-- visited during one round of the `ex()` loop -/
inductive VStep : Ed → Ed → Prop
  | line {ed : Ed} {ln : Bytes} {rest : List Bytes} {s : Ed} : ed.input = ln :: rest →
      VCommand FUEL (stepStart ed rest) ln s → VStep ed s

theorem exStep_pos {ed ed' : Ed} {r : Int} (hi : PosOk M ed) (h : exStep ed = some (r, ed'))
    (hv : ∀ s, VStep ed s → LenLe M s.len) : PosOk M ed' ∧ ∀ s, VStep ed s → PosOk M s := by
  unfold exStep at h
  split at h
  · cases h
  · rename_i ln rest hin
    simp only [] at h
    split at h
    · cases h
    · rename_i r1 ed1 hc
      cases h
      obtain ⟨p1, q1⟩ := exCommand_pos' (ed := stepStart ed rest) (hi.to rfl rfl rfl) hc
        (fun s hs => hv s (VStep.line hin hs))
      refine ⟨p1.to rfl rfl rfl, ?_⟩
      intro s hs
      cases hs with
      | line hin' hs' =>
        rw [hin] at hin'
        cases hin'
        exact q1 s hs'

/-! ### `ex_init` -/

/-- the state before `ex_init`: an empty buffer table, row and column `0` -/
theorem posOk_start (ed0 : Ed) (n : Nat) (hcap : ∀ m, M = some m → NUMMAX ≤ m) (h0 : ed0.bufs = List.replicate n none)
    (hr : ed0.xrow = 0) (ho : ed0.xoff = 0) : PosOk M ed0 := by
  refine ⟨hcap, ?_, by rw [ho]; exact Int.le_refl 0, by rw [h0]; exact tabPos_replicate n⟩
  rw [hr]
  exact ⟨by decide, fun m hm => by have := hcap m hm; unfold NUMMAX at this; omega⟩

/-- the argument `ex_init` hands to `ec_edit`: the first file name, with ` `, `%`, `#`, `=` escaped -/
def initArg (files : List Bytes) : Bytes :=
  match files with
  | [] => []
  | p :: _ => p.flatMap (fun c => if c == 32 || c == 37 || c == 35 || c == 61 then [92, c] else [c])

theorem exInit_eq (ed : Ed) (files : List Bytes) : exInit ed files = ecEdit FUEL ed (strOf "e") (initArg files) := rfl

theorem exInit_pos {ed ed' : Ed} {files : List Bytes} {r : Int} (hi : PosOk M ed) (h : exInit ed files = some (r, ed'))
    (hv : ∀ s, VEdit FUEL ed (strOf "e") (initArg files) s → LenLe M s.len) : PosOk M ed' := by
  rw [exInit_eq] at h
  exact (ecEdit_pos' hi h hv).1

/-- `:e` without a `+cmd` visits nothing -/
theorem vedit_noplus {f : Nat} {ed : Ed} {cmd arg : Bytes} {s : Ed} (h : (arg.dropWhile (· == 32)).headD 0 ≠ 43) :
    ¬ VEdit f ed cmd arg s := by
  intro hv
  have : (Lemmas.C02c.plusSplit arg).1 = [] := by
    unfold Lemmas.C02c.plusSplit
    simp only []
    rw [if_neg (by simpa using h)]
  cases hv with
  | start _ hp =>
    rw [this] at hp
    exact absurd hp (by decide)
  | plus _ hp _ =>
    rw [this] at hp
    exact absurd hp (by decide)

/-- `ex_init` whose file name does not start with `+` -/
theorem exInit_pos_noplus {ed ed' : Ed} {files : List Bytes} {r : Int} (hi : PosOk M ed)
    (h : exInit ed files = some (r, ed')) (hp : ((initArg files).dropWhile (· == 32)).headD 0 ≠ 43) : PosOk M ed' :=
  exInit_pos hi h (fun _ hs => absurd hs (vedit_noplus hp))

/-! ### scripts -/

/-- visited while `exRun n ed` runs: the state before every line, and what the lines visit -/
inductive VScript : Nat → Ed → Ed → Prop
  | start {n : Nat} {ed : Ed} : VScript n ed ed
  | line {n : Nat} {ed s : Ed} : VStep ed s → VScript (n + 1) ed s
  | next {n : Nat} {ed ed1 s : Ed} {r : Int} : ed.input.isEmpty = false → exStep ed = some (r, ed1) → VScript n ed1 s →
      VScript (n + 1) ed s

theorem exRun_pos : ∀ (n : Nat) (ed ed' : Ed), PosOk M ed → exRun n ed = some ed' →
    (∀ s, VScript n ed s → LenLe M s.len) → PosOk M ed' ∧ ∀ s, VScript n ed s → PosOk M s := by
  intro n
  induction n with
  | zero =>
    intro ed ed' hi h _
    cases h
    refine ⟨hi, ?_⟩
    intro s hs
    cases hs with
    | start => exact hi
  | succ n ih =>
    intro ed ed' hi h hv
    rw [exRun] at h
    split at h
    · rename_i hemp
      cases h
      refine ⟨hi, ?_⟩
      intro s hs
      cases hs with
      | start => exact hi
      | line hs' =>
        cases hs' with
        | line hin _ => rw [hin] at hemp; cases hemp
      | next hne _ _ => rw [hemp] at hne; cases hne
    · rename_i hne
      have hne' : ed.input.isEmpty = false := by simpa using hne
      split at h
      · cases h
      · rename_i r1 ed1 hs
        obtain ⟨p1, q1⟩ := exStep_pos hi hs (fun s hs' => hv s (VScript.line hs'))
        obtain ⟨a, b⟩ := ih _ _ p1 h (fun s hs' => hv s (VScript.next hne' hs hs'))
        refine ⟨a, ?_⟩
        intro s hsv
        cases hsv with
        | start => exact hi
        | line hs' => exact q1 s hs'
        | next _ hs2 hrest =>
          rw [hs] at hs2
          cases hs2
          exact b s hrest

/-- the final state of a script is one of its visited states -/
theorem exRun_visits : ∀ (n : Nat) (ed ed' : Ed), exRun n ed = some ed' → VScript n ed ed' := by
  intro n
  induction n with
  | zero => intro ed ed' h; cases h; exact VScript.start
  | succ n ih =>
    intro ed ed' h
    rw [exRun] at h
    split at h
    · cases h; exact VScript.start
    · rename_i hne
      split at h
      · cases h
      · rename_i r1 ed1 hs
        exact VScript.next (by simpa using hne) hs (ih ed1 ed' h)

theorem vscript_mono : ∀ {k : Nat} {ed s : Ed}, VScript k ed s → ∀ {n : Nat}, k ≤ n → VScript n ed s := by
  intro k ed s h
  induction h with
  | start => intro n _; exact VScript.start
  | line hs =>
    intro n hn
    cases n with
    | zero => omega
    | succ n => exact VScript.line hs
  | next h1 h2 _ ih =>
    intro n hn
    cases n with
    | zero => omega
    | succ n => exact VScript.next h1 h2 (ih (by omega))

/-! ### without a cap: no side condition -/

theorem exCommand_posOk {f : Nat} {ed ed' : Ed} {ln : Bytes} {r : Int} (hi : PosOk none ed)
    (h : exCommand f ed ln = some (r, ed')) : PosOk none ed' := (exCommand_pos' hi h (fun _ _ => lenLe_none _)).1

theorem exExec_posOk {f : Nat} {ed ed' : Ed} {ln : Bytes} {r : Int} (hi : PosOk none ed)
    (h : exExec f ed ln = some (r, ed')) : PosOk none ed' := (exExec_pos' hi h (fun _ _ => lenLe_none _)).1

theorem runCmd_posOk {f : Nat} {ed ed' : Ed} {hd : String} {loc cmd arg : Bytes} {txt : Option Bytes} {r : Int}
    (hi : PosOk none ed) (h : runCmd f ed hd loc cmd arg txt = some (r, ed')) : PosOk none ed' :=
  (runCmd_pos' hi h (lenLe_none _) (fun _ _ => lenLe_none _)).1

theorem ecEdit_posOk {f : Nat} {ed ed' : Ed} {cmd arg : Bytes} {r : Int} (hi : PosOk none ed)
    (h : ecEdit f ed cmd arg = some (r, ed')) : PosOk none ed' := (ecEdit_pos' hi h (fun _ _ => lenLe_none _)).1

theorem exStep_posOk {ed ed' : Ed} {r : Int} (hi : PosOk none ed) (h : exStep ed = some (r, ed')) : PosOk none ed' :=
  (exStep_pos hi h (fun _ _ => lenLe_none _)).1

theorem exInit_posOk {ed ed' : Ed} {files : List Bytes} {r : Int} (hi : PosOk none ed)
    (h : exInit ed files = some (r, ed')) : PosOk none ed' := exInit_pos hi h (fun _ _ => lenLe_none _)

theorem exRun_posOk {n : Nat} {ed ed' : Ed} (hi : PosOk none ed) (h : exRun n ed = some ed') : PosOk none ed' :=
  (exRun_pos n ed ed' hi h (fun _ _ => lenLe_none _)).1

/-! ### with and without a cap -/

theorem PosOk.uncap {ed : Ed} (h : PosOk M ed) : PosOk none ed :=
  ⟨fun m hm => (by cases hm), rowOk_none h.xrow.1, h.xoff,
    fun b hb => ⟨(h.tab b hb).lb, rowOk_none (h.tab b hb).row.1, (h.tab b hb).off⟩⟩

/-- the invariant with the cap `m`: the invariant, `m ≥ NUMMAX`, and the current row and every parked row at most `m` -/
theorem posOk_cap {ed : Ed} {m : Int} (h : PosOk none ed) (hm : NUMMAX ≤ m) (hx : ed.xrow ≤ m)
    (hp : ∀ b, some b ∈ ed.bufs → b.row ≤ m) : PosOk (some m) ed :=
  ⟨fun k hk => (by cases hk; exact hm), ⟨h.xrow.1, fun k hk => (by cases hk; exact hx)⟩, h.xoff,
    fun b hb => ⟨(h.tab b hb).lb, ⟨(h.tab b hb).row.1, fun k hk => (by cases hk; exact hp b hb)⟩, (h.tab b hb).off⟩⟩

theorem PosOk.cap_xrow {ed : Ed} {m : Int} (h : PosOk (some m) ed) : ed.xrow ≤ m := h.xrow.2 m rfl

theorem PosOk.cap_rows {ed : Ed} {m : Int} (h : PosOk (some m) ed) (b : Buf) (hb : some b ∈ ed.bufs) : b.row ≤ m :=
  (h.tab b hb).row.2 m rfl

/-! ### `AddrFits` -/

/-- under the cap `NUMMAX`, with the current buffer at most `NUMMAX` lines long, everything address evaluation
    reads is inside the range of line numbers -/
theorem addrFits_of_posOk {ed : Ed} (h : PosOk (some NUMMAX) ed) (hl : ed.len ≤ NUMMAX) : Lemmas.C05b.AddrFits ed := by
  refine ⟨?_, h.xrow.2 _ rfl, hl, ?_⟩
  · have := h.xrow.1; unfold NUMMAX; omega
  · intro lb c p o hlb hj
    have hp := h.lbPos hlb
    have hlen : ed.len = lb.lines.length := by unfold Ed.len; rw [hlb]
    unfold jump at hj
    split at hj
    · rename_i i _
      simp only [] at hj
      split at hj
      · cases hj
      · cases hj
        have := (hp.marks.getD i).2
        omega
    · cases hj

/-- `AddrFits` reads the table, the row and nothing else -/
theorem addrFits_fr {ed ed' : Ed} (f : Fr ed ed') (h : Lemmas.C05b.AddrFits ed) : Lemmas.C05b.AddrFits ed' :=
  ⟨by rw [f.2.1]; exact h.xrow_lo, by rw [f.2.1]; exact h.xrow_hi, by rw [f.len]; exact h.len_hi,
    fun lb c p o hl hj => h.marks lb c p o (by rw [← f.lb]; exact hl) hj⟩

end Neatvi.Lemmas.C05d
