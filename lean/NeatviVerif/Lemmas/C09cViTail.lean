import NeatviVerif.Lemmas.C09cViStep
/-!
# C09c, part 11: the command switch of `vi()` on related states

`commandTail` is restated in pieces (`cmdA`, `cmdB`, `cmdUR`, `cmdC`) with the local `fin` replaced by `finRec` (C09);
`commandTail_eq` says that the pieces are the text of `commandTail` (by `rfl`).
-/
namespace Neatvi.Lemmas.C09c
open Neatvi Neatvi.Uc Neatvi.Lbuf Neatvi.Ex Neatvi.Vi Neatvi.Mot
open Neatvi.Lemmas.C09 (finRec)

def cmdC (c : Int) (s : VS) : M (Option Nat) := do
  let a1 := s.arg1
  if c == 122 then do
    let k ← viRead
    if k == 10 then do setTop (if a1 != 0 then a1 else s.ed.xrow); finRec c k 0
    else if k == 46 then do setTop (max 0 ((if a1 != 0 then a1 else s.ed.xrow) - s.xrows / 2)); finRec c k 0
    else if k == 45 then do setTop (max 0 ((if a1 != 0 then a1 else s.ed.xrow) - s.xrows + 1)); finRec c k 0
    else if k == 62 || k == 60 then do
      let td : Int := if k == 62 then 1 else -1
      withEd fun ed => { ed with xtd := td + (if a1 > 1 then td else 0) }
      finRec c k VC_WIN
    else if k == 101 then finRec c k 0
    else if k == 102 then do Vi.unmodelled; finRec c k 0
    else if k == 106 || k == 107 || k == 74 || k == 75 || k == 68 then do Vi.unmodelled; finRec c k 0
    else finRec c k 0
  else if c == 103 then do
    let k ← viRead
    if k == 126 || k == 117 || k == 85 then do let m ← vcMotion k.toNat; finRec c k m
    else if k == 97 then finRec c k 0
    else if k == 100 || k == 102 || k == 108 then do Vi.unmodelled; finRec c k 0
    else finRec c k 0
  else if c == 120 then do viBack 32; let m ← vcMotion 100; finRec c 0 m
  else if c == 88 then do viBack 8; let m ← vcMotion 100; finRec c 0 m
  else if c == 67 then do viBack 36; let m ← vcMotion 99; finRec c 0 m
  else if c == 68 then do viBack 36; let m ← vcMotion 100; finRec c 0 m
  else if c == 114 then do let m ← vcReplace; finRec c 0 m
  else if c == 115 then do viBack 32; let m ← vcMotion 99; finRec c 0 m
  else if c == 83 then do viBack 99; let m ← vcMotion 99; finRec c 0 m
  else if c == 89 then do viBack 121; let m ← vcMotion 121; finRec c 0 m
  else if c == 90 then do
    let k ← viRead
    if k == 90 then do
      let rc ← exCommandV (strOf "x")
      finRec c k (if rc == 0 then VC_WIN else 0)
    else finRec c k 0
  else if c == 126 then do viBack 32; let m ← vcMotion 126; finRec c 0 m
  else if c == 46 then do vcRepeat; finRec c 0 0
  else if c == 64 then do vcExecute; finRec c 0 0
  else if c == 26 || c == 30 || c == 29 || c == 20 || c == 23 || c == 113 then do
    Vi.unmodelled; finRec c 0 0
  else pure none

def cmdUR (c : Int) (s : VS) : M (Option Nat) := do
  match s.ed.lb with
  | none => finRec c 0 0
  | some lb =>
    match (if c == 117 then Lbuf.undo lb else Lbuf.redo lb) with
    | none => Vi.trap
    | some (rc, lb') =>
      if rc == 0 then do
        withEd fun ed => ed.setLb lb'
        match jump lb' 94 with
        | some (r, o) => setPos r o
        | none => pure ()
        finRec c 0 VC_WIN
      else do
        withEd fun ed => ed.setLb lb'
        finRec c 0 0



def cmdB (c : Int) (s : VS) : M (Option Nat) := do
  if c == 117 || c == 18 then cmdUR c s
  else if c == 7 then do    -- ^G
    lbufModified
    finRec c 0 0
  else if c == 58 then do   -- :
    match ← viPrompt true with
    | some ln =>
      if ln.isEmpty then finRec c 0 0 else
      let ln := if ln.headD 0 != 58 then 58 :: ln else ln
      let rc ← exCommandV ln
      regPut 58 ln 1
      let s ← Vi.get
      if s.ed.xquit then pure none else
      finRec c 0 (if rc == 0 && ln != [58, 119] then VC_ALL else 0)
    | none => finRec c 0 0
  else if c == 99 || c == 100 || c == 121 || c == 33 || c == 62 || c == 60 then do
    let m ← vcMotion c.toNat
    finRec c 0 m
  else if c == 105 || c == 73 || c == 97 || c == 65 || c == 111 || c == 79 then do
    let m ← vcInsert c.toNat
    finRec c 0 m
  else if c == 74 then do let m ← vcJoin; finRec c 0 m
  else if c == 12 then finRec c 0 VC_ALL
  else if c == 109 then do
    let m ← viRead
    if m > 0 && 97 ≤ m && m ≤ 122 then markSet m.toNat s.ed.xrow s.ed.xoff
    finRec c 0 0
  else if c == 112 || c == 80 then do let m ← vcPut c.toNat; finRec c 0 m
  else cmdC c s

def cmdA (c : Int) (s : VS) : M (Option Nat) := do
  let a1 := s.arg1
  if c == 2 then do        -- ^B
    if ← scrollBackward (min (max 1 a1) (lenOf s) * (s.xrows - 1)) then finRec c 0 0 else
    let s ← Vi.get
    setOff (indents (lines s) s.ed.xrow)
    finRec c 0 VC_COL
  else if c == 6 then do   -- ^F
    if ← scrollForward (min (max 1 a1) (lenOf s) * (s.xrows - 1)) then finRec c 0 0 else
    let s ← Vi.get
    setOff (indents (lines s) s.ed.xrow)
    finRec c 0 VC_COL
  else if c == 5 then do   -- ^E
    if ← scrollForward (max 1 a1) then finRec c 0 0 else
    let s ← Vi.get
    setOff (col2off s s.ed.xrow s.xcol)
    finRec c 0 0
  else if c == 25 then do  -- ^Y
    if ← scrollBackward (max 1 a1) then finRec c 0 0 else
    let s ← Vi.get
    setOff (col2off s s.ed.xrow s.xcol)
    finRec c 0 0
  else if c == 21 then do  -- ^U
    if s.ed.xrow == 0 then finRec c 0 0 else
    if a1 != 0 then Vi.modify fun s => { s with scroll := a1 }
    let s ← Vi.get
    let n := if s.scroll != 0 then s.scroll else s.xrows / 2
    setRow (max 0 (s.ed.xrow - n))
    if s.ed.xtop > 0 then setTop (max 0 (s.ed.xtop - n))
    let s ← Vi.get
    setOff (indents (lines s) s.ed.xrow)
    finRec c 0 VC_COL
  else if c == 4 then do   -- ^D
    if s.ed.xrow == lenOf s - 1 then finRec c 0 0 else
    if a1 != 0 then Vi.modify fun s => { s with scroll := a1 }
    let s ← Vi.get
    let n := if s.scroll != 0 then s.scroll else s.xrows / 2
    setRow (min (max 0 (lenOf s - 1)) (s.ed.xrow + n))
    if s.ed.xtop < lenOf s - s.xrows then setTop (min (lenOf s - s.xrows) (s.ed.xtop + n))
    let s ← Vi.get
    setOff (indents (lines s) s.ed.xrow)
    finRec c 0 VC_COL
  else cmdB c s

theorem commandTail_eq : commandTail = (do
    let c ← viRead
    if c ≤ 0 then pure none else
    let s ← Vi.get
    markSet 94 s.ed.xrow s.ed.xoff
    let s ← Vi.get
    cmdA c s) := by
  unfold commandTail cmdA cmdB cmdUR cmdC finRec
  rfl

theorem rel2_finRec {w : Bool} {E : Option Nat → Option Nat → Prop} (c k : Int) (mod : Nat) :
    Rel2 w E (finRec c k mod) (finRec c k mod) := by
  unfold finRec
  rel_tac
macro_rules | `(tactic| rel_step) => `(tactic| with_reducible exact rel2_finRec _ _ _)

theorem rel2_cmdC {E : Option Nat → Option Nat → Prop} (c : Int) {s t : VS} (h : Sim false s t) :
    Rel2 false E (cmdC c s) (cmdC c t) := by
  unfold cmdC
  sim_reads h
  rel_tac

theorem rel2_cmdUR {E : Option Nat → Option Nat → Prop} (c : Int) {s t : VS} (h : Sim false s t) :
    Rel2 false E (cmdUR c s) (cmdUR c t) := by
  unfold cmdUR
  rcases h.ed.lb_cases with ⟨r1, r2⟩ | ⟨la, lb, r1, r2, hl⟩
  · rw [r1, r2]
    exact rel2_finRec _ _ _
  · rw [r1, r2]
    try dsimp only
    have hu : ORel (PRel (LbRel false)) (if (c == 117) = true then undo la else redo la)
        (if (c == 117) = true then undo lb else redo lb) := by
      split
      · exact undo_rel hl
      · exact redo_rel hl
    rcases hu.cases with ⟨u1, u2⟩ | ⟨⟨rc, la'⟩, ⟨rc', lb'⟩, u1, u2, hrc, hl'⟩
    · rw [u1, u2]; exact rel2_trap
    · simp only at hrc hl'
      subst hrc
      rw [u1, u2]
      try dsimp only
      have hset : Rel2 false NoEsc (withEd fun ed => ed.setLb la') (withEd fun ed => ed.setLb lb') :=
        rel2_withEd fun a b hab => setLb_rel hab hl'
      rw [jump_rel hl' 94]
      refine rel2_ite (fun _ => ?_) (fun _ => ?_)
      · refine rel2_bind hset (fun _ => ?_)
        rel_tac
      · refine rel2_bind hset (fun _ => ?_)
        rel_tac

theorem rel2_cmdB {E : Option Nat → Option Nat → Prop} (c : Int) {s t : VS} (h : Sim false s t) :
    Rel2 false E (cmdB c s) (cmdB c t) := by
  unfold cmdB
  sim_reads h
  repeat' (first | with_reducible exact rel2_cmdUR c h | with_reducible exact rel2_cmdC c h | rel_step)

theorem rel2_cmdA {E : Option Nat → Option Nat → Prop} (c : Int) {s t : VS} (h : Sim false s t) :
    Rel2 false E (cmdA c s) (cmdA c t) := by
  unfold cmdA
  sim_reads h
  repeat' (first | with_reducible exact rel2_cmdB c h | rel_step)

/-- **the command switch of `vi()`** maps related states to related states -/
theorem rel2_commandTail {E : Option Nat → Option Nat → Prop} : Rel2 false E commandTail commandTail := by
  rw [commandTail_eq]
  refine rel2_bind rel2_viRead (fun c => ?_)
  refine rel2_ite (fun _ => rel2_pure _) (fun _ => ?_)
  refine rel2_get_bind ?_
  intro s t h
  sim_reads h
  refine rel2_bind (rel2_markSet _ _ _) (fun _ => ?_)
  refine rel2_get_bind ?_
  intro s1 t1 h1
  exact rel2_cmdA c h1

end Neatvi.Lemmas.C09c
