import NeatviVerif.Lemmas.C07cBuf
/-!
# C07c: `lbuf_next` and the word scanners on a valid UTF-8 buffer, as scanners over flat indices

`lbuf_next` is `i ± 1` on the flat index (`next_nxtU`), and the model's `lbuf_wordlast`, `lbuf_wordbeg`,
`lbuf_wordend` compute the index scanners `wl`, `wb`, `we` of `Lemmas/C07bSim` over the projected text
`cpp b`.  The model's fuel counts bytes, the index scanners' fuel counts characters: the simulation
lemmas carry two fuels, each only required to exceed the number of steps left (`rem`).
-/
set_option linter.unusedSimpArgs false
set_option linter.unusedVariables false
namespace Neatvi.Lemmas.C07c
open Neatvi Neatvi.Uc Neatvi.Mot Neatvi.Spec Neatvi.Spec.Motion Neatvi.Lemmas.C07 Neatvi.Lemmas.C07b

/-! ### `lbuf_next` -/
theorem next_fwd_someU {b : Buf} (hb : Utf8B b) {r o : Int} {i : Nat} (h : Rep b r o i) (hi : i + 1 < total b) :
    ∃ r' o', next (lsOfU b) 1 r o = some (r', o') ∧ Rep b r' o' (i + 1) := by
  obtain ⟨rn, cn, rfl, rfl, h1, h2, rfl⟩ := h
  unfold next lnNext
  simp only [show ¬ ((1 : Int) < 0) by omega, decide_false, Bool.false_and, Bool.false_eq_true, if_false]
  rw [slenAt_repU hb rn h1, lineAt_repU b rn h1]
  by_cases hc : cn < (rowOf b rn).length
  · rw [if_neg (by simp; omega)]
    exact ⟨rn, cn + 1, rfl, rn, cn + 1, rfl, by omega, h1, by omega, by omega⟩
  · have hcn : cn = (rowOf b rn).length := by omega
    rw [if_pos (by simp; omega)]
    simp only []
    have hs := rowStart_step b rn h1
    have hlast : rn + 1 < b.length := by
      rcases Nat.lt_or_ge (rn + 1) b.length with h | h
      · exact h
      · have : rn + 1 = b.length := by omega
        rw [this, rowStart_len] at hs
        omega
    rw [show ((rn : Int) + 1) = ((rn + 1 : Nat) : Int) by omega, lineAt_repU b (rn + 1) hlast]
    simp only [Option.isNone_some, Bool.false_eq_true, if_false, show (1 : Int) > 0 by omega, if_true]
    exact ⟨_, _, rfl, rn + 1, 0, rfl, rfl, hlast, by omega, by omega⟩

theorem next_fwd_noneU {b : Buf} (hb : Utf8B b) {r o : Int} {i : Nat} (h : Rep b r o i) (hi : i + 1 = total b) :
    next (lsOfU b) 1 r o = none := by
  obtain ⟨rn, cn, rfl, rfl, h1, h2, rfl⟩ := h
  unfold next lnNext
  simp only [show ¬ ((1 : Int) < 0) by omega, decide_false, Bool.false_and, Bool.false_eq_true, if_false]
  rw [slenAt_repU hb rn h1, lineAt_repU b rn h1]
  have hs := rowStart_step b rn h1
  have hm : rn + 1 = b.length := by
    rcases Nat.lt_or_ge (rn + 1) b.length with h | h
    · have := rowStart_mono b (rn + 1) b.length h (Nat.le_refl _)
      rw [rowStart_len] at this; omega
    · omega
  have hcn : cn = (rowOf b rn).length := by
    rw [hm, rowStart_len] at hs; omega
  rw [if_pos (by simp; omega)]
  simp only []
  rw [lineAt_noneU b _ (Or.inr (by omega))]
  simp

theorem next_bwd_someU {b : Buf} (hb : Utf8B b) {r o : Int} {i : Nat} (h : Rep b r o (i + 1)) :
    ∃ r' o', next (lsOfU b) (-1) r o = some (r', o') ∧ Rep b r' o' i := by
  obtain ⟨rn, cn, rfl, rfl, h1, h2, h3⟩ := h
  unfold next lnNext
  have hlen : (lsOfU b).length = b.length := lsOfU_length b
  have hge : ¬ ((rn : Int) ≥ ((lsOfU b).length : Int)) := by rw [hlen]; omega
  simp only [show ((-1 : Int) < 0) by omega, decide_true, Bool.true_and, hge, decide_false, Bool.false_eq_true,
    if_false]
  rw [slenAt_repU hb rn h1, lineAt_repU b rn h1]
  by_cases hc : 0 < cn
  · rw [if_neg (by simp; omega)]
    rw [show ((cn : Int) + -1) = ((cn - 1 : Nat) : Int) by omega]
    exact ⟨rn, ((cn - 1 : Nat) : Int), rfl, rn, cn - 1, rfl, rfl, h1, by omega, by omega⟩
  · have hcn : cn = 0 := by omega
    subst hcn
    rw [if_pos (by simp)]
    simp only []
    cases rn with
    | zero => simp at h3
    | succ k =>
      have hs := rowStart_step b k (by omega)
      rw [show (((k + 1 : Nat) : Int) + -1) = (k : Int) by omega, lineAt_repU b k (by omega)]
      simp only [Option.isNone_some, Bool.false_eq_true, if_false, show ¬ ((-1 : Int) > 0) by omega]
      rw [eol_repU hb k (by omega)]
      exact ⟨_, _, rfl, k, (rowOf b k).length, rfl, rfl, by omega, Nat.le_refl _, by omega⟩

theorem next_bwd_noneU {b : Buf} (hb : Utf8B b) {r o : Int} (h : Rep b r o 0) :
    next (lsOfU b) (-1) r o = none := by
  obtain ⟨rn, cn, rfl, rfl, h1, h2, h3⟩ := h
  have hlen : (lsOfU b).length = b.length := lsOfU_length b
  have hr0 : rn = 0 := by
    cases rn with
    | zero => rfl
    | succ k => have := rowStart_step b k (by omega); omega
  subst hr0
  have hc0 : cn = 0 := by simp at h3; omega
  subst hc0
  unfold next lnNext
  have hge : ¬ (((0 : Nat) : Int) ≥ ((lsOfU b).length : Int)) := by rw [hlen]; omega
  simp only [show ((-1 : Int) < 0) by omega, decide_true, Bool.true_and, hge, decide_false, Bool.false_eq_true,
    if_false]
  rw [if_pos (by simp)]
  simp only []
  rw [lineAt_noneU b _ (Or.inl (by omega))]
  simp

theorem next_nxtU {b : Buf} (hb : Utf8B b) (d : Int) (hd : d = 1 ∨ d = -1) {r o : Int} {i : Nat} (h : Rep b r o i) :
    match nxt (total b) d i with
    | some j => ∃ r' o', next (lsOfU b) d r o = some (r', o') ∧ Rep b r' o' j
    | none => next (lsOfU b) d r o = none := by
  have hlt := rep_lt h
  rcases hd with rfl | rfl
  · unfold nxt
    rw [if_pos (by omega)]
    by_cases hi : i + 1 < total b
    · rw [if_pos hi]; exact next_fwd_someU hb h hi
    · rw [if_neg hi]; exact next_fwd_noneU hb h (by omega)
  · unfold nxt
    rw [if_neg (by omega)]
    cases i with
    | zero => rw [if_neg (by omega)]; exact next_bwd_noneU hb h
    | succ k => rw [if_pos (by omega)]; exact next_bwd_someU hb h

/-! ### fuel: the number of steps left in a direction -/
def rem (N : Nat) (d : Int) (i : Nat) : Nat := if d > 0 then N - 1 - i else i

theorem nxt_rem {N : Nat} {d : Int} {i j : Nat} (h : nxt N d i = some j) : rem N d j < rem N d i := by
  unfold nxt at h
  unfold rem
  by_cases hd : d > 0
  · rw [if_pos hd] at h
    rw [if_pos hd, if_pos hd]
    by_cases hi : i + 1 < N
    · rw [if_pos hi] at h; cases h; omega
    · rw [if_neg hi] at h; cases h
  · rw [if_neg hd] at h
    rw [if_neg hd, if_neg hd]
    by_cases hi : 0 < i
    · rw [if_pos hi] at h; cases h; omega
    · rw [if_neg hi] at h; cases h

theorem rem_lt {N : Nat} (d : Int) {i : Nat} (hi : i < N) : rem N d i < N := by
  unfold rem; split <;> omega

/-! ### `lbuf_wordlast` -/
theorem wlGo_simU {b : Buf} (hb : Utf8B b) (kind : Nat) (d : Int) (hd : d = 1 ∨ d = -1) (F : Nat) :
    ∀ (f : Nat) {r o : Int} {i : Nat}, rem (total b) d i < F → rem (total b) d i < f → Rep b r o i →
      Sim b (wordlast.go (lsOfU b) kind d F r o) (wlGo (cpp b) (total b) kind d f i) := by
  induction F with
  | zero => intro f r o i h1; omega
  | succ F ih =>
    intro f r o i h1 h2 h
    cases f with
    | zero => omega
    | succ f =>
      unfold wordlast.go wlGo
      rw [kindAt_repU hb h]
      by_cases hm : ((ucKind (cpp b i) &&& kind) != 0) = true
      · rw [if_pos hm, if_pos hm]
        have hn := next_nxtU hb d hd h
        cases hx : nxt (total b) d i with
        | none => rw [hx] at hn; simp only [] at hn; rw [hn]; exact ⟨rfl, h⟩
        | some j =>
          rw [hx] at hn
          obtain ⟨r', o', e, hr⟩ := hn
          rw [e]
          have := nxt_rem hx
          exact ih f (by omega) (by omega) hr
      · rw [if_neg hm, if_neg hm]; exact ⟨rfl, h⟩

theorem wl_simU {b : Buf} (hb : Utf8B b) (kind : Nat) (d : Int) (hd : d = 1 ∨ d = -1) {r o : Int} {i : Nat}
    (h : Rep b r o i) :
    Sim b (wordlast (lsOfU b) kind d r o) (wl (cpp b) (total b) kind d (total b + 2) i) := by
  unfold wordlast wl
  rw [kindAt_repU hb h]
  by_cases h0 : (kind == 0 || (ucKind (cpp b i) &&& kind) == 0) = true
  · rw [if_pos h0, if_pos h0]; exact ⟨rfl, h⟩
  · rw [if_neg h0, if_neg h0]
    simp only []
    have hB := foldl_totalU b
    generalize (lsOfU b).foldl (fun a l => a + l.length) 0 = B at hB ⊢
    have hrem := rem_lt d (rep_lt h)
    have hs := wlGo_simU hb kind d hd (B + 2) (total b + 2) (by omega) (by omega) h
    generalize wordlast.go (lsOfU b) kind d (B + 2) r o = res at hs
    generalize wlGo (cpp b) (total b) kind d (total b + 2) i = ires at hs
    obtain ⟨fl, r1, o1⟩ := res
    obtain ⟨fl', j⟩ := ires
    obtain ⟨e, hr⟩ := hs
    simp only [] at e hr
    subst e
    cases fl with
    | true => exact ⟨rfl, hr⟩
    | false =>
      simp only []
      rw [kindAt_repU hb hr]
      by_cases hk : ((ucKind (cpp b j) &&& kind) == 0) = true
      · rw [if_pos hk, if_pos hk]
        have hn := next_nxtU hb (-d) (by omega) hr
        cases hx : nxt (total b) (-d) j with
        | none => rw [hx] at hn; simp only [] at hn; rw [hn]; exact ⟨rfl, hr⟩
        | some j' =>
          rw [hx] at hn
          obtain ⟨r', o', e, hr'⟩ := hn
          rw [e]; exact ⟨rfl, hr'⟩
      · rw [if_neg hk, if_neg hk]; exact ⟨rfl, hr⟩

/-! ### `lbuf_wordbeg` -/
theorem wbGo_simU {b : Buf} (hb : Utf8B b) (d : Int) (hd : d = 1 ∨ d = -1) (F : Nat) :
    ∀ (f : Nat) {r o : Int} {i : Nat} (nl : Nat), rem (total b) d i < F → rem (total b) d i < f → Rep b r o i →
      Sim b (wordbeg.go (lsOfU b) d F r o nl) (wbGo (cpp b) (total b) d f i nl) := by
  induction F with
  | zero => intro f r o i nl h1; omega
  | succ F ih =>
    intro f r o i nl h1 h2 h
    cases f with
    | zero => omega
    | succ f =>
      unfold wordbeg.go wbGo
      rw [isSpaceAt_repU hb h, code10_repU hb h]
      by_cases hm : ucIsSpace (cpp b i) = true
      · rw [if_pos hm, if_pos hm]
        simp only []
        by_cases h2' : ((if (cpp b i == 10) = true then nl + 1 else 0) == 2) = true
        · rw [if_pos h2', if_pos h2']; exact ⟨rfl, h⟩
        · rw [if_neg h2', if_neg h2']
          have hn := next_nxtU hb d hd h
          cases hx : nxt (total b) d i with
          | none => rw [hx] at hn; simp only [] at hn; rw [hn]; exact ⟨rfl, h⟩
          | some j =>
            rw [hx] at hn
            obtain ⟨r', o', e, hr⟩ := hn
            rw [e]
            have := nxt_rem hx
            exact ih f _ (by omega) (by omega) hr
      · rw [if_neg hm, if_neg hm]; exact ⟨rfl, h⟩

theorem wb_simU {b : Buf} (hb : Utf8B b) (big : Bool) (d : Int) (hd : d = 1 ∨ d = -1) {r o : Int} {i : Nat}
    (h : Rep b r o i) : Sim b (wordbeg (lsOfU b) big d r o) (wb (cpp b) (total b) big d i) := by
  unfold wordbeg wb
  rw [kindAt_repU hb h]
  have hs := wl_simU hb (if big then 3 else ucKind (cpp b i)) d hd h
  generalize wordlast (lsOfU b) (if big = true then 3 else ucKind (cpp b i)) d r o = res at hs
  generalize wl (cpp b) (total b) (if big = true then 3 else ucKind (cpp b i)) d (total b + 2) i = ires at hs
  obtain ⟨fl, r1, o1⟩ := res
  obtain ⟨fl', p⟩ := ires
  obtain ⟨_, hr⟩ := hs
  simp only [] at hr ⊢
  rw [code10_repU hb hr]
  have hB := foldl_totalU b
  generalize (lsOfU b).foldl (fun a l => a + l.length) 0 = B at hB ⊢
  have hn := next_nxtU hb d hd hr
  cases hx : nxt (total b) d p with
  | none => rw [hx] at hn; simp only [] at hn; rw [hn]; exact ⟨rfl, hr⟩
  | some j =>
    rw [hx] at hn
    obtain ⟨r', o', e, hr'⟩ := hn
    rw [e]
    have hrem := rem_lt d (rep_lt hr')
    exact wbGo_simU hb d hd _ _ _ (by omega) (by omega) hr'

/-! ### `lbuf_wordend` -/
theorem weGo_simU {b : Buf} (hb : Utf8B b) (d : Int) (hd : d = 1 ∨ d = -1) (F : Nat) :
    ∀ (f : Nat) {r o : Int} {i : Nat} (nl : Nat), rem (total b) d i < F → rem (total b) d i < f → Rep b r o i →
      SimO b (wordend.go (lsOfU b) d F r o nl) (weGo (cpp b) (total b) d f i nl) := by
  induction F with
  | zero => intro f r o i nl h1; omega
  | succ F ih =>
    intro f r o i nl h1 h2 h
    cases f with
    | zero => omega
    | succ f =>
      unfold wordend.go weGo
      rw [isSpaceAt_repU hb h]
      by_cases hm : ucIsSpace (cpp b i) = true
      · rw [if_pos hm, if_pos hm]
        have hn := next_nxtU hb d hd h
        cases hx : nxt (total b) d i with
        | none => rw [hx] at hn; simp only [] at hn; rw [hn]; exact ⟨rfl, h⟩
        | some j =>
          rw [hx] at hn
          obtain ⟨r', o', e, hr⟩ := hn
          rw [e]
          simp only []
          rw [code10_repU hb hr]
          by_cases h2' : ((if (cpp b j == 10) = true then nl + 1 else 0) == 2) = true
          · rw [if_pos h2', if_pos h2']
            by_cases hdn : d < 0
            · rw [if_pos hdn, if_pos hdn]
              have hn2 := next_nxtU hb (-d) (by omega) hr
              cases hx2 : nxt (total b) (-d) j with
              | none => rw [hx2] at hn2; simp only [] at hn2; rw [hn2]; exact ⟨rfl, hr⟩
              | some j2 =>
                rw [hx2] at hn2
                obtain ⟨r2, o2, e2, hr2⟩ := hn2
                rw [e2]; exact ⟨rfl, hr2⟩
            · rw [if_neg hdn, if_neg hdn]; exact ⟨rfl, hr⟩
          · rw [if_neg h2', if_neg h2']
            have := nxt_rem hx
            exact ih f _ (by omega) (by omega) hr
      · rw [if_neg hm, if_neg hm]; trivial

theorem wePos_simU {b : Buf} (hb : Utf8B b) (d : Int) (hd : d = 1 ∨ d = -1) (F : Nat) :
    ∀ (f : Nat) {r o : Int} {i : Nat} (nl : Nat), rem (total b) d i < F → rem (total b) d i < f → Rep b r o i →
      Rep b (wordend.pos (lsOfU b) d F r o nl).1 (wordend.pos (lsOfU b) d F r o nl).2
        (wePos (cpp b) (total b) d f i nl) := by
  induction F with
  | zero => intro f r o i nl h1; omega
  | succ F ih =>
    intro f r o i nl h1 h2 h
    cases f with
    | zero => omega
    | succ f =>
      unfold wordend.pos wePos
      rw [isSpaceAt_repU hb h]
      by_cases hm : ucIsSpace (cpp b i) = true
      · rw [if_pos hm, if_pos hm]
        have hn := next_nxtU hb d hd h
        cases hx : nxt (total b) d i with
        | none => rw [hx] at hn; simp only [] at hn; rw [hn]; exact h
        | some j =>
          rw [hx] at hn
          obtain ⟨r', o', e, hr⟩ := hn
          rw [e]
          simp only []
          rw [code10_repU hb hr]
          by_cases h2' : ((if (cpp b j == 10) = true then nl + 1 else 0) == 2) = true
          · rw [if_pos h2', if_pos h2']; exact hr
          · rw [if_neg h2', if_neg h2']
            have := nxt_rem hx
            exact ih f _ (by omega) (by omega) hr
      · rw [if_neg hm, if_neg hm]; exact h

theorem we_simU {b : Buf} (hb : Utf8B b) (big : Bool) (d : Int) (hd : d = 1 ∨ d = -1) {r o : Int} {i : Nat}
    (h : Rep b r o i) : Sim b (wordend (lsOfU b) big d r o) (we (cpp b) (total b) big d i) := by
  unfold wordend we weStep1
  rw [isSpaceAt_repU hb h]
  have hB := foldl_totalU b
  generalize (lsOfU b).foldl (fun a l => a + l.length) 0 = B at hB ⊢
  -- the first step
  have hstep : ∀ (s1 : Option (Int × Int × Nat)) (s2 : Option (Nat × Nat)),
      (match s1, s2 with
        | some (r1, o1, n1), some (p, n2) => Rep b r1 o1 p ∧ n1 = n2
        | none, none => True
        | _, _ => False) →
      Sim b
        (match s1 with
          | none => (true, r, o)
          | some (r, o, nl) =>
            let nl := nl + (if d > 0 && codeAt (lsOfU b) r o == 10 then 1 else 0)
            match wordend.go (lsOfU b) d (B + 2) r o nl with
            | some res => res
            | none =>
              let (r, o) := wordend.pos (lsOfU b) d (B + 2) r o nl
              let (f, r, o) := wordlast (lsOfU b) (if big then 3 else kindAt (lsOfU b) r o) d r o
              (f, r, o))
        (match s2 with
          | none => (true, i)
          | some (p, nl) =>
            let nl := nl + (if d > 0 && cpp b p == 10 then 1 else 0)
            match weGo (cpp b) (total b) d (total b + 2) p nl with
            | some res => res
            | none =>
              let q := wePos (cpp b) (total b) d (total b + 2) p nl
              wl (cpp b) (total b) (if big then 3 else ucKind (cpp b q)) d (total b + 2) q) := by
    intro s1 s2 hs
    cases s1 with
    | none =>
      cases s2 with
      | none => exact ⟨rfl, h⟩
      | some y => obtain ⟨p, n2⟩ := y; exact absurd hs (by simp)
    | some x =>
      obtain ⟨r1, o1, n1⟩ := x
      cases s2 with
      | none => exact absurd hs (by simp)
      | some y =>
        obtain ⟨p, n2⟩ := y
        obtain ⟨hr, rfl⟩ := hs
        simp only []
        rw [code10_repU hb hr]
        have hrem := rem_lt d (rep_lt hr)
        have hg := weGo_simU hb d hd (B + 2) (total b + 2)
          (n1 + (if (decide (d > 0) && cpp b p == 10) = true then 1 else 0)) (by omega) (by omega) hr
        generalize wordend.go (lsOfU b) d (B + 2) r1 o1 _ = g1 at hg ⊢
        generalize weGo (cpp b) (total b) d (total b + 2) p _ = g2 at hg ⊢
        cases g1 with
        | some res =>
          cases g2 with
          | some ires => exact hg
          | none => exact absurd hg (by simp [SimO])
        | none =>
          cases g2 with
          | some ires => exact absurd hg (by simp [SimO])
          | none =>
            simp only []
            have hp := wePos_simU hb d hd (B + 2) (total b + 2)
              (n1 + (if (decide (d > 0) && cpp b p == 10) = true then 1 else 0)) (by omega) (by omega) hr
            generalize wordend.pos (lsOfU b) d (B + 2) r1 o1 _ = pp at hp ⊢
            obtain ⟨r2, o2⟩ := pp
            simp only [] at hp ⊢
            rw [kindAt_repU hb hp]
            exact wl_simU hb _ d hd hp
  apply hstep
  by_cases hm : ucIsSpace (cpp b i) = true
  · simp only [hm, Bool.not_true, Bool.false_eq_true, if_false]
    exact ⟨h, by trivial⟩
  · have hm' : ucIsSpace (cpp b i) = false := by simpa using hm
    simp only [hm', Bool.not_false, if_true]
    have hn := next_nxtU hb d hd h
    cases hx : nxt (total b) d i with
    | none => rw [hx] at hn; simp only [] at hn; rw [hn]; trivial
    | some j =>
      rw [hx] at hn
      obtain ⟨r', o', e, hr⟩ := hn
      rw [e]
      simp only []
      rw [code10_repU hb hr]
      exact ⟨hr, rfl⟩

end Neatvi.Lemmas.C07c
