import NeatviVerif.Lemmas.C02bCmd
/-!
# C02b lemmas, part 5: `:e`, command lines, `ex_command`; the induction on the fuel
-/
namespace Neatvi.Lemmas.C02b
open Neatvi Neatvi.Lbuf Neatvi.Ex Neatvi.Rset Neatvi.Spec Neatvi.Lemmas.ExFrame Neatvi.Lemmas.C02Ex

theorem ecEdit_inv (f : Nat) (hcmd : CmdOK f) (ed ed' : Ed) (cmd arg : Bytes) (r : Int) (hi : EdInv ed)
    (h : ecEdit (f + 1) ed cmd arg = some (r, ed')) : EdInv ed' := by
  rw [ecEdit.eq_2] at h
  simp only [] at h
  generalize (if ((List.dropWhile (fun x => x == 32) arg).headD 0 == 43) = true then _ else _ : Bytes × Bytes) = pl at h
  split at h
  · cases h
  · rename_i ed1 hg
    cases h
    exact guard_inv hi hg
  · rename_i ed1 hg
    have e1 : EdInv ed1 := guard_inv hi hg
    split at h
    · cases h
    · rename_i ed2 hp
      cases h
      exact e1.to (Props.C15.pathExpand_bufs hp)
    · rename_i path ed2 hp
      have e2 : EdInv ed2 := e1.to (Props.C15.pathExpand_bufs hp)
      generalize hE3 : (if (!List.isEmpty path && List.headD cmd 0 == 101 && List.getD cmd 1 0 == 119 && decide (ed2.bufsFind path > 1)) = true then ed2.bufsSwitch 1 else ed2) = ed3 at h
      have e3 : EdInv ed3 := by
        rw [← hE3]; split
        · exact edInv_bufsSwitch _ e2
        · exact e2
      split at h
      · split at h
        · exact hcmd _ _ _ _ (edInv_bufsSwitch _ e3) h
        · cases h; exact edInv_bufsSwitch _ e3
      · split at h
        · cases h
        · rename_i ed3g hg2
          cases h
          exact guard_inv e3 hg2
        · rename_i ed3g hg2
          have e3g : EdInv ed3g := guard_inv e3 hg2
          generalize hE4 : (if (!List.isEmpty path || ed3g.cur.isNone) = true then
              (ed3g.bufsOpen path).snd.bufsSwitch (ed3g.bufsOpen path).fst else ed3g) = ed4 at h
          have e4 : EdInv ed4 := by
            rw [← hE4]; split
            · exact edInv_bufsSwitch _ (edInv_bufsOpen _ e3g)
            · exact e3g
          split at h
          · cases h
          · rename_i b hb
            split at h
            · cases h
            · rename_i ed5 hrd
              have e5 : EdInv ed5 := by
                split at hrd
                · split at hrd
                  · cases hrd; exact e4
                  · split at hrd
                    · cases hrd
                    · rename_i lb1 hr
                      cases hrd
                      exact (edInv_setLb (lb := lb1) e4 ((edInv_cur e4 hb).rd hr)).to (by rfl)
                · cases hrd; exact e4
              split at h
              · cases h
              · rename_i b5 hb5
                let b6 : Buf := { b5 with lb := (modified (savedCore b5.lb (!path.isEmpty))).snd, mtime := ed5.mtimeOf b5.path }
                have e6 : EdInv (ed5.setCur b6) := edInv_setCur e5 ((edInv_cur e5 hb5).savedBump _)
                split at h
                · exact hcmd _ _ _ _ (e6.to (by rfl)) h
                · cases h; exact e6.to (by rfl)

/-- the dispatcher with fuel `f` keeps the invariant -/
def RunOK (f : Nat) : Prop := ∀ ed h loc cmd arg txt r ed', EdInv ed →
  runCmd f ed h loc cmd arg txt = some (r, ed') → EdInv ed'

theorem cmds_inv (f : Nat) (hrun : RunOK f) :
    ∀ (g : Nat) (ed : Ed) (ln : Bytes) (ret r : Int) (ed' : Ed), EdInv ed →
      exExec.cmds f g ed ln ret = some (r, ed') → EdInv ed' := by
  intro g
  induction g with
  | zero => intro ed ln ret r ed' hi h; rw [exExec.cmds] at h; cases h; exact hi
  | succ g ih =>
    intro ed ln ret r ed' hi h
    rw [exExec.cmds] at h
    split at h
    · cases h; exact hi
    · generalize exLoc ln = p1 at h
      obtain ⟨loc, l1⟩ := p1
      simp only [] at h
      generalize exCmd l1 = p2 at h
      obtain ⟨cmd, l2⟩ := p2
      simp only [] at h
      generalize exIdx cmd = idx at h
      cases idx with
      | none =>
        simp only [] at h
        generalize exArg l2 (strOf "unknown") = p3 at h
        obtain ⟨arg, l3⟩ := p3
        simp only [] at h
        have hb := Props.C15.exTxt_bufs ed l3 (strOf "unknown")
        generalize exTxt ed l3 (strOf "unknown") = T at h hb
        obtain ⟨⟨txt, l4⟩, edT⟩ := T
        simp only [] at h hb
        exact ih _ _ _ _ _ ((hi.to hb).to (by rfl)) h
      | some ah =>
        obtain ⟨a, hh⟩ := ah
        simp only [] at h
        generalize exArg l2 a = p3 at h
        obtain ⟨arg, l3⟩ := p3
        simp only [] at h
        have hb := Props.C15.exTxt_bufs ed l3 a
        generalize exTxt ed l3 a = T at h hb
        obtain ⟨⟨txt, l4⟩, edT⟩ := T
        simp only [] at h hb
        split at h
        · cases h
        · rename_i r1 ed1 hr
          exact ih _ _ _ _ _ (hrun _ _ _ _ _ _ _ _ (hi.to hb) hr) h

theorem exExec_inv (f : Nat) (hrun : RunOK f) : ExecOK (f + 1) := by
  intro ed ln r ed' hi h
  rw [exExec] at h
  split at h
  · cases h; exact hi
  · exact cmds_inv f hrun _ _ _ _ _ _ hi h

theorem exCommand_inv (f : Nat) (hx : ExecOK f) : CmdOK (f + 1) := by
  intro ed ln r ed' hi h
  rw [exCommand] at h
  split at h
  · cases h
  · rename_i r1 ed1 he
    cases h
    exact edInv_modifiedAt 0 (hx _ _ _ _ hi he)

theorem runCmd_ok (f : Nat) (hx : ExecOK f) (hc : CmdOK f) : RunOK (f + 2) := by
  intro ed hd loc cmd arg txt r ed' hi h
  refine runCmd_inv (f + 1) ed ed' hd loc cmd arg txt r ?_ ?_ ?_ hi h
  · intro ed r ed' hi h; exact ecAt_inv f hc ed ed' loc cmd arg r hi h
  · intro ed r ed' hi h; exact ecGlob_inv f hx ed ed' loc cmd arg r hi h
  · intro ed r ed' hi h; exact ecEdit_inv f hc ed ed' cmd arg r hi h

theorem runOK_zero : RunOK 0 := by
  intro ed hd loc cmd arg txt r ed' _ h; rw [runCmd] at h; cases h

theorem runOK_one : RunOK 1 := by
  intro ed hd loc cmd arg txt r ed' hi h
  refine runCmd_inv 0 ed ed' hd loc cmd arg txt r ?_ ?_ ?_ hi h
  · intro ed r ed' _ h; rw [ecAt] at h; cases h
  · intro ed r ed' _ h; rw [ecGlob] at h; cases h
  · intro ed r ed' _ h; rw [ecEdit] at h; cases h

/-- **every ex command line keeps the invariant of the buffer table, whatever the fuel** -/
theorem all_ok : ∀ f : Nat, ExecOK f ∧ CmdOK f ∧ RunOK f ∧ RunOK (f + 1) := by
  intro f
  induction f with
  | zero =>
    refine ⟨?_, ?_, runOK_zero, runOK_one⟩
    · intro ed ln r ed' _ h; rw [exExec] at h; cases h
    · intro ed ln r ed' _ h; rw [exCommand] at h; cases h
  | succ f ih =>
    obtain ⟨hx, hc, hr0, hr1⟩ := ih
    exact ⟨exExec_inv f hr0, exCommand_inv f hx, hr1, runCmd_ok f hx hc⟩

theorem exCommand_edInv {f : Nat} {ed ed' : Ed} {ln : Bytes} {r : Int} (hi : EdInv ed)
    (h : exCommand f ed ln = some (r, ed')) : EdInv ed' := (all_ok f).2.1 _ _ _ _ hi h

theorem exExec_edInv {f : Nat} {ed ed' : Ed} {ln : Bytes} {r : Int} (hi : EdInv ed)
    (h : exExec f ed ln = some (r, ed')) : EdInv ed' := (all_ok f).1 _ _ _ _ hi h

theorem runCmd_edInv {f : Nat} {ed ed' : Ed} {hd : String} {loc cmd arg : Bytes} {txt : Option Bytes} {r : Int}
    (hi : EdInv ed) (h : runCmd f ed hd loc cmd arg txt = some (r, ed')) : EdInv ed' :=
  (all_ok f).2.2.1 _ _ _ _ _ _ _ _ hi h

theorem ecEdit_edInv {f : Nat} {ed ed' : Ed} {cmd arg : Bytes} {r : Int} (hi : EdInv ed)
    (h : ecEdit f ed cmd arg = some (r, ed')) : EdInv ed' := by
  cases f with
  | zero => rw [ecEdit] at h; cases h
  | succ f => exact ecEdit_inv f (all_ok f).2.1 ed ed' cmd arg r hi h

/-! ### command boundaries: every buffer closed -/

/-- the current buffer has all its groups closed -/
def Closed0 (ed : Ed) : Prop := ∀ b, ed.cur = some b → Closed b.lb

/-- every buffer of the table good and closed: the state between two commands -/
def EdStrong (ed : Ed) : Prop := TabStrong ed.bufs

theorem EdStrong.inv {ed : Ed} (h : EdStrong ed) : EdInv ed := TabStrong.inv h

theorem edStrong_of {ed : Ed} (h : EdInv ed) (hc : Closed0 ed) : EdStrong ed := by
  intro b hb
  obtain ⟨i, hi, hget⟩ := List.getElem_of_mem hb
  have hg : ed.bufs.getD i none = some b := by
    rw [List.getD_eq_getElem?_getD, List.getElem?_eq_getElem hi, hget]; rfl
  obtain ⟨h1, h2⟩ := h i b hg
  refine ⟨h1, ?_⟩
  cases i with
  | zero => exact hc b hg
  | succ j => exact h2 (by omega)

theorem EdStrong.closed0 {ed : Ed} (h : EdStrong ed) : Closed0 ed := by
  intro b hb
  exact (h b (Props.C20.mem_of_getD _ _ _ hb).1).2

theorem Closed0.to {ed ed' : Ed} (h : Closed0 ed) (hb : ed'.bufs = ed.bufs) : Closed0 ed' := by
  intro b hc
  exact h b (by rw [← cur_congr hb]; exact hc)

theorem edStrong_bufsSwitch {ed : Ed} (idx : Nat) (h : EdInv ed) : EdStrong (ed.bufsSwitch idx) := by
  unfold EdStrong
  rw [Props.C20.switch_rotation]
  have hs := leftBufs_strong h
  intro b hb
  simp only [List.mem_append, List.mem_singleton] at hb
  rcases hb with (hb | hb) | hb
  · exact hs b (Props.C20.mem_of_getD _ _ _ hb.symm).1
  · exact hs b (List.mem_of_mem_take hb)
  · exact hs b (List.mem_of_mem_drop hb)

theorem closed0_modifiedAt0 {ed : Ed} (h : EdInv ed) : Closed0 (ed.modifiedAt 0).2 := by
  intro b hb
  unfold Ed.modifiedAt at hb
  cases h0 : ed.bufs.getD 0 none with
  | none =>
    rw [h0] at hb
    have : ed.cur = some b := hb
    rw [show ed.cur = ed.bufs.getD 0 none from rfl, h0] at this
    cases this
  | some b0 =>
    rw [h0] at hb
    obtain ⟨hlt, _⟩ := getD_some h0
    have hb' : (ed.bufs.set 0 (some { b0 with lb := (modified b0.lb).2 })).getD 0 none = some b := hb
    rw [getD_set_self _ _ _ hlt] at hb'
    cases hb'
    exact (h 0 b0 h0).1.closed_bump

theorem closed0_bump_keep {ed : Ed} (idx : Nat) (h : Closed0 ed) : Closed0 (ed.modifiedAt idx).2 := by
  intro b hb
  unfold Ed.modifiedAt at hb
  cases h0 : ed.bufs.getD idx none with
  | none => rw [h0] at hb; exact h b hb
  | some b0 =>
    rw [h0] at hb
    obtain ⟨hlt, _⟩ := getD_some h0
    have hb' : (ed.bufs.set idx (some { b0 with lb := (modified b0.lb).2 })).getD 0 none = some b := hb
    by_cases hi : idx = 0
    · subst hi
      rw [getD_set_self _ _ _ hlt] at hb'
      cases hb'
      exact closed_bump (h b0 h0)
    · rw [getD_set_ne _ _ _ _ hi] at hb'
      exact h b hb'

theorem closed0_bufsModified {ed ed' : Ed} {idx : Nat} {msg : Option Bytes} {r : Bool} (h : Closed0 ed)
    (hm : bufsModified ed idx msg = some (r, ed')) : Closed0 ed' := by
  unfold bufsModified at hm
  have h1 := closed0_bump_keep idx h
  generalize ed.modifiedAt idx = p at hm h1
  obtain ⟨m, ed1⟩ := p
  simp only [] at hm h1
  split at hm
  · cases hm; exact h
  · split at hm
    · cases hm; exact h1
    · split at hm
      · cases hm
      · split at hm
        · split at hm
          · cases hm
          · rename_i hs
            cases hm
            exact h1.to (lbufSave_bufs _ _ _ _ _ _ _ _ _ hs)
        · cases hm
          split
          · exact h1
          · exact h1

theorem closed0_guard {ed ed' : Ed} {c : Prop} [Decidable c] {idx : Nat} {msg : Option Bytes} {r : Bool}
    (hi : Closed0 ed)
    (h : (if c then bufsModified ed idx msg else some (false, ed) : R Bool) = some (r, ed')) : Closed0 ed' := by
  split at h
  · exact closed0_bufsModified hi h
  · cases h; exact hi

/-- `ex_command` ends with the bump of the current buffer -/
theorem closed0_exCommand {f : Nat} {ed ed' : Ed} {ln : Bytes} {r : Int} (hi : EdInv ed)
    (h : exCommand f ed ln = some (r, ed')) : Closed0 ed' := by
  cases f with
  | zero => rw [exCommand] at h; cases h
  | succ f =>
    rw [exCommand] at h
    split at h
    · cases h
    · rename_i r1 ed1 he
      cases h
      exact closed0_modifiedAt0 (exExec_edInv hi he)

theorem closed0_setCur {ed : Ed} {b : Buf} (hb : Closed b.lb) : Closed0 (ed.setCur b) := by
  intro b' hb'
  unfold Ed.cur Ed.setCur at hb'
  by_cases hl : 0 < ed.bufs.length
  · rw [getD_set_self _ _ _ hl] at hb'
    cases hb'; exact hb
  · have : ed.bufs = [] := List.eq_nil_of_length_eq_zero (by omega)
    rw [this] at hb'
    simp at hb'

/-- `lbuf_saved` followed by the bump leaves every group closed -/
theorem closed_savedBump {lb : Lb} (h : GoodLb lb) (c : Bool) : Closed (modified (savedCore lb c)).2 := by
  obtain ⟨d, hd⟩ := h
  cases c
  · intro e he
    have he' : e ∈ lb.hist := by simpa [savedCore, modified] using he
    exact Nat.lt_succ_of_le (hd.inv.seq_le e he')
  · intro e he
    simp [savedCore, modified] at he

/-- `:e` returns with the current buffer closed, if it was closed before -/
theorem ecEdit_closed0 (f : Nat) (ed ed' : Ed) (cmd arg : Bytes) (r : Int) (hi : EdInv ed) (hc : Closed0 ed)
    (h : ecEdit (f + 1) ed cmd arg = some (r, ed')) : Closed0 ed' := by
  rw [ecEdit.eq_2] at h
  simp only [] at h
  generalize (if ((List.dropWhile (fun x => x == 32) arg).headD 0 == 43) = true then _ else _ : Bytes × Bytes) = pl at h
  split at h
  · cases h
  · rename_i ed1 hg
    cases h
    exact closed0_guard hc hg
  · rename_i ed1 hg
    have e1 : EdInv ed1 := guard_inv hi hg
    have c1 : Closed0 ed1 := closed0_guard hc hg
    split at h
    · cases h
    · rename_i ed2 hp
      cases h
      exact c1.to (Props.C15.pathExpand_bufs hp)
    · rename_i path ed2 hp
      have e2 : EdInv ed2 := e1.to (Props.C15.pathExpand_bufs hp)
      generalize hE3 : (if (!List.isEmpty path && List.headD cmd 0 == 101 && List.getD cmd 1 0 == 119 && decide (ed2.bufsFind path > 1)) = true then ed2.bufsSwitch 1 else ed2) = ed3 at h
      have e3 : EdInv ed3 := by
        rw [← hE3]; split
        · exact edInv_bufsSwitch _ e2
        · exact e2
      split at h
      · split at h
        · exact closed0_exCommand (edInv_bufsSwitch _ e3) h
        · cases h; exact (edStrong_bufsSwitch _ e3).closed0
      · have c3 : Closed0 ed3 := by
          rw [← hE3]; split
          · exact (edStrong_bufsSwitch _ e2).closed0
          · exact c1.to (Props.C15.pathExpand_bufs hp)
        split at h
        · cases h
        · rename_i ed3g hg2
          cases h
          exact closed0_guard c3 hg2
        · rename_i ed3g hg2
          have e3g : EdInv ed3g := guard_inv e3 hg2
          generalize hE4 : (if (!List.isEmpty path || ed3g.cur.isNone) = true then
              (ed3g.bufsOpen path).snd.bufsSwitch (ed3g.bufsOpen path).fst else ed3g) = ed4 at h
          have e4 : EdInv ed4 := by
            rw [← hE4]; split
            · exact edInv_bufsSwitch _ (edInv_bufsOpen _ e3g)
            · exact e3g
          split at h
          · cases h
          · rename_i b hb
            split at h
            · cases h
            · rename_i ed5 hrd
              have e5 : EdInv ed5 := by
                split at hrd
                · split at hrd
                  · cases hrd; exact e4
                  · split at hrd
                    · cases hrd
                    · rename_i lb1 hr
                      cases hrd
                      exact (edInv_setLb (lb := lb1) e4 ((edInv_cur e4 hb).rd hr)).to (by rfl)
                · cases hrd; exact e4
              split at h
              · cases h
              · rename_i b5 hb5
                let b6 : Buf := { b5 with lb := (modified (savedCore b5.lb (!path.isEmpty))).snd, mtime := ed5.mtimeOf b5.path }
                have e6 : EdInv (ed5.setCur b6) := edInv_setCur e5 ((edInv_cur e5 hb5).savedBump _)
                have c6 : Closed0 (ed5.setCur b6) := closed0_setCur (closed_savedBump (edInv_cur e5 hb5) _)
                split at h
                · exact closed0_exCommand (e6.to (by rfl)) h
                · cases h; exact c6.to (by rfl)

end Neatvi.Lemmas.C02b
