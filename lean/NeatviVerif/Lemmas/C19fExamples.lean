import NeatviVerif.Lemmas.C19fRun
/-!
# C19f: concrete states (evaluated by the kernel)

* `exSt`: the file of the recorded finding `sticky_column_keeps_xleft_beyond_the_cursor`
  (`"short\n"`, a line of 120 `a`s) on an 80-column window;
* `tabSt`: a line with a tab that straddles the right edge of a 10-column window;
* `negSt`, `farSt`, `zeroSt`: the states that refute the unconditioned forms of `viPost_col_in_window`.
-/
namespace Neatvi.Lemmas.C19f
open Neatvi Neatvi.Uc Neatvi.Lbuf Neatvi.Ex Neatvi.Vi Neatvi.Render
open Neatvi.Props.C05c (iterate)

/-- `"short\n"` -/
def shortLn : Bytes := [115, 104, 111, 114, 116, 10]
/-- 120 `a`s and the newline -/
def longLn : Bytes := List.replicate 120 97 ++ [10]
/-- the buffer of the recorded finding -/
def exEd : Ed := { bufs := [some { path := [], lb := { lines := [shortLn, longLn] } }] }
/-- ... with the cursor at `(row, off)`, the keys to come, an 80-column window -/
def exSt (keys : Bytes) (row off : Int) : VS := { ed := { exEd with xrow := row, xoff := off }, typed := keys }

/-- what the checks below look at -/
def view (s : VS) : List Int :=
  [s.ed.xrow, s.ed.xoff, s.xcol, s.ed.xleft, cursorCol s, termCursor s, colCell s]

def viewAfter (n : Nat) (s : VS) : Option (List Int) := (iterate n s).map view

/-- the keys `j`, `$`: the cursor is on the last `a` (offset 119), `xcol = 119`, the window has
    scrolled to `xleft = 79`, the terminal cursor is in cell 40 -/
theorem ex_after_j_dollar : viewAfter 2 (exSt [106, 36, 107] 0 0) = some [1, 119, 119, 79, 119, 40, 40] := by
  decide +kernel

/-- then `k`: the cursor is on the `t` of `short` (offset 4, column 4); `xcol` is still 119 and `xleft`
    still 79; `ren_cursor(xcol)` is column 4, i.e. window cell `4 - 79 = -75` (`term_pos` clamps it to
    column 0) -/
theorem ex_after_j_dollar_k : viewAfter 3 (exSt [106, 36, 107] 0 0) = some [0, 4, 119, 79, 4, -75, 40] := by
  decide +kernel

/-- in that state: the column window holds (of the *sticky* column), the column of the cursor
    character is 4, left of `xleft`, and the row of the cursor line is drawn empty -/
theorem ex_after_j_dollar_k_row :
    (match iterate 3 (exSt [106, 36, 107] 0 0) with
     | some s => decide (ColWin s) && decide (s.xcols = 80) && decide (s.ed.xquit = false) &&
         decide (lineOf s s.ed.xrow = some shortLn) &&
         decide (off2col s s.ed.xrow s.ed.xoff = 4) && decide (off2col s s.ed.xrow s.ed.xoff < s.ed.xleft) &&
         decide (renderRow dirOracle (renOpts s) true shortLn s.ed.xleft (s.ed.xleft + s.xcols) = some []) &&
         (List.range 80).all (fun k => rowShows s shortLn k == none)
     | none => false) = true := by
  decide +kernel

/-- `aaaaaaaaa<TAB>b`: the tab takes columns 9–15 -/
def tabLn : Bytes := List.replicate 9 97 ++ [9, 98, 10]
def tabSt (keys : Bytes) : VS :=
  { ed := { bufs := [some { path := [], lb := { lines := [tabLn] } }] }, typed := keys, xcols := 10 }

/-- `$h` on a 10-column window: the cursor is on the tab (offset 9), `xcol = 9` is inside the window
    `[0, 10)` and `xleft = 0`; `ren_cursor` is the tab's last column 15, cell 15 — outside the window -/
theorem tab_after_dollar_h : viewAfter 2 (tabSt [36, 104]) = some [0, 9, 9, 0, 15, 15, 9] := by decide +kernel

/-- ... and the row does not show the tab at all (its cells are not all inside the window) -/
theorem tab_after_dollar_h_row :
    (match iterate 2 (tabSt [36, 104]) with
     | some s => decide (ColWin s) && decide (s.xcol = off2col s s.ed.xrow s.ed.xoff) &&
         decide (renderRow dirOracle (renOpts s) true tabLn s.ed.xleft (s.ed.xleft + s.xcols) =
           some [97, 97, 97, 97, 97, 97, 97, 97, 97]) &&
         decide (rowShows s tabLn 9 = none)
     | none => false) = true := by
  decide +kernel

/-! ### the hypotheses of `viPost_col_in_window` are needed -/

/-- a negative sticky column (no state of a run has one) -/
def negSt : VS := { exSt [] 0 0 with xcol := -1, ed := { exEd with xleft := 5 } }
/-- a negative `xleft` -/
def farSt : VS := { exSt [] 0 0 with xcol := 0, ed := { exEd with xleft := -100 } }
/-- a window without columns -/
def zeroSt : VS := { exSt [] 0 0 with xcols := 0 }

def postView (mod : Nat) (s : VS) : Option (Int × Int × Int × Bool) :=
  match viPost (some mod) s with
  | Res.ok _ s' => some (s'.xcol, s'.ed.xleft, s'.xcols, s'.ed.xquit)
  | _ => none

theorem negSt_post : postView 0 negSt = some (-1, 0, 80, false) := by decide +kernel
theorem farSt_post : postView 0 farSt = some (0, -40, 80, false) := by decide +kernel
theorem zeroSt_post : postView 1 zeroSt = some (0, 0, 0, false) := by decide +kernel

theorem postView_some (mod : Nat) (s : VS) (v : Int × Int × Int × Bool) (h : postView mod s = some v) :
    ∃ s', viPost (some mod) s = Res.ok () s' ∧ v = (s'.xcol, s'.ed.xleft, s'.xcols, s'.ed.xquit) := by
  unfold postView at h
  split at h
  · rename_i u s' hr
    exact ⟨s', hr, by cases h; rfl⟩
  · cases h

/-- a satisfiable instance of the hypotheses of `viPost_col_in_window` and of `cursor_on_character`:
    `viPost (some 1)` on the state of the finding before the `k` -/
def midSt : VS := { exSt [] 1 119 with xcol := 3, ed := { exEd with xrow := 1, xoff := 119, xleft := 0 } }
theorem midSt_post : postView 1 midSt = some (119, 79, 80, false) := by decide +kernel

/-- the line under the cursor after `viPost (some 1) midSt` is the long line, as code points -/
theorem midSt_line :
    (match viPost (some 1) midSt with
     | Res.ok _ s' => decide (lineOf s' s'.ed.xrow = some (Spec.encStr (List.replicate 120 97 ++ [10])))
     | _ => false) = true := by decide +kernel

theorem longBody_valid : ∀ c ∈ List.replicate 120 97, Spec.ValidCp c := by
  intro c hc
  rw [List.eq_of_mem_replicate hc]
  decide
theorem longBody_no10 : 10 ∉ List.replicate 120 97 := by
  intro h
  have := List.eq_of_mem_replicate h
  omega
theorem longBody_ne : List.replicate 120 97 ≠ ([] : List Nat) := by simp

/-- the state of the finding after `j$` (cursor on the last `a` of the long line, `xcol = 119`,
    `xleft = 79`), from which `k` is a vertical motion to the line `short` -/
def stickySt : VS := { exSt [] 1 119 with xcol := 119, ed := { exEd with xrow := 1, xoff := 119, xleft := 79 } }

/-- the code points of `short` -/
def shortBody : List Nat := [115, 104, 111, 114, 116]
theorem shortLn_enc : Spec.encStr (shortBody ++ [10]) = shortLn := by decide

/-- the state `motionTail 107 0 _ stickySt` ends in (`motionTail_jk`) -/
def stickyMid : VS :=
  { stickySt with ed := { stickySt.ed with xrow := 0, xoff := noeol stickySt 0 (col2off stickySt 0 stickySt.xcol) } }
theorem stickyMid_post : postView 0 stickyMid = some (119, 79, 80, false) := by decide +kernel

/-- the run of the finding: none of the three states after `j`, `$`, `k` is quitting -/
theorem ex_alive : Lemmas.C19f.Alive 3 (exSt [106, 36, 107] 0 0) := by
  intro k t hk0 hk ht
  have e1 : (match iterate 1 (exSt [106, 36, 107] 0 0) with | some t => decide (t.ed.xquit = false) | none => true) = true := by
    decide +kernel
  have e2 : (match iterate 2 (exSt [106, 36, 107] 0 0) with | some t => decide (t.ed.xquit = false) | none => true) = true := by
    decide +kernel
  have e3 : (match iterate 3 (exSt [106, 36, 107] 0 0) with | some t => decide (t.ed.xquit = false) | none => true) = true := by
    decide +kernel
  have : k = 1 ∨ k = 2 ∨ k = 3 := by omega
  rcases this with rfl | rfl | rfl
  · rw [ht] at e1; simpa using e1
  · rw [ht] at e2; simpa using e2
  · rw [ht] at e3; simpa using e3

theorem ex_good : Good 80 (exSt [106, 36, 107] 0 0) :=
  ⟨rfl, Int.le_refl 0, Int.le_refl 0, ⟨Int.le_refl 0, (by decide : (0 : Int) ≤ 999999999), Int.le_refl 0,
    (by decide : (0 : Int) ≤ 999999999)⟩, fun h => by cases h⟩

theorem ex_colWin : ColWin (exSt [106, 36, 107] 0 0) := by decide

theorem ex_iterate_some : (iterate 3 (exSt [106, 36, 107] 0 0)).isSome = true := by decide +kernel

/-- the cursor on the fourth `a` of the long line, `xcol = 3`, `xleft = 0`: `k` goes to the `r` of `short` -/
def nearSt : VS := { exSt [] 1 3 with xcol := 3, ed := { exEd with xrow := 1, xoff := 3, xleft := 0 } }
def nearMid : VS :=
  { nearSt with ed := { nearSt.ed with xrow := 0, xoff := noeol nearSt 0 (col2off nearSt 0 nearSt.xcol) } }
/-- the hypotheses of `sticky_cursor_on_character` about the final state hold of it (character `i = 3`) -/
theorem nearMid_post :
    (match viPost (some 0) nearMid with
     | Res.ok _ s3 =>
       decide (((posTab s3 (Spec.encStr (shortBody ++ [10]))).getD 3 0 : Nat) ≤ s3.xcol) &&
       decide (s3.xcol < ((posTab s3 (Spec.encStr (shortBody ++ [10]))).getD 3 0 : Nat) +
         (Spec.cellWidth ((shortBody ++ [10]).getD 3 0) ((posTab s3 (Spec.encStr (shortBody ++ [10]))).getD 3 0) : Int)) &&
       decide (s3.ed.xleft ≤ ((posTab s3 (Spec.encStr (shortBody ++ [10]))).getD 3 0 : Nat)) &&
       decide (((posTab s3 (Spec.encStr (shortBody ++ [10]))).getD 3 0 : Nat) +
         (Spec.cellWidth ((shortBody ++ [10]).getD 3 0) ((posTab s3 (Spec.encStr (shortBody ++ [10]))).getD 3 0) : Int) ≤
           s3.ed.xleft + s3.xcols) &&
       decide (view s3 = [0, 3, 3, 0, 3, 3, 3])
     | _ => false) = true := by decide +kernel

end Neatvi.Lemmas.C19f
