import NeatviVerif.Lemmas.C05fB
import NeatviVerif.Lemmas.HistInv
import NeatviVerif.Lemmas.C07Frame
/-!
# C05f, part C: the invariant of the line buffer (lines, undo history), of the registers and of the key queue

`HistOk lb c`: the history invariant of `Lemmas/HistInv` holds for some ghost texts, every text of the
history — the lines now, and the lines after any number of undos and redos — is free of NUL, and (when `c`)
no command is in progress (`lbuf_modified` has run since the last edit).
-/
set_option linter.unusedSimpArgs false
set_option linter.unusedVariables false
namespace Neatvi.Lemmas.C05f
open Neatvi Neatvi.Uc Neatvi.Lbuf Neatvi.Ex Neatvi.Mot Neatvi.Vi Neatvi.Spec
open Neatvi.Lemmas.Hist

/-! ### `splitLines` -/

theorem splitAux_noNul (s : Bytes) : ∀ cur, NoNul s → NoNul cur → ∀ l ∈ splitAux s cur, NoNul l := by
  induction s with
  | nil =>
    intro cur _ hc l hl
    simp only [splitAux] at hl
    split at hl
    · simp at hl
    · simp at hl; subst hl; exact noNul_append.mpr ⟨hc, by simp [NoNul]⟩
  | cons b r ih =>
    intro cur hs hc l hl
    obtain ⟨hb, hr⟩ := noNul_cons.mp hs
    simp only [splitAux] at hl
    split at hl
    · rcases List.mem_cons.mp hl with h | h
      · subst h; exact noNul_append.mpr ⟨hc, by simp [NoNul]⟩
      · exact ih [] hr noNul_nil l h
    · exact ih _ hr (noNul_append.mpr ⟨hc, noNul_singleton.mpr hb⟩) l hl

theorem splitLines_noNul {s : Bytes} (h : NoNul s) : ∀ l ∈ splitLines s, NoNul l :=
  splitAux_noNul s [] h noNul_nil

theorem optLines_noNul {o : Option Bytes} (h : NoNulO o) : ∀ l ∈ optLines o, NoNul l := by
  cases o with
  | none => intro l hl; simp [optLines] at hl
  | some x => exact splitLines_noNul (h x rfl)

theorem splice_noNul {t : Text} {pos n : Nat} {ins : Text} (ht : ∀ l ∈ t, NoNul l) (hi : ∀ l ∈ ins, NoNul l) :
    ∀ l ∈ splice t pos n ins, NoNul l := by
  intro l hl
  unfold splice at hl
  simp only [List.mem_append] at hl
  rcases hl with (hl | hl) | hl
  · exact ht l (List.mem_of_mem_take hl)
  · exact hi l hl
  · exact ht l (List.mem_of_mem_drop hl)

/-! ### the history -/

/-- the texts of the history hold no NUL: the ghost text before the first record, and after each record -/
def TextsNoNul (T0 : Text) (hist : List Entry) : Prop := ∀ k, ∀ l ∈ applyFwd T0 (hist.take k), NoNul l

def HistOk (lb : Lb) (c : Prop) : Prop :=
  ∃ T0 z pg fg, Inv T0 lb z pg fg ∧ (c → z.open_ = false) ∧ TextsNoNul T0 lb.hist

theorem HistOk.weaken {lb : Lb} {c : Prop} (h : HistOk lb c) : HistOk lb False := by
  obtain ⟨T0, z, pg, fg, hi, _, ht⟩ := h
  exact ⟨T0, z, pg, fg, hi, fun hf => hf.elim, ht⟩

theorem HistOk.mono {lb : Lb} {c c' : Prop} (h : HistOk lb c) (hc : c' → c) : HistOk lb c' := by
  obtain ⟨T0, z, pg, fg, hi, ho, ht⟩ := h
  exact ⟨T0, z, pg, fg, hi, fun hf => ho (hc hf), ht⟩

theorem inv_take_histU {T0 lb z pg fg} (h : Inv T0 lb z pg fg) : lb.hist.take lb.histU = ents pg.reverse := by
  rw [h.hist, h.histU]; exact List.take_left

/-- every line of the buffer is a well-formed line without NUL -/
theorem HistOk.lines {lb : Lb} {c : Prop} (h : HistOk lb c) : ∀ l ∈ lb.lines, LineOk l := by
  obtain ⟨T0, z, pg, fg, hi, _, ht⟩ := h
  intro l hl
  refine lineOk_of (hi.wf l hl) ?_
  have := ht lb.histU l
  rw [inv_take_histU hi, ← hi.lines] at this
  exact this hl

/-- the invariant sees the text, the history and the sequence number only -/
theorem inv_congr {T0 lb lb' z pg fg} (h : Inv T0 lb z pg fg) (h1 : lb'.hist = lb.hist) (h2 : lb'.histU = lb.histU)
    (h3 : lb'.useq = lb.useq) (h4 : lb'.lines = lb.lines) : Inv T0 lb' z pg fg where
  hist := by rw [h1]; exact h.hist
  histU := by rw [h2]; exact h.histU
  gok := h.gok
  sorted := h.sorted
  le := by rw [h3]; exact h.le
  closed := by rw [h3]; exact h.closed
  opened := by rw [h3]; exact h.opened
  chain := by rw [h1]; exact h.chain
  lines := by rw [h4]; exact h.lines
  wf0 := h.wf0
  present := by rw [h4]; exact h.present
  past := h.past
  future := by rw [h4]; exact h.future

theorem HistOk.congr {lb lb' : Lb} {c : Prop} (h : HistOk lb c) (h1 : lb'.hist = lb.hist) (h2 : lb'.histU = lb.histU)
    (h3 : lb'.useq = lb.useq) (h4 : lb'.lines = lb.lines) : HistOk lb' c := by
  obtain ⟨T0, z, pg, fg, hi, ho, ht⟩ := h
  exact ⟨T0, z, pg, fg, inv_congr hi h1 h2 h3 h4, ho, by rw [h1]; exact ht⟩

theorem histOk_make : HistOk Lbuf.make True :=
  ⟨[], {}, [], [], inv_make, fun _ => rfl, by intro k l hl; simp [Lbuf.make, applyFwd] at hl⟩

theorem HistOk.setMark {lb : Lb} {c : Prop} (h : HistOk lb c) (k : Nat) (p o : Int) : HistOk (setMark lb k p o) c :=
  h.congr (setMark_hist _ _ _ _) (setMark_histU _ _ _ _) (setMark_useq _ _ _ _) (Lemmas.C07.setMark_lines _ _ _ _)

/-- `lbuf_modified`: the command in progress is closed -/
theorem HistOk.modified {lb : Lb} {c : Prop} (h : HistOk lb c) : HistOk (Lbuf.modified lb).2 True := by
  obtain ⟨T0, z, pg, fg, hi, _, ht⟩ := h
  exact ⟨T0, z.commit, pg, fg, inv_bump hi, fun _ => rfl, ht⟩

/-- **`lbuf_edit`** with `b ≤ e` and a text without NUL: it never traps, splices the lines and keeps the invariant -/
theorem HistOk.edit {lb : Lb} {c : Prop} (h : HistOk lb c) (buf : Option Bytes) (b e : Nat) (hbe : b ≤ e)
    (hbuf : NoNulO buf) :
    ∃ lb', Lbuf.edit lb buf b e = some lb' ∧ HistOk lb' False ∧
      lb'.lines = splice lb.lines (min b lb.lines.length) (min e lb.lines.length - min b lb.lines.length) (optLines buf) := by
  by_cases hlog : min b lb.lines.length = min e lb.lines.length ∧ buf = none
  · obtain ⟨h1, h2⟩ := hlog
    subst h2
    refine ⟨lb, edit_noop lb b e h1, h.weaken, ?_⟩
    rw [h1, Nat.sub_self]
    exact (splice_noop _ _).symm
  · have hl := h.lines
    obtain ⟨T0, z, pg, fg, hi, _, ht⟩ := h
    obtain ⟨lb', pg', e1, e2, e3⟩ := inv_edit_log hi buf b e hbe hlog
      (fun t => splice t (min b lb.lines.length) (min e lb.lines.length - min b lb.lines.length) (optLines buf)) rfl
    obtain ⟨lb2, en, f1, f2, f3, f4, f5, f6, f7, f8⟩ :=
      edit_log lb buf b e (ents pg.reverse) (ents fg) hi.hist hi.histU hi.wf hbe hlog
    rw [e1] at f1
    cases f1
    have hlines : lb'.lines = splice lb.lines (min b lb.lines.length)
        (min e lb.lines.length - min b lb.lines.length) (optLines buf) := by rw [f6, f7]
    refine ⟨lb', e1, ⟨T0, _, pg', [], e3, fun hf => hf.elim, ?_⟩, hlines⟩
    have hlold := hl
    intro k l hl'
    rw [f2] at hl'
    by_cases hk : k ≤ (ents pg.reverse).length
    · rw [List.take_append_of_le_length hk] at hl'
      have := ht (min k lb.histU) l
      rw [← List.take_take, inv_take_histU hi] at this
      exact this hl'
    · rw [List.take_of_length_le (by simp; omega)] at hl'
      have h3 : lb'.lines = applyFwd T0 (ents pg.reverse ++ [en]) := by
        have := e3.lines
        have h4 := e3.hist
        simp only [ents_nil, List.append_nil] at h4
        rw [← h4, f2] at this
        exact this
      rw [← h3, hlines] at hl'
      exact splice_noNul (fun l hl => (hlold l hl).noNul) (optLines_noNul hbuf) l hl'

/-- **`lbuf_undo`** at a command boundary never traps and keeps the invariant -/
theorem HistOk.undo {lb : Lb} (h : HistOk lb True) : ∃ rc lb', Lbuf.undo lb = some (rc, lb') ∧ HistOk lb' True := by
  obtain ⟨T0, z, pg, fg, hi, ho, ht⟩ := h
  rcases inv_undo hi (ho trivial) with ⟨_, h2, _⟩ | ⟨g, ps, lb', z', hpg, h2, _, h4, _, h6⟩
  · exact ⟨1, lb, h2, T0, z, pg, fg, hi, ho, ht⟩
  · refine ⟨0, lb', h2, T0, z', ps, g :: fg, h6, fun _ => h4, ?_⟩
    have : lb'.hist = lb.hist := by
      rw [h6.hist, hi.hist, hpg]
      simp [ents]
    rw [this]; exact ht

/-- **`lbuf_redo`** at a command boundary never traps and keeps the invariant -/
theorem HistOk.redo {lb : Lb} (h : HistOk lb True) : ∃ rc lb', Lbuf.redo lb = some (rc, lb') ∧ HistOk lb' True := by
  obtain ⟨T0, z, pg, fg, hi, ho, ht⟩ := h
  rcases inv_redo hi (ho trivial) with ⟨_, h2, _⟩ | ⟨g, fs, lb', z', hfg, h2, _, h4, _, h6⟩
  · exact ⟨1, lb, h2, T0, z, pg, fg, hi, ho, ht⟩
  · refine ⟨0, lb', h2, T0, z', g :: pg, fs, h6, fun _ => h4, ?_⟩
    have : lb'.hist = lb.hist := by
      rw [h6.hist, hi.hist, hfg]
      simp [ents]
    rw [this]; exact ht

/-! ### the buffer table, the registers, the key queue -/

/-- the current buffer exists and its line buffer has the invariant -/
def BufsOk (bufs : List (Option Buf)) (c : Prop) : Prop := ∃ b, bufs.getD 0 none = some b ∧ HistOk b.lb c

/-- no register holds a NUL -/
def RegsOk (r : Regs) : Prop := ∀ c x, r.buf.getD c none = some x → NoNul x

/-- the keys that are still to be read, the keys recorded for `.`: no NUL among them -/
def QOk (s : VS) : Prop :=
  NoNul s.ibuf ∧ NoNul s.typed ∧ (∀ c ∈ s.vibuf, c ≠ 0) ∧ NoNul s.icmd ∧ NoNul s.repCmd

end Neatvi.Lemmas.C05f
