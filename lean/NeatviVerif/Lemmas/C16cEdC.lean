import NeatviVerif.Lemmas.C16cEdB
import NeatviVerif.Lemmas.C16cStr
import NeatviVerif.Props.C03
import NeatviVerif.Lemmas.C06cExec
/-!
# C16c, part 5: saving (`lbuf_save` without scheduled faults writes valid files), the modified-buffer
  guard, the shell oracle, the registers as `reg_get` serves them
-/
set_option linter.unusedSimpArgs false
set_option linter.unusedVariables false
namespace Neatvi.Lemmas.C16c
open Neatvi Neatvi.Uc Neatvi.Spec Neatvi.Lbuf Neatvi.LbufIo Neatvi.Ex Neatvi.Props.C11b Neatvi.Props.C16b
open Neatvi.Props.C03 (GuardsPass afterOpen afterWrite oldData endLine schedOf fuelOf NoErr)

/-! ## files -/

theorem EdOk.putFile {ed : Ed} (h : EdOk ed) {f : File} (hf : IsU8 f.data) : EdOk (ed.putFile f) := by
  unfold Ed.putFile
  split
  · refine ⟨h.bufs, h.regs, h.input, h.pipes, ?_, h.nofault⟩
    intro g hg
    simp only [List.mem_map] at hg
    obtain ⟨g0, hg0, rfl⟩ := hg
    split
    · exact hf
    · exact h.files g0 hg0
  · refine ⟨h.bufs, h.regs, h.input, h.pipes, ?_, h.nofault⟩
    intro g hg
    simp only [List.mem_append, List.mem_singleton] at hg
    rcases hg with hg | rfl
    · exact h.files g hg
    · exact hf

theorem EdOk.findFile {ed : Ed} (h : EdOk ed) {p : Bytes} {f : File} (hf : ed.findFile p = some f) : IsU8 f.data :=
  h.files f (List.mem_of_find?_eq_some hf)

theorem EdOk.oldData {ed : Ed} (h : EdOk ed) (p : Bytes) : IsU8 (oldData ed p) := by
  unfold Props.C03.oldData
  cases hf : ed.findFile p with
  | none => exact isU8_nil
  | some f => exact h.findFile hf

theorem nextFault_fst {ed : Ed} (h : ed.faults = []) : ed.nextFault.1 = 0 := by
  unfold Ed.nextFault
  simp [h]

theorem EdOk.nextFault {ed : Ed} (h : EdOk ed) : EdOk ed.nextFault.2 := h.to rfl

theorem EdOk.noErr {ed : Ed} (h : EdOk ed) : NoErr ed := by
  intro f hf; rw [h.nofault] at hf; simp at hf

theorem EdOk.afterOpen {ed : Ed} (h : EdOk ed) (path : Bytes) : EdOk (afterOpen ed path) := by
  unfold Props.C03.afterOpen
  simp only []
  exact (h.nextFault.putFile (f := ⟨path, Props.C03.oldData ed.nextFault.2 path, ed.nextFault.2.clock + 1⟩)
    (h.nextFault.oldData path)).to rfl

/-- **`lbuf_save` of a valid buffer, no fault scheduled**: the file written is valid UTF-8 (the lines,
concatenated), every other file is as before -/
theorem lbufSave_ok {ed ed' : Ed} (h : EdOk ed) {lb : Lb} (hl : BufValid lb) {b : Nat} {e : Int} {path : Bytes}
    {force : Bool} {ts : Int} {r : Option Bytes} (hs : lbufSave ed lb b e path force ts = some (r, ed')) : EdOk ed' := by
  by_cases hg : GuardsPass ed path force ts
  · have ho : ed.nextFault.1 ≠ 101 := by rw [nextFault_fst h.nofault]; decide
    rcases Props.C03.lbufSave_cases ed lb b e path force ts hg ho with ⟨_, h1⟩ | ⟨st, hw, hc⟩
    · rw [h1] at hs; cases hs
    · have h2 := h.afterOpen path
      have hok : st.ok = true := by
        by_cases he : endLine lb e ≤ lb.lines.length
        · obtain ⟨st', hw', hok'⟩ := Props.C03.wrFinal_completes (Props.C03.afterOpen ed path) lb b (endLine lb e) h2.noErr he
          rw [hw] at hw'; injection hw' with hw'; subst hw'; exact hok'
        · unfold wrFinal at hw
          rw [if_pos (by omega)] at hw; cases hw
      obtain ⟨e1, e2, _⟩ := Props.C03.wrFinal_ok_exact _ _ _ _ _ _ _ hw hok
      have h3 : EdOk (afterWrite (afterOpen ed path) path (oldData ed.nextFault.2 path) (endLine lb e - b) st) := by
        unfold Props.C03.afterWrite
        simp only []
        refine (h2.putFile (f := ⟨path, _, _⟩) ?_).to rfl
        simp only [hok, if_true]
        rw [e2, ← e1, Props.C01.wr_file, e1]
        apply isU8_flatten
        intro l hl'
        exact hl l ((List.drop_sublist b _).subset ((List.take_sublist _ _).subset hl'))
      simp only [] at hc
      rcases hc with ⟨hf, _⟩ | ⟨_, _, h1⟩ | ⟨_, _, h1⟩
      · rw [hok] at hf; cases hf
      · rw [h1] at hs; injection hs with hs; injection hs with _ hs; subst hs; exact h3.nextFault
      · rw [h1] at hs; injection hs with hs; injection hs with _ hs; subst hs; exact h3.nextFault
  · obtain ⟨msg, h1⟩ := Props.C03.guards_fail ed lb b e path force ts hg
    rw [h1] at hs; injection hs with hs; injection hs with _ hs; subst hs; exact h

theorem lbufSaveP_ok {ed ed' : Ed} (h : EdOk ed) {lb : Lb} (hl : BufValid lb) {b : Nat} {e : Int} {path : Bytes}
    {force : Bool} {ts : Int} {r : Option Bytes} (hs : lbufSaveP ed lb b e path force ts = some (r, ed')) : EdOk ed' := by
  unfold lbufSaveP at hs
  split at hs
  · simp only [] at hs
    injection hs with hs; injection hs with _ hs; subst hs
    split
    · exact h.nextFault.to rfl
    · exact h.nextFault
  · exact lbufSave_ok h hl hs

/-- **`bufs_modified`** (it may write the buffer out when `autowrite` is set) -/
theorem bufsModified_ok {ed ed' : Ed} (h : EdOk ed) {idx : Nat} {msg : Option Bytes} {r : Bool}
    (hm : bufsModified ed idx msg = some (r, ed')) : EdOk ed' := by
  unfold bufsModified at hm
  split at hm
  · injection hm with hm; injection hm with _ hm; subst hm; exact h
  · simp only [] at hm
    have h1 := h.modifiedAt idx
    generalize ed.modifiedAt idx = p at hm h1
    obtain ⟨m, ed1⟩ := p
    simp only [] at hm h1
    split at hm
    · injection hm with hm; injection hm with _ hm; subst hm; exact h1
    · split at hm
      · cases hm
      · rename_i b hb
        split at hm
        · split at hm
          · cases hm
          · rename_i err ed2 hsv
            injection hm with hm; injection hm with _ hm; subst hm
            exact lbufSave_ok h1 (h1.getD hb).1.lines hsv
        · injection hm with hm; injection hm with _ hm; subst hm
          split
          · exact h1.show _
          · exact h1

/-- the guard `if c then bufs_modified(...) else pass` -/
theorem guard_ok {ed ed' : Ed} {c : Prop} [Decidable c] {idx : Nat} {msg : Option Bytes} {r : Bool} (hi : EdOk ed)
    (h : (if c then bufsModified ed idx msg else some (false, ed) : R Bool) = some (r, ed')) : EdOk ed' := by
  split at h
  · exact bufsModified_ok hi h
  · cases h; exact hi

/-! ## the shell oracle -/

theorem map_upper_valid {s : Bytes} (h : IsU8 s) : IsU8 (s.map Lemmas.C06c.upperC) := by
  obtain ⟨cs, hv, rfl⟩ := h
  induction cs with
  | nil => exact isU8_nil
  | cons c cs ih =>
    have hc := (valid_cons.mp hv).1
    have hcs := (valid_cons.mp hv).2
    rw [encStr_cons, List.map_append]
    refine isU8_append ?_ (ih hcs)
    by_cases hlt : c < 128
    · rw [C12.enc_low hlt]
      simp only [List.map_cons, List.map_nil]
      apply isU8_single
      · unfold Lemmas.C06c.upperC; split
        · rename_i hc'; simp only [Bool.and_eq_true, decide_eq_true_eq] at hc'; omega
        · exact hc.1
      · unfold Lemmas.C06c.upperC; split <;> omega
    · have hhi := C12.enc_high (c := c) (by omega) hc.2
      have : (enc c).map Lemmas.C06c.upperC = enc c := by
        have hm : ∀ (l : Bytes), (∀ x ∈ l, 128 ≤ x) → l.map Lemmas.C06c.upperC = l := by
          intro l
          induction l with
          | nil => intro _; rfl
          | cons a t iht =>
            intro hl'
            rw [List.map_cons, iht (fun x hx => hl' x (by simp [hx]))]
            congr 1
            have := hl' a (by simp)
            unfold Lemmas.C06c.upperC
            rw [if_neg]
            simp only [Bool.and_eq_true, decide_eq_true_eq]; omega
        exact hm _ hhi
      rw [this]; exact isU8_enc hc

/-- the closed shell of the harness maps valid input to valid output -/
theorem builtinPipe_valid (cmd : Bytes) {input : Bytes} (h : IsU8 input) : IsU8 (builtinPipe cmd input) := by
  unfold builtinPipe
  split
  · exact h
  · split
    · exact map_upper_valid h
    · split
      · exact isU8_single (by decide) (by decide)
      · split
        · simp only []
          have ht := isU8_takeWhile_stop h (· != 10) (by intro b hb; simp at hb; omega)
          split
          · exact isU8_append ht isU8_nl
          · exact ht
        · exact isU8_nil

theorem EdOk.pipe {ed : Ed} (h : EdOk ed) (cmd : Bytes) {input : Bytes} (hi : IsU8 input) {o : Option Bytes}
    (hp : ed.pipe cmd input = some o) : OptValid o := by
  unfold Ed.pipe at hp
  split at hp
  · rename_i p hf
    injection hp with hp; subst hp
    exact h.pipes p (List.mem_of_find?_eq_some hf)
  · injection hp with hp; subst hp
    exact optValid_some.mpr (builtinPipe_valid cmd hi)

/-! ## `reg_get` -/

/-- the register `;` — the current line without its newline — is valid, whatever the length of the line
(`reg_get` used to cut it at 1023 bytes, possibly inside a character: a defect found by this module,
`pu_semicolon`, repaired in c41ab90) -/
theorem regGet_line_valid {ed : Ed} (h : EdOk ed) : OptValid (regGet ed 59) := by
  unfold regGet
  simp only []
  rw [if_pos (by decide)]
  apply optValid_some.mpr
  have hl : IsU8 ((ed.line ed.xrow).getD []) := by
    cases hx : ed.line ed.xrow with
    | none => exact isU8_nil
    | some l => exact (h.line hx).1
  exact isU8_takeWhile_stop hl (· != 10) (by intro b hb; simp at hb; omega)

/-- **whatever `reg_get` hands out is valid UTF-8**: the stored registers, the current line `;`, the numbers `#` `^` -/
theorem regGet_valid {ed : Ed} (h : EdOk ed) (c : Nat) : OptValid (regGet ed c) := by
  have hline := regGet_line_valid h
  unfold regGet at hline ⊢
  simp only [] at hline ⊢
  generalize (if (c == 34) = true then 0 else c) = c'
  split
  · rw [if_pos (by decide)] at hline
    exact hline
  · split
    · exact optValid_some.mpr (intStr_valid _)
    · split
      · exact optValid_some.mpr (intStr_valid _)
      · exact h.regs.getRaw c'

end Neatvi.Lemmas.C16c
