import NeatviVerif.Lemmas.C08bInput2
import NeatviVerif.Lemmas.C08bJoin
/-!
# C08 (insert mode): `vc_insert` with a text of two lines (text, newline, text, ESC)
-/
set_option linter.unusedSimpArgs false
namespace Neatvi.Lemmas.C08b
open Neatvi Neatvi.Uc Neatvi.Vi Neatvi.Ex Neatvi.Spec Neatvi.Lemmas.C08 Neatvi.Lemmas.C09

/-! ### the auto-indent and the rest of the line, as characters -/

theorem takeWhile_blank_encStr : ∀ (ps : List Nat), (∀ c ∈ ps, ValidCp c) →
    (encStr ps).takeWhile isBlankC = encStr (ps.takeWhile isBlankC) := by
  intro ps
  induction ps with
  | nil => intro _; rfl
  | cons c t ih =>
    intro hv
    have hc := hv c (by simp)
    rw [encStr_cons]
    by_cases hs : isBlankC c = true
    · have hlt : c < 128 := by unfold isBlankC at hs; simp at hs; omega
      have he : enc c = [c] := by unfold enc; rw [if_pos hlt]
      rw [he, List.takeWhile_cons, if_pos hs, encStr_cons, he]
      simp only [List.singleton_append, List.takeWhile_cons, hs, if_true]
      rw [ih (fun d hd => hv d (by simp [hd]))]
    · obtain ⟨a, u, he, hch⟩ := enc_chr hc
      have ha : isBlankC a = false := by
        unfold enc at he
        split at he
        · injection he with he1 _; subst he1; simpa using hs
        split at he
        · injection he with he1 _; subst he1; unfold isBlankC; simp; omega
        split at he
        · injection he with he1 _; subst he1; unfold isBlankC; simp; omega
        · injection he with he1 _; subst he1; unfold isBlankC; simp; omega
      rw [he, List.takeWhile_cons, if_neg hs]
      simp [ha]

theorem encStr_blanks (l : List Nat) (h : ∀ c ∈ l, isBlankC c = true) : encStr l = l :=
  encStr_ascii l (fun b hb => by have := h b hb; unfold isBlankC at this; simp at this; omega)

theorem blanks_takeWhile (ps : List Nat) : ∀ c ∈ ps.takeWhile isBlankC, isBlankC c = true := by
  induction ps with
  | nil => intro c hc; simp at hc
  | cons x t ih =>
    intro c hc
    by_cases hx : isBlankC x = true
    · rw [List.takeWhile_cons, if_pos hx] at hc
      rcases List.mem_cons.mp hc with rfl | hc
      · exact hx
      · exact ih c hc
    · rw [List.takeWhile_cons, if_neg hx] at hc
      simp at hc

/-- the auto-indent as characters -/
def aiCp (s : VS) (ps : List Nat) : List Nat := if s.xai then (ps.takeWhile isBlankC).take 127 else []
/-- the rest of the line after a newline, as characters -/
def postCp (s : VS) (qs : List Nat) : List Nat := if s.xai then qs.dropWhile isBlankC else qs

theorem aiAfterNl_enc (s : VS) (ps : List Nat) (hv : ∀ c ∈ ps, ValidCp c) :
    aiAfterNl s (encStr ps) = encStr (aiCp s ps) := by
  unfold aiAfterNl aiCp aiOf
  cases s.xai
  · rfl
  · simp only [if_true]
    rw [takeWhile_blank_encStr ps hv, encStr_blanks _ (blanks_takeWhile ps),
      encStr_blanks _ (fun c hc => blanks_takeWhile ps c (List.mem_of_mem_take hc))]

theorem postAfterNl_enc (s : VS) (qs : List Nat) (hv : ∀ c ∈ qs, ValidCp c) :
    postAfterNl s (encStr qs) = encStr (postCp s qs) := by
  unfold postAfterNl postCp
  cases s.xai
  · rfl
  · simp only [if_true]
    rw [takeWhile_blank_encStr qs hv]
    conv => lhs; arg 2; rw [← List.takeWhile_append_dropWhile (p := isBlankC) (l := qs), encStr_append]
    rw [List.drop_left' rfl]

theorem aiCp_valid (s : VS) (ps : List Nat) : (∀ c ∈ aiCp s ps, ValidCp c) ∧ 10 ∉ aiCp s ps := by
  have hb : ∀ c ∈ aiCp s ps, isBlankC c = true := by
    unfold aiCp
    split
    · exact fun c hc => blanks_takeWhile ps c (List.mem_of_mem_take hc)
    · intro c hc; simp at hc
  refine ⟨fun c hc => ?_, fun h => ?_⟩
  · have := hb c hc; unfold isBlankC at this; simp at this
    exact ⟨by omega, by omega⟩
  · have := hb 10 h; simp [isBlankC] at this

theorem postCp_sub (s : VS) (qs : List Nat) : ∀ c ∈ postCp s qs, c ∈ qs := by
  unfold postCp
  split
  · exact fun c hc => (List.dropWhile_sublist _).subset hc
  · exact fun c hc => hc

theorem postCp_snoc (s : VS) (qs' : List Nat) : postCp s (qs' ++ [10]) = postCp s qs' ++ [10] := by
  unfold postCp
  split
  · induction qs' with
    | nil => rfl
    | cons x t ih =>
      by_cases hx : isBlankC x = true
      · simp only [List.cons_append, List.dropWhile_cons, hx, if_true]; exact ih
      · simp only [List.cons_append, List.dropWhile_cons, hx, if_false, Bool.false_eq_true]
  · rfl

/-! ### `charcount` when the typed text has a newline -/

/-- the characters after the last newline of the head -/
theorem charcount_two {hd tl ps : List Nat} (ht : ∀ c ∈ tl, ValidCp c) (hp : ∀ c ∈ ps, ValidCp c) (h10 : 10 ∉ tl) :
    charcount (encStr hd ++ [10] ++ encStr tl ++ encStr ps) (encStr ps) = tl.length := by
  have hno : 10 ∉ encStr tl := ten_notin_encStr h10
  have hlen : (encStr hd ++ [10] ++ encStr tl ++ encStr ps).length - (encStr ps).length =
      (encStr hd ++ [10] ++ encStr tl).length := by
    rw [List.length_append (as := encStr hd ++ [10] ++ encStr tl)]; omega
  have hhead : (encStr hd ++ [10] ++ encStr tl ++ encStr ps).take (encStr hd ++ [10] ++ encStr tl).length =
      encStr hd ++ [10] ++ encStr tl := List.take_left' rfl
  have htw : (encStr hd ++ [10] ++ encStr tl).reverse.takeWhile (· != 10) = (encStr tl).reverse := by
    rw [List.reverse_append, List.reverse_append]
    exact takeWhile_ne_ten (encStr tl).reverse (encStr hd).reverse (by simpa using hno)
  unfold charcount
  rw [if_neg (by rw [List.length_append (as := encStr hd ++ [10] ++ encStr tl)]; omega), hlen, hhead]
  simp only [htw, List.length_reverse]
  have hne : ((encStr tl).length == (encStr hd ++ [10] ++ encStr tl).length) = false := by
    simp only [List.length_append, List.length_singleton]; simp
  rw [hne]
  simp only [Bool.false_eq_true, if_false]
  have e : (encStr hd ++ [10] ++ encStr tl).length - (encStr tl).length = (encStr hd ++ [10]).length := by
    simp only [List.length_append]; omega
  rw [e]
  rw [List.append_assoc (encStr hd ++ [10]), List.drop_left' rfl, ← encStr_append, Props.C16.slen_spec,
    Props.C16.slen_spec hp]
  · simp only [List.length_append]; omega
  · intro c hc
    rcases List.mem_append.mp hc with hc | hc
    · exact ht c hc
    · exact hp c hc

/-! ### the tail of `vc_insert` with a two-line text -/

theorem insertTail_two (ps qs' cs1 cs2 : List Nat) (s : VS) (rest : Bytes) (L : Bytes)
    (hr0 : 0 ≤ s.ed.xrow) (hline : (Vi.lines s)[s.ed.xrow.toNat]? = some L)
    (hps : ∀ c ∈ ps, ValidCp c) (hqs : ∀ c ∈ qs', ValidCp c) (hps10 : 10 ∉ ps) (hqs10 : 10 ∉ qs')
    (hp : pending s = encStr cs1 ++ [10] ++ encStr cs2 ++ [27] ++ rest)
    (hpl : ∀ c ∈ cs1 ++ cs2, ValidCp c ∧ 32 ≤ c ∧ c ≠ 127)
    (hne1 : cs1.head? ≠ none ∧ cs1.head? ≠ some 32) (hne2 : cs2.head? ≠ none ∧ cs2.head? ≠ some 32)
    (hlen1 : cs1.length < 100000) (hlen2 : cs2.length < 100000) (hk : s.xkmap = 0) :
    ∃ s', insertTail (encStr ps) (encStr (qs' ++ [10])) s = Res.ok VC_OK s' ∧ pending s' = rest ∧
      Inserted (encStr cs1 ++ [10] ++ encStr cs2 ++ [27]) s s' s.ed.xrow
        [encStr (ps ++ cs1 ++ [10]), encStr (aiCp s ps ++ cs2 ++ (postCp s qs' ++ [10]))] 1 (s.ed.xrow + 1)
        (((aiCp s ps).length : Int) + cs2.length - 1) := by
  have hqv : ∀ c ∈ qs' ++ [10], ValidCp c := valid_snoc_ten hqs
  have h10a : 10 ∉ cs1 := fun h => by have := hpl 10 (List.mem_append_left _ h); omega
  have h10b : 10 ∉ cs2 := fun h => by have := hpl 10 (List.mem_append_right _ h); omega
  obtain ⟨hav, ha10⟩ := aiCp_valid s ps
  have hpcv : ∀ c ∈ postCp s qs', ValidCp c := fun c hc => hqs c (postCp_sub s qs' c hc)
  have hpc10 : 10 ∉ postCp s qs' := fun h => hqs10 (postCp_sub s qs' 10 h)
  obtain ⟨s1, h1, h2, h3, h4, h5, h6⟩ := ledInput_two_lines (encStr ps) (encStr (qs' ++ [10])) s cs1 cs2 rest hp hpl
    hne1 hne2 hlen1 hlen2 hk
  rw [aiAfterNl_enc s ps hps, postAfterNl_enc s _ hqv, postCp_snoc] at h1
  have hrep : encStr ps ++ encStr cs1 ++ [10] ++ encStr (aiCp s ps) ++ encStr cs2 ++ encStr (postCp s qs' ++ [10]) =
      encStr (ps ++ cs1) ++ [10] ++ encStr (aiCp s ps ++ cs2) ++ encStr (postCp s qs' ++ [10]) := by
    simp only [encStr_append, List.append_assoc]
  rw [hrep] at h1
  have hv1 := viInput_of_ledInput _ _ _ _ _ _ h1
  have hcc := charcount_two (hd := ps ++ cs1) (tl := aiCp s ps ++ cs2) (ps := postCp s qs' ++ [10])
    (fun c hc => by
      rcases List.mem_append.mp hc with hc | hc
      · exact hav c hc
      · exact (hpl c (List.mem_append_right _ hc)).1)
    (valid_snoc_ten hpcv)
    (fun h => by
      rcases List.mem_append.mp h with h | h
      · exact ha10 h
      · exact h10b h)
  have hnl : nlCount (encStr (ps ++ cs1) ++ [10] ++ encStr (aiCp s ps ++ cs2) ++ encStr (postCp s qs' ++ [10])) = 2 := by
    rw [nlCount_append, nlCount_append, nlCount_append, nlCount_encStr (cs := ps ++ cs1), nlCount_encStr (cs := aiCp s ps ++ cs2),
      encStr_append, nlCount_append, nlCount_encStr hpc10]
    · rfl
    · intro h
      rcases List.mem_append.mp h with h | h
      · exact ha10 h
      · exact h10b h
    · intro h
      rcases List.mem_append.mp h with h | h
      · exact hps10 h
      · exact h10a h
  rw [hcc, hnl] at hv1
  obtain ⟨offv, hoffv⟩ : ∃ x : Int, x = (if (((aiCp s ps ++ cs2).length : Nat) : Int) - 1 < 0 then 0
      else (((aiCp s ps ++ cs2).length : Nat) : Int) - 1) := ⟨_, rfl⟩
  rw [← hoffv] at hv1
  have hline1 : (Vi.lines s1)[s.ed.xrow.toNat]? = some L := by rw [h4]; exact hline
  obtain ⟨lb, hlb⟩ := lb_of_line s1 _ L hline1
  have hrlt : s.ed.xrow.toNat < (Vi.lines s).length := (List.getElem?_eq_some_iff.mp hline).1
  have hbeg : s1.ed.xrow - ((2 : Nat) : Int) + 1 = s.ed.xrow := by rw [h5]; omega
  obtain ⟨ed', he1, he2, he3⟩ := edEdit_spec s1
    (encStr (ps ++ cs1) ++ [10] ++ encStr (aiCp s ps ++ cs2) ++ encStr (postCp s qs' ++ [10])) s.ed.xrow (s.ed.xrow + 1) lb
    hlb hr0 (by omega) (by unfold lenOf; rw [h4]; omega)
  have hl1 : Props.C01.WfLine (encStr (ps ++ cs1 ++ [10])) := wfLine_enc (by
    intro h
    rcases List.mem_append.mp h with h | h
    · exact hps10 h
    · exact h10a h)
  have hl2 : Props.C01.WfLine (encStr (aiCp s ps ++ cs2 ++ (postCp s qs' ++ [10]))) := wfLine_enc_snoc (by
    intro h
    rcases List.mem_append.mp h with h | h
    · exact ha10 h
    · exact h10b h) hpc10
  have hsplit : Lbuf.splitLines (encStr (ps ++ cs1) ++ [10] ++ encStr (aiCp s ps ++ cs2) ++ encStr (postCp s qs' ++ [10])) =
      [encStr (ps ++ cs1 ++ [10]), encStr (aiCp s ps ++ cs2 ++ (postCp s qs' ++ [10]))] := by
    have := Props.C01.split_of_join [encStr (ps ++ cs1 ++ [10]), encStr (aiCp s ps ++ cs2 ++ (postCp s qs' ++ [10]))]
      (by
        intro l hl
        simp only [List.mem_cons, List.not_mem_nil, or_false] at hl
        rcases hl with rfl | rfl
        · exact hl1
        · exact hl2)
    rw [← this]
    congr 1
    simp only [List.flatten_cons, List.flatten_nil, List.append_nil, encStr_append, List.append_assoc]
    rfl
  refine ⟨{ s1 with ed := { ed' with xoff := offv } }, ?_, h2, ?_⟩
  · unfold insertTail
    simp only [bind_apply, hv1, get_apply, hbeg, he1, setOff_apply, pure_apply]
  · refine ⟨?_, ?_, ?_, ?_, ?_⟩
    · show Lemmas.C06.lines ed' = _
      rw [he2, h4, hsplit, show (s.ed.xrow + 1).toNat = s.ed.xrow.toNat + 1 by omega]
    · show ed'.xrow = s.ed.xrow + 1
      rw [he3]; exact h5
    · show offv = _
      have hpos : 0 < cs2.length := by
        cases cs2 with
        | nil => exact absurd rfl hne2.1
        | cons c t => simp
      rw [hoffv, if_neg (by simp only [List.length_append]; omega)]
      simp only [List.length_append]; omega
    · show ed'.regs = s.ed.regs
      rw [he3]; exact h6
    · exact h3.withEd _

end Neatvi.Lemmas.C08b
