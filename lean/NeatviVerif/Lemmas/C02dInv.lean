import NeatviVerif.Lemmas.C02dFs
import NeatviVerif.Lemmas.C02bRun
/-!
# C02d lemmas, part 2: the invariant tying every buffer of the table to the file system

`BufOk F c b`: the buffer `b` was built by the lbuf API with some ghost `d` (the text at its most recent
`lbuf_saved`, `none` after `lbuf_unsaved`), its recorded time stamp is not beyond the clock `c`, and —
`Agrees` — if `d = some t`, the buffer has a name and the file of that name still carries the time stamp
the buffer recorded when it was loaded or written (nobody, the editor included, wrote the path since),
then the file, if it exists, holds `t`.

`Inv ed`: the file system has sane stamps and every buffer of the table is `BufOk`.
-/
namespace Neatvi.Lemmas.C02d
open Neatvi Neatvi.Lbuf Neatvi.LbufIo Neatvi.Ex Neatvi.Props Neatvi.Lemmas.C02b Neatvi.Lemmas.C02Ex
open Neatvi.Lemmas.ExFrame

/-- the ghost `d` of buffer `b` agrees with the files `F` -/
def Agrees (F : List File) (b : Buf) (d : Option (List Bytes)) : Prop :=
  ∀ t, d = some t → b.path ≠ [] → mtimeF F b.path = b.mtime →
    ∀ fl, findF F b.path = some fl → FileIs fl.data t

def BufOk (F : List File) (c : Int) (b : Buf) : Prop :=
  b.mtime ≤ c ∧ ∃ d, LbReach b.lb d ∧ Agrees F b d

def Core (F : List File) (c : Int) (bufs : List (Option Buf)) : Prop :=
  FsOk F c ∧ ∀ b, some b ∈ bufs → BufOk F c b

/-- the invariant of C02d -/
def Inv (ed : Ed) : Prop := Core ed.files ed.clock ed.bufs

theorem Inv.fs {ed : Ed} (h : Inv ed) : FsOk ed.files ed.clock := h.1
theorem Inv.mem {ed : Ed} (h : Inv ed) {b : Buf} (hb : some b ∈ ed.bufs) : BufOk ed.files ed.clock b := h.2 b hb
theorem Inv.at {ed : Ed} (h : Inv ed) {i : Nat} {b : Buf} (hb : ed.bufs.getD i none = some b) :
    BufOk ed.files ed.clock b := h.2 b (C20.mem_of_getD _ _ _ hb).1
theorem Inv.cur {ed : Ed} (h : Inv ed) {b : Buf} (hb : ed.cur = some b) : BufOk ed.files ed.clock b := h.at hb

/-- same table, files and clock -/
theorem Inv.to {ed ed' : Ed} (h : Inv ed) (hb : ed'.bufs = ed.bufs) (hf : ed'.files = ed.files)
    (hc : ed'.clock = ed.clock) : Inv ed' := by
  unfold Inv; rw [hb, hf, hc]; exact h

/-- same table, files and clock -/
def Same (ed ed' : Ed) : Prop := ed'.bufs = ed.bufs ∧ ed'.files = ed.files ∧ ed'.clock = ed.clock

theorem Same.refl (ed : Ed) : Same ed ed := ⟨rfl, rfl, rfl⟩
theorem Same.trans {a b c : Ed} (h1 : Same a b) (h2 : Same b c) : Same a c :=
  ⟨h2.1.trans h1.1, h2.2.1.trans h1.2.1, h2.2.2.trans h1.2.2⟩
theorem Inv.same {ed ed' : Ed} (h : Inv ed) (hs : Same ed ed') : Inv ed' := h.to hs.1 hs.2.1 hs.2.2

theorem same_of_addrOnly {ed ed' : Ed} (h : Lemmas.C06.AddrOnly ed ed') : Same ed ed' := by
  obtain ⟨_, _, _, rfl⟩ := h; exact ⟨rfl, rfl, rfl⟩

theorem exRegion_same {ed ed' : Ed} {loc : Bytes} {r : Nat × Int × Int} (h : exRegion ed loc = some (r, ed')) :
    Same ed ed' := by
  obtain ⟨rc, b, e⟩ := r
  exact same_of_addrOnly (Lemmas.C06.region_all ed loc rc b e ed' h).1

theorem pathExpand_same {ed ed' : Ed} {src : Bytes} {sp : Bool} {r : Option Bytes}
    (h : pathExpand ed src sp = some (r, ed')) : Same ed ed' := by
  obtain ⟨h1, h2⟩ := Lemmas.C06b.pathExpand_cases h
  cases r with
  | none => rw [h2 rfl]; exact ⟨rfl, rfl, rfl⟩
  | some p => rw [h1 rfl]; exact Same.refl _

/-! ### one buffer -/

/-- a record with the same path and time stamp whose line buffer went through ghost-preserving calls -/
theorem BufOk.of {F : List File} {c : Int} {b b' : Buf} (h : BufOk F c b) (hp : b'.path = b.path)
    (hm : b'.mtime = b.mtime) (hl : ∀ d, LbReach b.lb d → LbReach b'.lb d) : BufOk F c b' := by
  obtain ⟨h1, d, hr, ha⟩ := h
  refine ⟨by rw [hm]; exact h1, d, hl d hr, ?_⟩
  intro t ht hne hmt fl hfl
  rw [hp] at hne hmt hfl
  rw [hm] at hmt
  exact ha t ht hne hmt fl hfl

theorem BufOk.bump {F : List File} {c : Int} {b : Buf} (h : BufOk F c b) :
    BufOk F c { b with lb := (modified b.lb).2 } := h.of rfl rfl (fun _ hd => hd.bump)

theorem BufOk.setLb {F : List File} {c : Int} {b : Buf} {lb : Lb} (h : BufOk F c b)
    (hl : ∀ d, LbReach b.lb d → LbReach lb d) : BufOk F c { b with lb := lb } := h.of rfl rfl hl

/-- a fresh record (`bufs_open`, `:b !` on the last buffer) -/
theorem bufOk_fresh {F : List File} {c : Int} (hfs : FsOk F c) (b : Buf) (hlb : b.lb = Lbuf.make) (hm : b.mtime = -1) :
    BufOk F c b := by
  refine ⟨by rw [hm]; exact hfs.1, some [], by rw [hlb]; exact LbReach.make, ?_⟩
  intro t _ _ hmt fl hfl
  have := findF_none_of_neg hfs (p := b.path) (by rw [hmt, hm]; decide)
  rw [this] at hfl; cases hfl

/-- the buffer survives a save to `path` (by whatever buffer): either the file it is attached to is not
    touched, or that file now carries a stamp newer than anything the buffer recorded -/
theorem BufOk.save {ed ed' : Ed} {path : Bytes} {b : Buf} (h : BufOk ed.files ed.clock b)
    (he : SaveEff ed ed' path) : BufOk ed'.files ed'.clock b := by
  obtain ⟨h1, d, hr, ha⟩ := h
  refine ⟨Int.le_trans h1 he.clock, d, hr, ?_⟩
  intro t ht hne hmt fl hfl
  by_cases hp : b.path = path
  · rcases he.self with ⟨hf, _⟩ | ⟨fl', hfl', hgt⟩
    · rw [hf] at hmt hfl
      exact ha t ht hne hmt fl hfl
    · exfalso
      rw [hp] at hmt
      have h2 : mtimeF ed'.files path = fl'.mtime := mtimeF_some hfl'
      omega
  · have ho := he.other b.path hp
    have hfl0 : findF ed.files b.path = some fl := by rw [← hfl]; exact ho.symm
    have hm0 : mtimeF ed.files b.path = b.mtime := by
      rw [← hmt]; unfold mtimeF; rw [hfl0, hfl]
    exact ha t ht hne hm0 fl hfl0

/-! ### the table -/

theorem core_sub {F : List File} {c : Int} {l l' : List (Option Buf)} (h : Core F c l)
    (hs : ∀ b, some b ∈ l' → some b ∈ l) : Core F c l' := ⟨h.1, fun b hb => h.2 b (hs b hb)⟩

theorem core_set {F : List File} {c : Int} {l : List (Option Buf)} {b : Buf} (h : Core F c l) (i : Nat)
    (hb : BufOk F c b) : Core F c (l.set i (some b)) := by
  refine ⟨h.1, fun b' hb' => ?_⟩
  rcases List.mem_or_eq_of_mem_set hb' with hm | he
  · exact h.2 b' hm
  · cases he; exact hb

theorem inv_save {ed ed' : Ed} {path : Bytes} (h : Inv ed) (he : SaveEff ed ed' path) : Inv ed' := by
  refine ⟨he.fs h.1, fun b hb => ?_⟩
  rw [he.bufs] at hb
  exact (h.2 b hb).save he

theorem inv_setCur {ed : Ed} {b : Buf} (h : Inv ed) (hb : BufOk ed.files ed.clock b) : Inv (ed.setCur b) :=
  core_set h 0 hb

/-- the current line buffer replaced by the result of ghost-preserving calls -/
theorem inv_setLb {ed : Ed} {lb0 lb : Lb} (h : Inv ed) (hl : ed.lb = some lb0)
    (hr : ∀ d, LbReach lb0 d → LbReach lb d) : Inv (ed.setLb lb) := by
  obtain ⟨b, hc, rfl⟩ := lb_some hl
  unfold Ed.setLb
  rw [hc]
  exact inv_setCur h ((h.cur hc).setLb hr)

theorem inv_updLb {ed : Ed} (G : Lb → Lb) (hG : ∀ lb d, LbReach lb d → LbReach (G lb) d) (h : Inv ed) :
    Inv (match ed.lb with | some lb => ed.setLb (G lb) | none => ed) := by
  cases hl : ed.lb with
  | none => exact h
  | some lb => exact inv_setLb h hl (hG lb)

theorem inv_edit {ed ed' : Ed} {s : Option Bytes} {b e : Int} (h : Inv ed) (he : ed.edit s b e = some ed') :
    Inv ed' := by
  obtain ⟨_, _, lb, lb', hlb, hed, rfl, _⟩ := Ed_edit_some he
  exact inv_setLb h hlb (fun _ hd => hd.edit _ _ _ hed)

theorem inv_edit3 {ed0 ed ed1 ed' : Ed} {s : Option Bytes} {b e : Int} (he : ed.edit s b e = some ed1)
    (h : Inv ed0) (hs0 : Same ed0 ed) (hs : Same ed1 ed') : Inv ed' :=
  (inv_edit (h.same hs0) he).same hs

theorem inv_modifiedAt {ed : Ed} (idx : Nat) (h : Inv ed) : Inv (ed.modifiedAt idx).2 := by
  unfold Ed.modifiedAt
  cases hb : ed.bufs.getD idx none with
  | none => exact h
  | some b => exact core_set h idx (h.at hb).bump

theorem inv_bufsModified {ed ed' : Ed} {idx : Nat} {msg : Option Bytes} {r : Bool} (h : Inv ed)
    (hm : bufsModified ed idx msg = some (r, ed')) : Inv ed' := by
  unfold bufsModified at hm
  have h1 := inv_modifiedAt idx h
  generalize ed.modifiedAt idx = p at hm h1
  obtain ⟨m, ed1⟩ := p
  simp only [] at hm h1
  split at hm
  · cases hm; exact h
  · split at hm
    · cases hm; exact h1
    · split at hm
      · cases hm
      · split at hm
        · split at hm
          · cases hm
          · rename_i hs
            cases hm
            exact inv_save h1 (lbufSave_eff _ _ _ _ _ _ _ _ _ hs)
        · cases hm
          split
          · exact h1
          · exact h1

/-- the guard `if c then bufs_modified(...) else pass` -/
theorem inv_guard {ed ed' : Ed} {c : Prop} [Decidable c] {idx : Nat} {msg : Option Bytes} {r : Bool} (hi : Inv ed)
    (h : (if c then bufsModified ed idx msg else some (false, ed) : R Bool) = some (r, ed')) : Inv ed' := by
  split at h
  · exact inv_bufsModified hi h
  · cases h; exact hi

/-! ### `bufs_switch`, `bufs_open`, `bufs_shift` -/

theorem switch_clock (ed : Ed) (idx : Nat) : (ed.bufsSwitch idx).clock = ed.clock := by
  unfold Ed.bufsSwitch Ed.bufsLoad Ed.bufsSave Ed.setCur
  simp only []
  repeat' split
  all_goals rfl

theorem leftBufs_ok {ed : Ed} (h : Inv ed) : ∀ b, some b ∈ C20.leftBufs ed → BufOk ed.files ed.clock b := by
  intro b hb
  unfold C20.leftBufs at hb
  split at hb
  · rename_i b0 h0
    rcases List.mem_or_eq_of_mem_set hb with hm | he
    · exact h.mem hm
    · cases he
      exact (h.at h0).of rfl rfl (fun _ hd => hd.bump)
  · exact h.mem hb

theorem inv_bufsSwitch {ed : Ed} (idx : Nat) (h : Inv ed) : Inv (ed.bufsSwitch idx) := by
  unfold Inv
  rw [C20.switch_files, switch_clock, C20.switch_rotation]
  refine ⟨h.1, fun b hb => ?_⟩
  have hs := leftBufs_ok h
  simp only [List.mem_append, List.mem_singleton] at hb
  rcases hb with (hb | hb) | hb
  · exact hs b (C20.mem_of_getD _ _ _ hb.symm).1
  · exact hs b (List.mem_of_mem_take hb)
  · exact hs b (List.mem_of_mem_drop hb)

theorem inv_bufsOpen {ed : Ed} (p : Bytes) (h : Inv ed) : Inv (ed.bufsOpen p).2 := by
  unfold Ed.bufsOpen
  exact core_set h _ (bufOk_fresh h.1 _ rfl rfl)

theorem bufsLoad_files (ed : Ed) : ed.bufsLoad.files = ed.files := by
  unfold Ed.bufsLoad; split <;> rfl
theorem bufsLoad_clock (ed : Ed) : ed.bufsLoad.clock = ed.clock := by
  unfold Ed.bufsLoad; split <;> rfl

theorem inv_bufsLoad {ed : Ed} (h : Inv ed) : Inv ed.bufsLoad :=
  h.to (C20.bufsLoad_bufs ed) (bufsLoad_files ed) (bufsLoad_clock ed)

theorem inv_bufsShift {ed : Ed} (h : Inv ed) : Inv ed.bufsShift := by
  unfold Ed.bufsShift
  apply inv_bufsLoad
  show Core ed.files ed.clock (ed.bufs.drop 1 ++ [none])
  refine core_sub h ?_
  intro b hb
  simp only [List.mem_append, List.mem_singleton, reduceCtorEq, or_false] at hb
  exact List.mem_of_mem_drop hb

/-- a table with the same (path, time stamp, line buffer) slot by slot -/
theorem core_congr_view {F : List File} {c : Int} {l l' : List (Option Buf)}
    (hm : l'.map (Option.map (fun b => (b.path, b.mtime, b.lb))) = l.map (Option.map (fun b => (b.path, b.mtime, b.lb))))
    (h : Core F c l) : Core F c l' := by
  refine ⟨h.1, fun b' hb' => ?_⟩
  have h1 : some (b'.path, b'.mtime, b'.lb) ∈ l'.map (Option.map (fun b => (b.path, b.mtime, b.lb))) :=
    List.mem_map.2 ⟨some b', hb', rfl⟩
  rw [hm] at h1
  obtain ⟨x, hx, hxe⟩ := List.mem_map.1 h1
  cases x with
  | none => cases hxe
  | some b =>
    simp only [Option.map_some, Option.some.injEq, Prod.mk.injEq] at hxe
    exact (h.2 b hx).of hxe.1.symm hxe.2.1.symm (fun d hd => by rw [← hxe.2.2]; exact hd)

/-- the renumbering loop of `:b ~` keeps paths, time stamps and line buffers -/
theorem renumber_view : ∀ (l : List (Option Buf)) (acc : List (Option Buf)) (n : Int),
    ((l.foldl (fun (acc : List (Option Buf) × Int) b =>
      match b with
      | some x => (acc.1 ++ [some { x with id := acc.2 + 1 }], acc.2 + 1)
      | none => (acc.1 ++ [none], acc.2)) (acc, n)).1).map (Option.map (fun b => (b.path, b.mtime, b.lb))) =
    (acc ++ l).map (Option.map (fun b => (b.path, b.mtime, b.lb))) := by
  intro l
  induction l with
  | nil => intro acc n; simp
  | cons a l ih =>
    intro acc n
    rw [List.foldl_cons]
    cases a with
    | none => simp only []; rw [ih]; simp
    | some x => simp only []; rw [ih]; simp

end Neatvi.Lemmas.C02d
