import NeatviVerif.Lemmas.C15bWitness
/-!
# C15b lemmas, part 9: `:g/a/.,+1g/$/s/$/x/` on `a1 a2 a3 a4 z`, evaluated in the kernel

The outer `:g` works on the four `a` lines; on each the inner `:g` runs over that line and the next one and appends
an `x` to both.  `a1` gets one `x` (from its own round), `a2 a3 a4` two (their own round and the one before), `z` one
(from the round of `a4`): `a1x a2xx a3xx a4xx zx`.  Every line the outer `:g` marked is visited once although the
inner `:g` marks, visits and sweeps lines in between.

(The example of the task, `:g/a/.,+1g/./s/$/x/`, gives the same text — `#eval` on the model and the program itself
agree on it, see the report.  The pattern `.` runs the backtracking matcher, a well-founded recursion the kernel does
not unfold; `$` selects every line as well and is matched by the literal-pattern fast path.)
-/
namespace Neatvi.Lemmas.C15b
open Neatvi Neatvi.Lbuf Neatvi.Ex Neatvi.Rset Neatvi.Props Neatvi.Props.C15
open Neatvi.Lemmas.ExFrame Neatvi.Lemmas.C05d Neatvi.Lemmas.C06b Neatvi.Lemmas.C20c

/-- `:s` with argument `arg` and no address -/
def subF (arg : Bytes) (ed : Ed) : R Int :=
  match exRegion ed [] with
  | none => none
  | some ((rc, b, e), ed) =>
    if rc != 0 then some (1, ed) else
    if (C14.substPrep ed arg).1.xkwddir == 0 then some (1, (C14.substPrep ed arg).1) else
    match (C14.substPrep ed arg).1.mkRe (C14.substPrep ed arg).1.xkwd with
    | none => none
    | some none => some (1, (C14.substPrep ed arg).1)
    | some (some re) =>
      match C14.substLoop re (C14.substPrep ed arg).2 b (e - b).toNat (C14.substPrep ed arg).1 with
      | none => none
      | some ed => some (0, ed)

/-- `s/$/x/` -/
def lineS : Bytes := [115, 47, 36, 47, 120, 47]
/-- `.,+1g/$/s/$/x/` -/
def lineInner : Bytes := [46, 44, 43, 49, 103, 47, 36, 47] ++ lineS
/-- `g/a/.,+1g/$/s/$/x/` -/
def lineOuter : Bytes := [103, 47, 97, 47] ++ lineInner

theorem subF_runs (f : Nat) : Runs (f + 2) lineS (subF [47, 36, 47, 120, 47]) := by
  intro e r e' h
  refine exExec_single (f + 1) e e' lineS [115] "ec_substitute" r (by decide) (by decide) (by decide +kernel) (by decide)
    (by decide +kernel) ?_
  rw [show (parse1 lineS).loc = [] by decide +kernel, show (parse1 lineS).cmd = [115] by decide +kernel,
    show (parse1 lineS).arg = [47, 36, 47, 120, 47] by decide +kernel, C14.runCmd_subst_eq]
  exact h

/-- the inner `:g` as a function of the state it starts in -/
def innerF (ed : Ed) : R Int := ecGlobF (subF [47, 36, 47, 120, 47]) ed [46, 44, 43, 49] [103] ([47, 36, 47] ++ lineS)

theorem innerF_runs (f : Nat) : Runs (f + 5) lineInner innerF := by
  intro e r e' h
  refine exExec_single (f + 4) e e' lineInner [103] "ec_glob" r (by decide) (by decide) (by decide +kernel) (by decide)
    (by decide +kernel) ?_
  rw [show (parse1 lineInner).loc = [46, 44, 43, 49] by decide +kernel,
    show (parse1 lineInner).cmd = [103] by decide +kernel,
    show (parse1 lineInner).arg = [47, 36, 47] ++ lineS by decide +kernel, runCmd_glob]
  exact ecGlobF_sound e _ _ _
    (by rw [show (reRead ([47, 36, 47] ++ lineS)).2 = lineS by decide +kernel]; exact subF_runs f) _ h

/-- the outer `:g` -/
def outerF (ed : Ed) : R Int := ecGlobF innerF ed [] [103] ([47, 97, 47] ++ lineInner)

theorem outerF_runs (f : Nat) (e : Ed) (r : Int) (e' : Ed) (h : outerF e = some (r, e')) :
    exExec (f + 8) e lineOuter = some (r, e') := by
  refine exExec_single (f + 7) e e' lineOuter [103] "ec_glob" r (by decide) (by decide) (by decide +kernel) (by decide)
    (by decide +kernel) ?_
  rw [show (parse1 lineOuter).loc = [] by decide +kernel,
    show (parse1 lineOuter).cmd = [103] by decide +kernel,
    show (parse1 lineOuter).arg = [47, 97, 47] ++ lineInner by decide +kernel, runCmd_glob]
  exact ecGlobF_sound e _ _ _
    (by rw [show (reRead ([47, 97, 47] ++ lineInner)).2 = lineInner by decide +kernel]; exact innerF_runs f) _ h

/-- the buffer `a1 a2 a3 a4 z`, no marks, depth 0 -/
def exEd5 : Ed :=
  { bufs := [some { path := [102], lb := { lines := [[97, 49, 10], [97, 50, 10], [97, 51, 10], [97, 52, 10], [122, 10]],
                                             glob := [0, 0, 0, 0, 0] } }, none] }

theorem outerF_eval :
    (outerF exEd5).map (fun x => (x.1, x.2.xgdep)) = some (0, 0) ∧
    (outerF exEd5).map (fun x => x.2.lb.map (·.lines)) =
      some (some [[97, 49, 120, 10], [97, 50, 120, 120, 10], [97, 51, 120, 120, 10], [97, 52, 120, 120, 10], [122, 120, 10]]) ∧
    (outerF exEd5).map (fun x => x.2.lb.map (·.glob)) = some (some [0, 0, 0, 0, 0]) ∧
    (outerF exEd5).map (fun x => x.2.lb.map (·.useq)) = some (some 1) := by
  decide +kernel

/-- **`:g/a/.,+1g/$/s/$/x/` on `a1 a2 a3 a4 z` gives `a1x a2xx a3xx a4xx zx`**, no mark of either depth is left, the
    depth is 0 again, the sequence counter has not moved (one undo step) -/
theorem nested_example (f : Nat) :
    ∃ ed', exExec (f + 8) exEd5 lineOuter = some (0, ed') ∧ ed'.xgdep = 0 ∧
      ed'.lb.map (·.lines) =
        some [[97, 49, 120, 10], [97, 50, 120, 120, 10], [97, 51, 120, 120, 10], [97, 52, 120, 120, 10], [122, 120, 10]] ∧
      ed'.lb.map (·.glob) = some [0, 0, 0, 0, 0] ∧ ed'.lb.map (·.useq) = some 1 := by
  obtain ⟨h1, h2, h3, h4⟩ := outerF_eval
  cases hx : outerF exEd5 with
  | none => rw [hx] at h1; cases h1
  | some x =>
    rw [hx] at h1 h2 h3 h4
    simp only [Option.map_some, Option.some.injEq, Prod.mk.injEq] at h1 h2 h3 h4
    obtain ⟨r, ed'⟩ := x
    simp only [] at h1 h2 h3 h4
    obtain ⟨rfl, hd⟩ := h1
    exact ⟨ed', outerF_runs f exEd5 0 ed' hx, hd, h2, h3, h4⟩

theorem outerF_undo_eval :
    (outerF exEd5).map (fun x => ((x.2.modifiedAt 0).2.lb.bind Lbuf.undo).map (fun y => (y.1, y.2.lines))) =
      some (some (0, [[97, 49, 10], [97, 50, 10], [97, 51, 10], [97, 52, 10], [122, 10]])) ∧
    (outerF exEd5).map (fun x => ((x.2.modifiedAt 0).2.lb.map (fun lb => (lb.hist.length, lb.useq)))) = some (some (8, 2)) := by
  decide +kernel

/-- **one `u` takes the whole nested `:g` back**: `ex_command` on `:g/a/.,+1g/$/s/$/x/` (eight substitutions, eight undo
    records, the counter bumped once), then `lbuf_undo`: return value 0 and the text `a1 a2 a3 a4 z` again -/
theorem nested_example_undo (f : Nat) :
    ∃ ed', exCommand (f + 9) exEd5 lineOuter = some (0, ed') ∧
      ed'.lb.map (fun lb => (lb.hist.length, lb.useq)) = some (8, 2) ∧
      (ed'.lb.bind Lbuf.undo).map (fun y => (y.1, y.2.lines)) =
        some (0, [[97, 49, 10], [97, 50, 10], [97, 51, 10], [97, 52, 10], [122, 10]]) := by
  obtain ⟨h1, h2⟩ := outerF_undo_eval
  cases hx : outerF exEd5 with
  | none => rw [hx] at h1; cases h1
  | some x =>
    rw [hx] at h1 h2
    simp only [Option.map_some, Option.some.injEq] at h1 h2
    obtain ⟨r, ed1⟩ := x
    have hr : r = 0 := by
      have := outerF_eval.1
      rw [hx] at this
      simp only [Option.map_some, Option.some.injEq, Prod.mk.injEq] at this
      exact this.1
    subst hr
    refine ⟨(ed1.modifiedAt 0).2, ?_, h2, h1⟩
    rw [exCommand, outerF_runs f exEd5 0 ed1 hx]

/-! ### the line that is left behind, end to end: `:g/a/s/$/!/|%g/b/d` on `b b a a b` -/

/-- `%g/b/d` -/
def lineDel : Bytes := [37, 103, 47, 98, 47, 100]
/-- `s/$/!/|%g/b/d` -/
def lineBang : Bytes := [115, 47, 36, 47, 33, 47, 124] ++ lineDel
/-- `g/a/s/$/!/|%g/b/d` -/
def lineSkip : Bytes := [103, 47, 97, 47] ++ lineBang

theorem delGlob_runs (f : Nat) (e : Ed) (r : Int) (e' : Ed)
    (h : ecGlobF delF e [37] [103] [47, 98, 47, 100] = some (r, e')) : exExec (f + 5) e lineDel = some (r, e') := by
  refine exExec_single (f + 4) e e' lineDel [103] "ec_glob" r (by decide) (by decide) (by decide +kernel) (by decide)
    (by decide +kernel) ?_
  rw [show (parse1 lineDel).loc = [37] by decide +kernel, show (parse1 lineDel).cmd = [103] by decide +kernel,
    show (parse1 lineDel).arg = [47, 98, 47, 100] by decide +kernel, runCmd_glob]
  exact ecGlobF_sound e _ _ _
    (by rw [show (reRead [47, 98, 47, 100]).2 = [100] by decide +kernel]; exact delF_runs f) _ h

/-- the command list `s/$/!/|%g/b/d` as a function of the state -/
def bangF (ed : Ed) : R Int :=
  match subF [47, 36, 47, 33, 47] ed with
  | none => none
  | some (_, ed1) => ecGlobF delF ed1 [37] [103] [47, 98, 47, 100]

theorem bangF_runs (f : Nat) : Runs (f + 5) lineBang bangF := by
  intro e r e' h
  unfold bangF at h
  split at h
  · cases h
  · rename_i r1 e1 hs
    have h1 : runOne (f + 4) e (parse1 lineBang) 0 = some ((r1, e1), lineDel) := by
      rw [runOne_known (f + 4) e (parse1 lineBang) 0 [115] "ec_substitute" (by decide +kernel) (by decide),
        show (parse1 lineBang).loc = [] by decide +kernel, show (parse1 lineBang).cmd = [115] by decide +kernel,
        show (parse1 lineBang).arg = [47, 36, 47, 33, 47] by decide +kernel,
        show (parse1 lineBang).rest = lineDel by decide +kernel, C14.runCmd_subst_eq]
      show Option.map (fun x => (x, lineDel)) (subF [47, 36, 47, 33, 47] e) = _
      rw [hs]; rfl
    rw [Props.C06b.exExec_seq (f + 4) e e1 lineBang lineDel r1 (by decide) (by decide) h1 (Or.inr (by decide +kernel)),
      if_neg (by decide)]
    exact delGlob_runs f e1 r e' h

def skipF (ed : Ed) : R Int := ecGlobF bangF ed [] [103] ([47, 97, 47] ++ lineBang)

theorem skipF_runs (f : Nat) (e : Ed) (r : Int) (e' : Ed) (h : skipF e = some (r, e')) :
    exExec (f + 8) e lineSkip = some (r, e') := by
  refine exExec_single (f + 7) e e' lineSkip [103] "ec_glob" r (by decide) (by decide) (by decide +kernel) (by decide)
    (by decide +kernel) ?_
  rw [show (parse1 lineSkip).loc = [] by decide +kernel,
    show (parse1 lineSkip).cmd = [103] by decide +kernel,
    show (parse1 lineSkip).arg = [47, 97, 47] ++ lineBang by decide +kernel, runCmd_glob]
  exact ecGlobF_sound e _ _ _
    (by rw [show (reRead ([47, 97, 47] ++ lineBang)).2 = lineBang by decide +kernel]; exact bangF_runs f) _ h

/-- the buffer `b b a a b`, no marks, depth 0 -/
def exEdSkip : Ed :=
  { bufs := [some { path := [102], lb := { lines := [[98, 10], [98, 10], [97, 10], [97, 10], [98, 10]],
                                             glob := [0, 0, 0, 0, 0] } }, none] }

theorem skipF_eval :
    (skipF exEdSkip).map (fun x => (x.1, x.2.xgdep)) = some (0, 0) ∧
    (skipF exEdSkip).map (fun x => x.2.lb.map (·.lines)) = some (some [[97, 33, 10], [97, 10]]) ∧
    (skipF exEdSkip).map (fun x => x.2.lb.map (·.glob)) = some (some [0, 0]) := by
  decide +kernel

/-- **`:g/a/s/$/!/|%g/b/d` on `b b a a b` gives `a! a`**: the second `a` line matches, was marked, survives — and is
    never worked on: in the round of the first `a` the inner `:g` deleted two lines before it and one after it and left
    the current row behind it (the program itself gives the same text) -/
theorem nested_skip_example (f : Nat) :
    ∃ ed', exExec (f + 8) exEdSkip lineSkip = some (0, ed') ∧ ed'.xgdep = 0 ∧
      ed'.lb.map (·.lines) = some [[97, 33, 10], [97, 10]] ∧ ed'.lb.map (·.glob) = some [0, 0] := by
  obtain ⟨h1, h2, h3⟩ := skipF_eval
  cases hx : skipF exEdSkip with
  | none => rw [hx] at h1; cases h1
  | some x =>
    rw [hx] at h1 h2 h3
    simp only [Option.map_some, Option.some.injEq, Prod.mk.injEq] at h1 h2 h3
    obtain ⟨r, ed'⟩ := x
    simp only [] at h1 h2 h3
    obtain ⟨rfl, hd⟩ := h1
    exact ⟨ed', skipF_runs f exEdSkip 0 ed' hx, hd, h2, h3⟩

/-! ### one round of an outer `:g` on the witness of `Lemmas/C15bWitness` -/

/-- the inner `:g` `%g/b/d` as a function of the state -/
def delGlobF (ed : Ed) : R Int := ecGlobF delF ed [37] [103] [47, 98, 47, 100]

theorem wEd_globStep_eval :
    (match wEd.mkRe [99] with
      | some (some re) => (globStepF delGlobF false re wEd 2).map (fun x => (x.1, x.2.2, x.2.1.lb.map (·.glob)))
      | _ => none) = some (false, 2, some [0, 2]) := by
  decide +kernel

/-- the round of an outer `:g/c/` (depth 1) on line 2 of `b b c m b` with the command list `%g/b/d`: the loop is to
    restart at index 2, the mark of the outer `:g` sits in slot 1 -/
theorem wEd_globStep : ∃ re ed2 lb2, wEd.mkRe [99] = some (some re) ∧
    globStep 5 false lineDel re wEd 2 = some (false, ed2, 2) ∧ ed2.lb = some lb2 ∧ lb2.glob = [0, 2] := by
  have h := wEd_globStep_eval
  cases hre : wEd.mkRe [99] with
  | none => rw [hre] at h; cases h
  | some o =>
    cases o with
    | none => rw [hre] at h; cases h
    | some re =>
      rw [hre] at h
      simp only [] at h
      cases hs : globStepF delGlobF false re wEd 2 with
      | none => rw [hs] at h; cases h
      | some x =>
        obtain ⟨stop, ed2, i2⟩ := x
        rw [hs] at h
        simp only [Option.map_some, Option.some.injEq, Prod.mk.injEq] at h
        obtain ⟨rfl, rfl, hg⟩ := h
        cases hl : ed2.lb with
        | none => rw [hl] at hg; cases hg
        | some lb2 =>
          rw [hl] at hg
          simp only [Option.map_some, Option.some.injEq] at hg
          refine ⟨re, ed2, lb2, rfl, ?_, hl, hg⟩
          exact globStepF_sound (f := 5) (body := lineDel) (fun e r e' he => delGlob_runs 0 e r e' he) _ _ _ _ _ hs

/-! ### the early exits of `ec_glob` -/

theorem exits_eval :
    (ecGlobF delF exEd5 [] [103] [47, 47, 100]).map (fun x => (x.1, x.2.xgdep)) = some (1, 0) ∧
    (ecGlobF delF exEd5 [57, 44, 49, 48] [103] [47, 97, 47, 100]).map (fun x => (x.1, x.2.xgdep)) = some (1, 0) ∧
    (ecGlobF delF exEd5 [] [103] [47, 40, 97, 47, 100]).map (fun x => (x.1, x.2.xgdep)) = some (1, 0) := by
  decide +kernel

theorem exit_of_eval (ed : Ed) (loc arg : Bytes) (hb : (reRead arg).2 = [100])
    (h : (ecGlobF delF ed loc [103] arg).map (fun x => (x.1, x.2.xgdep)) = some (1, 0)) :
    ∃ ed', ecGlob 3 ed loc [103] arg = some (1, ed') ∧ ed'.xgdep = 0 := by
  cases hx : ecGlobF delF ed loc [103] arg with
  | none => rw [hx] at h; cases h
  | some x =>
    rw [hx] at h
    simp only [Option.map_some, Option.some.injEq, Prod.mk.injEq] at h
    obtain ⟨r, ed'⟩ := x
    simp only [] at h
    obtain ⟨rfl, hd⟩ := h
    exact ⟨ed', ecGlobF_sound ed loc [103] arg (by rw [hb]; exact delF_runs 0) _ hx, hd⟩

/-- `g//d` with no previous pattern, `9,10g/a/d` on five lines, `g/(a/d` (a pattern that does not compile): each
    returns 1 at depth 0 -/
theorem exit_examples :
    (∃ ed', ecGlob 3 exEd5 [] [103] [47, 47, 100] = some (1, ed') ∧ ed'.xgdep = 0) ∧
    (∃ ed', ecGlob 3 exEd5 [57, 44, 49, 48] [103] [47, 97, 47, 100] = some (1, ed') ∧ ed'.xgdep = 0) ∧
    (∃ ed', ecGlob 3 exEd5 [] [103] [47, 40, 97, 47, 100] = some (1, ed') ∧ ed'.xgdep = 0) :=
  ⟨exit_of_eval _ _ _ (by decide +kernel) exits_eval.1, exit_of_eval _ _ _ (by decide +kernel) exits_eval.2.1,
    exit_of_eval _ _ _ (by decide +kernel) exits_eval.2.2⟩

/-! ### the hypotheses of the theorems of `Props/C15b` are satisfiable -/

/-- `nested_visits_in_order`: marks `0 2 2`, the loop stands on line 0, nothing was edited, the search finds line 1 -/
theorem sat_in_order : ∃ (lb lb3 : Lb) (sm : Slots), CarryW (upTo 1) lb lb sm ∧ CleanBelow lb 1 ((0 : Int).toNat + 1) ∧
    CleanBelow lb 1 (0 : Int).toNat ∧
    (∀ k, (0 : Int).toNat ≤ k → k < (1 : Int).toNat → ∀ p, sm k = some p → (lb.glob.getD p.1 0).testBit 1 = false) ∧
    (∀ k, lb3.glob.getD k 0 =
      if (0 : Int).toNat ≤ k ∧ k ≤ (1 : Int).toNat ∧ k < lb.lines.length then clr (lb.glob.getD k 0) 1 else lb.glob.getD k 0) := by
  refine ⟨{ lines := [[10], [10], [10]], glob := [0, 2, 2] }, { lines := [[10], [10], [10]], glob := [0, 0, 2] },
    idSlots 3, CarryW.refl rfl, ?_, ?_, ?_, ?_⟩
  · intro k hk
    have : k = 0 := by simp at hk; omega
    subst this; decide
  · intro k hk; simp at hk
  · intro k _ hk p hp
    have : k = 0 := by simp at hk; omega
    subst this
    simp only [idSlots] at hp
    cases hp; decide
  · intro k
    match k with
    | 0 => decide
    | 1 => decide
    | 2 => decide
    | k + 3 => simp

/-- `left_behind_is_lost`: the state the witness ends in -/
theorem sat_left_behind : ∃ (ed : Ed) (lb : Lb), ed.lb = some lb ∧ (0 : Int) ≤ 2 ∧ lb.lines.length - (2 : Int).toNat < 3 ∧
    1 < (2 : Int).toNat ∧ (lb.glob.getD 1 0).testBit 1 = true :=
  ⟨{ bufs := [some { path := [102], lb := { lines := [[99, 10], [109, 10]], glob := [0, 2] } }, none] },
    { lines := [[99, 10], [109, 10]], glob := [0, 2] }, rfl, by decide, by decide, by decide, by decide⟩

theorem exExec_nil (f : Nat) (ed : Ed) : exExec (f + 1) ed [] = some (0, ed) := by
  rw [exExec, if_neg (by decide), exExec.cmds]
  rfl

/-- `nested_loop_invariant`: the empty command list leaves nothing behind -/
theorem sat_loop_invariant (f dep : Nat) (neg : Bool) (re : RStr) : C15.quietLine 0 [] = true ∧
    ∀ ed i ed2 i2, LoopInv dep ed i → globStep (f + 1) neg [] re ed i = some (false, ed2, i2) →
      ∀ lb2, ed2.lb = some lb2 → CleanBelow lb2 dep i2.toNat := by
  refine ⟨by decide +kernel, ?_⟩
  intro ed i ed2 i2 ⟨_, lb, hl, _, hc⟩ hstep lb2 hl2
  have key : ed2.bufs = ed.bufs ∧ i2 ≤ i := by
    unfold globStep at hstep
    split at hstep
    · cases hstep
    · rename_i ln0 hln0
      have h0 : 0 ≤ i := by
        unfold Ed.line at hln0
        split at hln0
        · cases hln0
        · omega
      split at hstep
      · cases hstep
      · split at hstep
        · rw [exExec_nil] at hstep
          simp only [] at hstep
          split at hstep
          · cases hstep
          · cases hstep
            exact ⟨rfl, by show max 0 (min i i) ≤ i; omega⟩
        · cases hstep
          exact ⟨rfl, Int.le_refl _⟩
  rw [lb_of_bufs key.1, hl] at hl2
  cases hl2
  intro k hk
  exact hc k (by omega)

/-- `beyond_depth_7_hangs`: the pattern `q` does not select the line `a1`, which carries bit 8 -/
theorem sat_hangs : ∃ (re : RStr) (res : Int) (x : List Int × Nat) (ed : Ed) (lb : Lb),
    rstrFind re [97, 49, 10] 16 0 ND NG = some (res, x) ∧ ((res < 0) == false) = false ∧
    ed.lb = some lb ∧ lb.lines[(0 : Int).toNat]? = some [97, 49, 10] ∧ (lb.glob.getD (0 : Int).toNat 0).testBit 8 = true := by
  have h : (match exEd5.mkRe [113] with
      | some (some re) => (match rstrFind re [97, 49, 10] 16 0 ND NG with | some (res, _) => decide (res < 0) | none => false)
      | _ => false) = true := by decide +kernel
  cases hre : exEd5.mkRe [113] with
  | none => rw [hre] at h; cases h
  | some o =>
    cases o with
    | none => rw [hre] at h; cases h
    | some re =>
      rw [hre] at h
      simp only [] at h
      cases hf : rstrFind re [97, 49, 10] 16 0 ND NG with
      | none => rw [hf] at h; cases h
      | some y =>
        obtain ⟨res, x⟩ := y
        rw [hf] at h
        simp only [decide_eq_true_eq] at h
        refine ⟨re, res, x, { bufs := [some { path := [102], lb := { lines := [[97, 49, 10]], glob := [256] } }, none] },
          { lines := [[97, 49, 10]], glob := [256] }, hf, ?_, rfl, rfl, by decide⟩
        simp [h]

end Neatvi.Lemmas.C15b
