import NeatviVerif.Lemmas.C20cSoloA
/-!
# C20c lemmas, part 13: the address parser, the path expansion, the file writer and the
  unsaved-changes check of the current buffer do not look at the parked buffers
-/
namespace Neatvi.Lemmas.C20c
open Neatvi Neatvi.Lbuf Neatvi.LbufIo Neatvi.Ex Neatvi.Rset Neatvi.Props.C20 Neatvi.Props.C20b Neatvi.Lemmas.C20b
open Neatvi.Lemmas.ExFrame Neatvi.Lemmas.C02Ex

theorem tailR_ite {α : Type} (L : List (Option Buf)) (c : Prop) [Decidable c] (a b : R α) :
    tailR L (if c then a else b) = if c then tailR L a else tailR L b := by
  split <;> rfl

theorem withTail_ite (L : List (Option Buf)) (c : Prop) [Decidable c] (a b : Ed) :
    withTail L (if c then a else b) = if c then withTail L a else withTail L b := by
  split <;> rfl

/-! ### `ex_lineno` -/

/-- `ex_lineno`, first stage: the base address -/
def linenoBase (ed : Ed) (loc : Bytes) : R (Int × Bytes) :=
  let c := loc.headD 0
  if c == 46 then some ((ed.xrow, loc.drop 1), ed)
  else if c == 36 then some ((ed.len - 1, loc.drop 1), ed)
  else if c == 39 then
    match ed.lb.bind (fun l => jump l (loc.getD 1 0)) with
    | none => some ((-1000000, loc.drop 1), ed)
    | some (p, _) => some ((p, loc.drop 2), ed)
  else if c == 47 || c == 63 then
    match exSearch ed loc with
    | none => none
    | some ((n, rest), ed) => if n < 0 then some ((-1000000, rest), ed) else some ((n, rest), ed)
  else if isDigitC c then some ((exNum loc TERMMAX - 1, loc.dropWhile isDigitC), ed)
  else some ((ed.xrow, loc), ed)

/-- second stage: the offsets -/
def linenoFin (x : R (Int × Bytes)) : R (Int × Bytes) :=
  match x with
  | none => none
  | some ((n, rest), ed) =>
    if n == -1000000 then some ((-2, rest), ed) else
    some ((max (-NUMMAX) (min (exLineno.offs (rest.length + 1) n rest).1 NUMMAX), (exLineno.offs (rest.length + 1) n rest).2), ed)

theorem exLineno_eq (ed : Ed) (loc : Bytes) : exLineno ed loc = linenoFin (linenoBase ed loc) := by
  unfold exLineno linenoFin linenoBase
  rfl

theorem linenoFin_tailR (L : List (Option Buf)) (x : R (Int × Bytes)) : linenoFin (tailR L x) = tailR L (linenoFin x) := by
  cases x with
  | none => rfl
  | some p =>
    obtain ⟨⟨n, rest⟩, ed⟩ := p
    simp only [tailR_some, linenoFin, tailR_ite]

theorem linenoBase_withTail (L : List (Option Buf)) (ed : Ed) (loc : Bytes) :
    linenoBase (withTail L ed) loc = tailR L (linenoBase ed loc) := by
  unfold linenoBase
  simp only []
  by_cases h1 : (loc.headD 0 == 46) = true
  · simp only [h1, if_true]; rfl
  simp only [h1, Bool.false_eq_true, if_false]
  by_cases h2 : (loc.headD 0 == 36) = true
  · simp only [h2, if_true]; rfl
  simp only [h2, Bool.false_eq_true, if_false]
  by_cases h3 : (loc.headD 0 == 39) = true
  · simp only [h3, if_true, withTail_lb]
    cases ed.lb.bind (fun l => jump l (loc.getD 1 0)) with
    | none => rfl
    | some p => rfl
  simp only [h3, Bool.false_eq_true, if_false]
  by_cases h4 : (loc.headD 0 == 47 || loc.headD 0 == 63) = true
  · simp only [h4, if_true, exSearch_withTail]
    cases exSearch ed loc with
    | none => rfl
    | some p =>
      obtain ⟨⟨n, rest⟩, ed1⟩ := p
      simp only [tailR_some, tailR_ite]
  simp only [h4, Bool.false_eq_true, if_false]
  simp only [tailR_ite, tailR_some]
  rfl

theorem exLineno_withTail (L : List (Option Buf)) (ed : Ed) (loc : Bytes) :
    exLineno (withTail L ed) loc = tailR L (exLineno ed loc) := by
  rw [exLineno_eq, exLineno_eq, linenoBase_withTail, linenoFin_tailR]

/-! ### `ex_region` -/

theorem exRegion_go_withTail (L : List (Option Buf)) : ∀ (f : Nat) (ed : Ed) (loc : Bytes) (na : Nat) (b e : Int),
    exRegion.go f (withTail L ed) loc na b e = tailR L (exRegion.go f ed loc na b e) := by
  intro f
  induction f with
  | zero => intro ed loc na b e; rw [exRegion.go, exRegion.go]; rfl
  | succ f ih =>
    intro ed loc na b e
    rw [exRegion.go, exRegion.go]
    simp only []
    by_cases h0 : loc.isEmpty = true
    · simp only [h0, if_true]; rfl
    simp only [h0, Bool.false_eq_true, if_false, exLineno_withTail]
    cases exLineno ed loc with
    | none => rfl
    | some p =>
      obtain ⟨⟨n, rest⟩, ed1⟩ := p
      simp only [tailR_some]
      by_cases h1 : n < -1
      · simp only [h1, if_true]; rfl
      simp only [h1, if_false]
      by_cases h2 : (rest.dropWhile (fun c => c != 59 && c != 44)).isEmpty = true
      · simp only [h2, if_true]; rfl
      simp only [h2, Bool.false_eq_true, if_false]
      rw [← ih]
      congr 1
      split <;> rfl

/-- the end of `ex_region`: the checks on the two addresses -/
def regionFin (x : R (Int × Int)) : R (Nat × Int × Int) :=
  match x with
  | none => none
  | some ((b, e), ed) =>
    if b == -7 && e == -7 then some ((1, -1, -1), ed) else
    if e ≤ b then some ((1, -1, -1), ed) else
    let b := if b < 0 && e == 0 then 0 else b
    let len := ed.len
    if b < 0 || b ≥ len then some ((1, b, e), ed)
    else if e < b || e > len then some ((1, b, e), ed)
    else some ((0, b, e), ed)

theorem exRegion_eq (ed : Ed) (loc : Bytes) :
    exRegion ed loc =
      if loc == [37] then some ((0, 0, max 0 ed.len), ed)
      else if loc.isEmpty then
        some ((0, max 0 (min ed.xrow ed.len), if max 0 (min ed.xrow ed.len) == ed.len then max 0 (min ed.xrow ed.len) else max 0 (min ed.xrow ed.len) + 1), ed)
      else regionFin (exRegion.go (loc.length + 1) ed loc 0 0 0) := by
  unfold exRegion regionFin
  rfl

theorem regionFin_tailR (L : List (Option Buf)) (x : R (Int × Int)) : regionFin (tailR L x) = tailR L (regionFin x) := by
  cases x with
  | none => rfl
  | some p =>
    obtain ⟨⟨b, e⟩, ed⟩ := p
    simp only [tailR_some, regionFin, tailR_ite, withTail_len]
    rfl

theorem exRegion_withTail (L : List (Option Buf)) (ed : Ed) (loc : Bytes) :
    exRegion (withTail L ed) loc = tailR L (exRegion ed loc) := by
  rw [exRegion_eq, exRegion_eq, exRegion_go_withTail, regionFin_tailR]
  simp only [tailR_ite, tailR_some, withTail_len]
  rfl

end Neatvi.Lemmas.C20c
