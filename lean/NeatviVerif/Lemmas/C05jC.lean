import NeatviVerif.Lemmas.C05jB
/-!
# C05j, part C: from the handlers to `|`-lists (`ex_exec`), `ex_command`, and the call from vi (`exCommandV`)
-/
set_option linter.unusedSimpArgs false
set_option linter.unusedVariables false
namespace Neatvi.Lemmas.C05j
open Neatvi Neatvi.Uc Neatvi.Lbuf Neatvi.LbufIo Neatvi.Ex Neatvi.Mot Neatvi.Vi Neatvi.Rset
open Neatvi.Lemmas.C05f Neatvi.Lemmas.ExFrame Neatvi.Lemmas.C06b Neatvi.Lemmas.C05h
open Neatvi.Lemmas.C05e (modelled)

/-- the handlers that keep the invariant from any state that has it, whatever their text argument: `:p`, the empty
    command, `:d :y :pu := :k :se :ec`, and the names the model does not run -/
def tailHandler (hd : String) : Bool :=
  hd == "ec_print" || hd == "ec_null" || hd == "ec_delete" || hd == "ec_yank" || hd == "ec_put" || hd == "ec_lnum" ||
  hd == "ec_mark" || hd == "ec_set" || hd == "ec_echo" || !(modelled.contains hd)

/-- … and those that need more of the state: `:s` (the remembered replacement is NUL-free), `:u :redo` (no command in
    progress) -/
def headHandler (hd : String) : Bool :=
  tailHandler hd || hd == "ec_substitute" || hd == "ec_undo" || hd == "ec_redo"

theorem keeps_tailHandler (k : Nat) {ed ed' : Ed} {c : Prop} (h : EOk ed c) (hd : String) (ht : tailHandler hd = true)
    (loc cmd arg : Bytes) (txt : Option Bytes) (r : Int)
    (hr : runCmd (k + 2) ed hd loc cmd arg txt = some (r, ed')) : EOk ed' False := by
  simp only [tailHandler, Bool.or_eq_true, beq_iff_eq, Bool.not_eq_true', List.contains_eq_mem, decide_eq_false_iff_not] at ht
  rcases ht with ((((((((ht | ht) | ht) | ht) | ht) | ht) | ht) | ht) | ht) | ht
  · subst ht; exact (keeps_print (k + 1) h loc cmd arg txt r hr).weaken
  · subst ht; exact (keeps_null k h loc cmd arg txt r hr).weaken
  · subst ht; exact keeps_delete (k + 1) h loc cmd arg txt r hr
  · subst ht; exact (keeps_yank (k + 1) h loc cmd arg txt r hr).weaken
  · subst ht; exact keeps_put (k + 1) h loc cmd arg txt r hr
  · subst ht; exact (keeps_lnum (k + 1) h loc cmd arg txt r hr).weaken
  · subst ht; exact (keeps_mark (k + 1) h loc cmd arg txt r hr).weaken
  · subst ht; exact (keeps_set (k + 1) h loc cmd arg txt r hr).weaken
  · subst ht; exact (keeps_echo (k + 1) h loc cmd arg txt r hr).weaken
  · exact (keeps_other (k + 1) h hd ht loc cmd arg txt r hr).weaken

/-- **`keepsSOk_of_handler`**: the line commands keep the line/register invariant — `:p`, the empty command, `:d :y :pu
    := :k :se :ec` unconditionally; `:s` with a NUL-free argument when the remembered replacement is NUL-free; `:u
    :redo` at a command boundary -/
theorem keeps_headHandler (k : Nat) {ed ed' : Ed} (h : EOk ed True) (hx : NoNul ed.xrep) (hd : String)
    (ht : headHandler hd = true) (loc cmd arg : Bytes) (harg : NoNul arg) (txt : Option Bytes) (r : Int)
    (hr : runCmd (k + 2) ed hd loc cmd arg txt = some (r, ed')) : EOk ed' False := by
  simp only [headHandler, Bool.or_eq_true, beq_iff_eq] at ht
  rcases ht with ((ht | ht) | ht) | ht
  · exact keeps_tailHandler k h hd ht loc cmd arg txt r hr
  · subst ht; exact (keeps_subst (k + 1) h hx loc cmd arg txt harg r hr).1
  · subst ht; exact (keeps_undo (k + 1) h loc cmd arg txt r hr).weaken
  · subst ht; exact (keeps_redo (k + 1) h loc cmd arg txt r hr).weaken

theorem exTxt_eok {ed : Ed} {c : Prop} (h : EOk ed c) (src a : Bytes) :
    EOk (exTxt ed src a).2 c ∧ (exTxt ed src a).2.xrep = ed.xrep := by
  unfold exTxt
  simp only []
  generalize (if (a.headD 0 != 0) = true then a.getD 1 0 else 0) = c1
  repeat' split
  all_goals first | exact ⟨h, rfl⟩ | exact ⟨h.of_eq rfl rfl, rfl⟩

def tailCmd (p : Parsed) : Bool := match p.idx with | none => true | some (_, hd) => tailHandler hd
def headCmd (p : Parsed) : Bool :=
  !p.arg.contains 0 && match p.idx with | none => true | some (_, hd) => headHandler hd

/-- every command of the line, as `ex_exec` cuts it, has a `tailHandler` -/
def sokTail : Nat → Bytes → Bool
  | 0, _ => true
  | n + 1, ln => ln.isEmpty || (tailCmd (parse1 ln) && sokTail n (restOf ln))

/-- the class of `:` lines covered: the first command has a `headHandler` and a NUL-free argument, the commands after
    `|` have a `tailHandler` -/
def sokLine (ln : Bytes) : Bool := ln.isEmpty || (headCmd (parse1 ln) && sokTail ln.length (restOf ln))

theorem runOne_eok (k : Nat) {ed : Ed} {c : Prop} (h : EOk ed c) (p : Parsed) (ret : Int)
    (hc : ∀ a hd, p.idx = some (a, hd) → ∀ r ed', runCmd (k + 2) (exTxt ed p.rest (abbrOf p.idx)).2 hd p.loc p.cmd p.arg
      (exTxt ed p.rest (abbrOf p.idx)).1.1 = some (r, ed') → EOk ed' False)
    (r : Int) (ed1 : Ed) (rest : Bytes) (hro : runOne (k + 2) ed p ret = some ((r, ed1), rest)) :
    EOk ed1 False ∧ rest = (exTxt ed p.rest (abbrOf p.idx)).1.2 := by
  unfold runOne at hro
  split at hro
  · cases hro
    exact ⟨((exTxt_eok h _ _).1.of_eq rfl rfl).weaken, rfl⟩
  · rename_i a hd hi
    split at hro
    · cases hro
    · rename_i r1 e1 hrc
      cases hro
      exact ⟨hc a hd hi _ _ hrc, rfl⟩

/-- the loop of `ex_exec` over commands with a `tailHandler` -/
theorem cmds_tail (k : Nat) : ∀ (g : Nat) (ed : Ed) (ln : Bytes) (ret : Int) (c : Prop), EOk ed c → sokTail g ln = true →
    ∀ r ed', exExec.cmds (k + 2) g ed ln ret = some (r, ed') → EOk ed' False := by
  intro g
  induction g with
  | zero => intro ed ln ret c h _ r ed' hr; rw [exExec.cmds] at hr; cases hr; exact h.weaken
  | succ g ih =>
    intro ed ln ret c h hfl r ed' hr
    rw [cmds_succ] at hr
    split at hr
    · cases hr; exact h.weaken
    · rename_i hne
      rw [sokTail] at hfl
      have hemp : ln.isEmpty = false := by cases hq : ln.isEmpty <;> simp_all
      rw [hemp, Bool.false_or, Bool.and_eq_true] at hfl
      split at hr
      · cases hr
      · rename_i r1 ed1 rest hro
        obtain ⟨h1, hrest⟩ := runOne_eok k h (parse1 ln) ret (fun a hd hi r2 e2 hrc => by
          have ht : tailHandler hd = true := by
            have := hfl.1; unfold tailCmd at this; rw [hi] at this; exact this
          exact keeps_tailHandler k (exTxt_eok h _ _).1 hd ht _ _ _ _ _ hrc) r1 ed1 rest hro
        rw [hrest, show (exTxt ed (parse1 ln).rest (abbrOf (parse1 ln).idx)).1.2 = restOf ln from
          exTxt_rest_indep ed {} _ _] at hr
        exact ih ed1 (restOf ln) r1 False h1 hfl.2 r ed' hr

theorem noNul_of_contains {x : Bytes} (h : (!x.contains 0) = true) : NoNul x := by
  simpa [NoNul] using h

/-- **`ex_exec` on a covered line** -/
theorem exec_sok (k : Nat) {ed ed' : Ed} (h : EOk ed True) (hx : NoNul ed.xrep) (ln : Bytes) (hl : sokLine ln = true)
    (r : Int) (hr : exExec (k + 3) ed ln = some (r, ed')) : EOk ed' False := by
  rw [exExec] at hr
  split at hr
  · cases hr; exact (h.of_eq rfl rfl).weaken
  · rw [cmds_succ] at hr
    split at hr
    · cases hr; exact h.weaken
    · rename_i hne
      unfold sokLine at hl
      have hemp : ln.isEmpty = false := by cases hq : ln.isEmpty <;> simp_all
      rw [hemp, Bool.false_or, Bool.and_eq_true] at hl
      split at hr
      · cases hr
      · rename_i r1 ed1 rest hro
        have hh := hl.1
        unfold headCmd at hh
        rw [Bool.and_eq_true] at hh
        obtain ⟨h1, hrest⟩ := runOne_eok k h (parse1 ln) 0 (fun a hd hi r2 e2 hrc => by
          have ht : headHandler hd = true := by
            have := hh.2; rw [hi] at this; exact this
          have hT := exTxt_eok h (parse1 ln).rest (abbrOf (parse1 ln).idx)
          exact keeps_headHandler k hT.1 (by rw [hT.2]; exact hx) hd ht _ _ _ (noNul_of_contains hh.1) _ _ hrc)
          r1 ed1 rest hro
        rw [hrest, show (exTxt ed (parse1 ln).rest (abbrOf (parse1 ln).idx)).1.2 = restOf ln from
          exTxt_rest_indep ed {} _ _] at hr
        exact cmds_tail k _ ed1 (restOf ln) r1 False h1 hl.2 r ed' hr

theorem modifiedAt_eok {ed : Ed} {c : Prop} (h : EOk ed c) : EOk (ed.modifiedAt 0).2 True := by
  obtain ⟨b, hb, hh⟩ := h.1
  unfold Ed.modifiedAt
  rw [hb]
  refine ⟨⟨{ b with lb := (Lbuf.modified b.lb).2 }, ?_, hh.modified⟩, h.2⟩
  have hne : 0 < ed.bufs.length := by
    cases hq : ed.bufs with
    | nil => rw [hq] at hb; simp at hb
    | cons x r => simp
  show (ed.bufs.set 0 _).getD 0 none = _
  rw [List.getD_eq_getElem?_getD, List.getElem?_set_self hne]
  rfl

/-- **`ex_command` on a covered line**: the invariant holds again, with no command in progress -/
theorem command_sok (k : Nat) {ed ed' : Ed} (h : EOk ed True) (hx : NoNul ed.xrep) (ln : Bytes) (hl : sokLine ln = true)
    (r : Int) (hr : exCommand (k + 4) ed ln = some (r, ed')) : EOk ed' True := by
  rw [exCommand] at hr
  split at hr
  · cases hr
  · rename_i r1 ed1 he
    cases hr
    exact modifiedAt_eok (exec_sok k h hx ln hl _ he)

/-- **`KeepsSOk` for the covered lines** (the residual hypothesis of `C05i.colonOk_of_typed_lines`) -/
theorem keepsSOk_of_sokLine {ln : Bytes} {s : VS} (hs : SOk s True) (hx : NoNul s.ed.xrep) (hl : sokLine ln = true) :
    Props.C05i.KeepsSOk ln s := by
  intro rc s' hm
  rcases Lemmas.C20c.exCommandV_eq ln s with e | ⟨s1, hed, e⟩
  · rw [e] at hm; cases hm; exact ⟨BufsOk.weaken' hs.1, hs.2⟩
  · rw [e] at hm
    unfold Lemmas.C20c.exCommandVCore at hm
    rw [hed] at hm
    split at hm
    · cases hm
    · rename_i rc1 ed1 hc
      cases hm
      exact (command_sok 60 (ed := { s.ed with out := [], msg := [], input := [], xvis := true })
        (EOk.of_eq (ed := s.ed) hs rfl rfl) hx ln hl _ hc).weaken

end Neatvi.Lemmas.C05j
