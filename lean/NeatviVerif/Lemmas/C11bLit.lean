import NeatviVerif.Lemmas.C11bParse
/-!
# C11b, part 4: the literal-run loop of `ratom_read` on valid UTF-8, and the weak invariant

`Sfx p`: the remaining pattern is a suffix of a valid UTF-8 string (the parser's `{m,n` branch skips
one byte unseen, so the rest of the pattern may start inside a character).
-/
namespace Neatvi.Props.C11b
open Neatvi Neatvi.Uc Neatvi.Regex Neatvi.Spec

/-- a suffix of the encoding of valid code points -/
def Sfx (p : Bytes) : Prop := ∃ pre ls, Valid ls ∧ pre ++ p = encStr ls

theorem sfx_drop {p : Bytes} (h : Sfx p) (k : Nat) : Sfx (p.drop k) := by
  obtain ⟨pre, ls, hv, e⟩ := h
  exact ⟨pre ++ p.take k, ls, hv, by rw [List.append_assoc, List.take_append_drop]; exact e⟩

theorem sfx_of_strict {p : Bytes} (h : StrictLit p) : Sfx p := by
  obtain ⟨ls, hv, e⟩ := h
  exact ⟨[], ls, hv, by rw [e]; rfl⟩

/-- a suffix of valid UTF-8 is itself valid UTF-8 or starts with a continuation byte -/
theorem sfx_cases_aux : ∀ (ls : List Nat) (pre p : Bytes), Valid ls → pre ++ p = encStr ls →
    StrictLit p ∨ DeadLit p := by
  intro ls
  induction ls with
  | nil =>
    intro pre p _ e
    simp at e
    exact Or.inl ⟨[], valid_nil, by rw [e.2]; rfl⟩
  | cons c ls ih =>
    intro pre p hv e
    rw [encStr_cons] at e
    rcases List.append_eq_append_iff.mp e with ⟨a', h1, h2⟩ | ⟨c', h1, h2⟩
    · -- the cut is inside (or at an end of) the first character
      cases pre with
      | nil =>
        simp at e
        exact Or.inl ⟨c :: ls, hv, by rw [e, encStr_cons]⟩
      | cons x pre' =>
        cases a' with
        | nil =>
          simp at h2
          exact Or.inl ⟨ls, (valid_cons.mp hv).2, h2⟩
        | cons b m =>
          right
          obtain ⟨a, t, he, hch⟩ := enc_chr (valid_cons.mp hv).1
          rw [he] at h1
          simp at h1
          have hb : b ∈ t := by rw [h1.2]; simp
          exact ⟨b, m ++ encStr ls, by rw [h2]; rfl, hch.tl b hb⟩
    · exact ih c' p (valid_cons.mp hv).2 h2.symm

theorem sfx_cases {p : Bytes} (h : Sfx p) : StrictLit p ∨ DeadLit p := by
  obtain ⟨pre, ls, hv, e⟩ := h
  exact sfx_cases_aux ls pre p hv e

/-! ## the literal run -/

/-- the run is never empty -/
theorem litLoop_pos (p : Bytes) : ∀ f i n, litLoop p f i = some n → 0 < n := by
  intro f
  induction f with
  | zero => intro i n h; simp [litLoop] at h
  | succ f ih =>
    intro i n h
    rw [litLoop] at h
    split at h
    · cases h
    · split at h
      · rename_i hc
        dsimp only at h
        split at h
        · cases h
        · split at h
          · cases h
          · split at h
            · rename_i hc2
              simp only [Option.some.injEq] at h
              subst h
              simp at hc2
              omega
            · exact ih _ _ h
      · rename_i hc
        simp only [Option.some.injEq] at h
        subst h
        simp at hc
        omega

/-- on valid UTF-8, from a boundary, the run ends on a boundary: it advances by `uc_len` -/
theorem litLoop_boundary {ls : List Nat} (hv : Valid ls) : ∀ f i n, Boundary ls i →
    litLoop (encStr ls) f i = some n → Boundary ls n := by
  intro f
  induction f with
  | zero => intro i n _ h; simp [litLoop] at h
  | succ f ih =>
    intro i n hi h
    rw [litLoop] at h
    split at h
    · cases h
    · split at h
      · dsimp only at h
        split at h
        · cases h
        · split at h
          · cases h
          · split at h
            · simp only [Option.some.injEq] at h
              subst h
              exact hi
            · exact ih _ _ (boundary_rx hv hi) h
      · simp only [Option.some.injEq] at h
        subst h
        exact hi

theorem lit_take_strict {ls : List Nat} (hv : Valid ls) {f n : Nat}
    (h : litLoop (encStr ls) f 0 = some n) :
    StrictLit ((encStr ls).take n) ∧ StrictLit ((encStr ls).drop n) := by
  have hb := litLoop_boundary hv f 0 n (boundary_zero ls) h
  obtain ⟨pre, post, h1, h2⟩ := boundary_split.mp hb
  have hv' := valid_append.mp (h1 ▸ hv)
  rw [h1, encStr_append, h2]
  exact ⟨⟨pre, hv'.1, by rw [List.take_left']; rfl⟩, ⟨post, hv'.2, by rw [List.drop_left']; rfl⟩⟩

theorem lit_take_dead {b : Nat} {r : Bytes} (hb : Cont b) {f n : Nat}
    (h : litLoop (b :: r) f 0 = some n) : DeadLit ((b :: r).take n) := by
  have := litLoop_pos _ f 0 n h
  obtain ⟨m, rfl⟩ : ∃ m, n = m + 1 := ⟨n - 1, by omega⟩
  exact ⟨b, r.take m, rfl, hb⟩

/-- the literal atom read from a suffix of valid UTF-8 is well formed -/
theorem lit_atom {q : Bytes} (hq : Sfx q) {f : Nat} {a : Atom} {rest : Bytes}
    (h : (litLoop q f 0).map (fun n => ((⟨AK.chr, q.take n⟩ : Atom), q.drop n)) = some (a, rest)) :
    WfAtom a ∧ Sfx rest := by
  cases hl : litLoop q f 0 with
  | none => rw [hl] at h; simp at h
  | some n =>
    rw [hl] at h
    simp only [Option.map_some, Option.some.injEq, Prod.mk.injEq] at h
    obtain ⟨ha, hr⟩ := h
    subst ha; subst hr
    refine ⟨fun _ => ?_, sfx_drop hq n⟩
    rcases sfx_cases hq with ⟨ls, hv, e⟩ | ⟨b, r, e, hb⟩
    · subst e; exact Or.inl (lit_take_strict hv hl).1
    · subst e; exact Or.inr (lit_take_dead hb hl)

theorem litLoop_nil_none : litLoop ([] : Bytes) (([] : Bytes).length + 2) 0 = none := by decide

theorem wfAtom_of_ne {k : AK} {s : Bytes} (h : k ≠ AK.chr) : WfAtom ⟨k, s⟩ := fun hk => absurd hk h

/-- `ratom_read` on a suffix of valid UTF-8 -/
theorem ratomRead_sfx {p : Bytes} {a : Atom} {rest : Bytes} (hp : Sfx p)
    (h : ratomRead p = some (a, rest)) : WfAtom a ∧ Sfx rest := by
  unfold ratomRead at h
  split at h
  · rw [litLoop_nil_none] at h; simp at h
  · rename_i c r
    have hr : Sfx r := sfx_drop hp 1
    split at h
    · simp only [Option.some.injEq, Prod.mk.injEq] at h
      obtain ⟨ha, hr'⟩ := h; subst ha; subst hr'
      exact ⟨wfAtom_of_ne (by decide), hr⟩
    · split at h
      · simp only [Option.some.injEq, Prod.mk.injEq] at h
        obtain ⟨ha, hr'⟩ := h; subst ha; subst hr'
        exact ⟨wfAtom_of_ne (by decide), hr⟩
      · split at h
        · simp only [Option.some.injEq, Prod.mk.injEq] at h
          obtain ⟨ha, hr'⟩ := h; subst ha; subst hr'
          exact ⟨wfAtom_of_ne (by decide), hr⟩
        · split at h
          · simp only [Option.some.injEq, Prod.mk.injEq] at h
            obtain ⟨ha, hr'⟩ := h; subst ha; subst hr'
            exact ⟨wfAtom_of_ne (by decide), sfx_drop hp _⟩
          · split at h
            · split at h
              · simp only [Option.some.injEq, Prod.mk.injEq] at h
                obtain ⟨ha, hr'⟩ := h; subst ha; subst hr'
                exact ⟨wfAtom_of_ne (by decide), sfx_drop hr 1⟩
              · split at h
                · simp only [Option.some.injEq, Prod.mk.injEq] at h
                  obtain ⟨ha, hr'⟩ := h; subst ha; subst hr'
                  exact ⟨wfAtom_of_ne (by decide), sfx_drop hr 1⟩
                · exact lit_atom hr h
            · exact lit_atom hp h

/-- the weak invariant: holds for every valid UTF-8 pattern -/
theorem parseInv_sfx : ParseInv Sfx WfAtom where
  ascii := fun _ hp _ => sfx_drop hp 1
  brace := fun _ hp _ k => sfx_drop hp k
  atom := fun _ _ _ hp h => ratomRead_sfx hp h

end Neatvi.Props.C11b
