import NeatviVerif.Lemmas.C09cEx
import NeatviVerif.Lemmas.C05dDecomp
import NeatviVerif.Lemmas.C02dScript
/-!
# C09c, part 5: the loops of `:p`, `:q`, `:s`, `:b`, `:g` on related states
-/
namespace Neatvi.Lemmas.C09c
open Neatvi Neatvi.Lbuf Neatvi.LbufIo Neatvi.Ex Neatvi.Rset
open Neatvi.Lemmas.C05d (sPrep sStep sLoop runCmd_subst_eq' sLoop_succ gPrep gMark gSweep gBudget ecGlob_eq')
open Neatvi.Lemmas.C02d (insertS bufferS runCmd_insert runCmd_buffer)

/-! ### `:p` -/

theorem foldl_print_rel (x : Int) : ∀ (l : List Nat) (a b : Ed), EdRel false a b →
    EdRel false
      (l.foldl (fun (ed : Ed) (k : Nat) => match ed.line (x + (k : Int)) with | some l => ed.print l | none => ed) a)
      (l.foldl (fun (ed : Ed) (k : Nat) => match ed.line (x + (k : Int)) with | some l => ed.print l | none => ed) b) := by
  intro l
  induction l with
  | nil => intro a b h; exact h
  | cons k l ih =>
    intro a b h
    rw [List.foldl_cons, List.foldl_cons]
    apply ih
    rw [h.line_eq]
    cases b.line (x + (k : Int)) with
    | none => exact h
    | some ln => exact print_rel h ln

/-! ### `:q` -/

theorem each_rel (cmd : Bytes) (all : Bool) : ∀ (g i : Nat) (a b : Ed), EdRel false a b →
    RRel (runCmd.each cmd all g i a) (runCmd.each cmd all g i b) := by
  intro g
  induction g with
  | zero => intro i a b h; rw [runCmd.each.eq_1, runCmd.each.eq_1]; exact RRel.some h
  | succ g ih =>
    intro i a b h
    rw [runCmd.each.eq_2, runCmd.each.eq_2, h.bufs_length]
    split
    · exact RRel.some h
    · rcases (h.getD i).cases with ⟨r1, r2⟩ | ⟨p, q, r1, r2, _⟩
      · rw [r1, r2]; exact ih _ _ _ h
      · rw [r1, r2]
        simp only []
        have hchk : RRel (if (!all && !hasBang cmd) = true then bufsModified a i (some (strOf "buffer modified")) else some (false, a))
            (if (!all && !hasBang cmd) = true then bufsModified b i (some (strOf "buffer modified")) else some (false, b)) := by
          split
          · exact bufsModified_rel h i _
          · exact RRel.some h
        rrel_cases hchk with v a1 b1 h1
        · trivial
        · cases v with
          | true => exact RRel.some (bufsSwitch_rel h1 i)
          | false =>
            simp only []
            split
            · rcases (h1.getD i).cases with ⟨s1, s2⟩ | ⟨p', q', s1, s2, hpq⟩
              · rw [s1, s2]; trivial
              · rw [s1, s2]
                simp only []
                rw [hpq.path, hpq.mtime]
                rrel_cases lbufSaveP_rel h1 hpq.lb.lines 0 (-1) q'.path (hasBang cmd) q'.mtime with w a2 b2 h2
                · trivial
                · cases w with
                  | some err => exact RRel.some (show_rel (bufsSwitch_rel h2 i) err)
                  | none => exact ih _ _ _ h2
            · exact ih _ _ _ h1

/-! ### `:s` -/

theorem sPrep_rel {a b : Ed} (h : EdRel false a b) (arg : Bytes) :
    EdRel false (sPrep a arg).1 (sPrep b arg).1 ∧ (sPrep a arg).2 = (sPrep b arg).2 := by
  have h1 : EdRel false
      (match (reRead arg).1 with | some p => if (!p.isEmpty) = true then a.kwdSet (some p) 1 else a | none => a)
      (match (reRead arg).1 with | some p => if (!p.isEmpty) = true then b.kwdSet (some p) 1 else b | none => b) := by
    cases (reRead arg).1 with
    | none => exact h
    | some p =>
      simp only []
      split
      · exact kwdSet_rel h _ _
      · exact h
  refine ⟨?_, rfl⟩
  unfold sPrep
  simp only []
  exact EdRel.ite rfl { h1 with xrep := rfl } h1

theorem sStep_rel (re : RStr) (g : Bool) (x : Int) {p q : Option (Ed × Int)}
    (h : ORel (fun u v => EdRel false u.1 v.1 ∧ u.2 = v.2) p q) (k : Nat) :
    ORel (fun u v => EdRel false u.1 v.1 ∧ u.2 = v.2) (sStep re g x p k) (sStep re g x q k) := by
  rcases h.cases with ⟨r1, r2⟩ | ⟨⟨a, sh⟩, ⟨b, sh'⟩, r1, r2, hab, hs⟩
  · rw [r1, r2]; trivial
  · simp only at hs hab
    subst hs
    rw [r1, r2]
    unfold sStep
    simp only []
    rw [hab.line_eq, hab.xrep, hab.len_eq]
    cases b.line (x + (k : Int) + sh) with
    | none => trivial
    | some ln =>
      simp only []
      cases substLine re b.xrep g ln with
      | none => trivial
      | some o =>
        cases o with
        | none => exact ⟨hab, rfl⟩
        | some nl =>
          simp only []
          rcases (edit_rel' hab (some nl) (x + (k : Int) + sh) (x + (k : Int) + sh + 1)).cases with ⟨s1, s2⟩ | ⟨a1, b1, s1, s2, h1⟩
          · rw [s1, s2]; trivial
          · rw [s1, s2]
            exact ⟨h1, by show sh + (a1.len - b.len) = sh + (b1.len - b.len); rw [h1.len_eq]⟩

theorem sLoop_rel (re : RStr) (g : Bool) (x : Int) {a b : Ed} (h : EdRel false a b) : ∀ n : Nat,
    ORel (fun u v => EdRel false u.1 v.1 ∧ u.2 = v.2) (sLoop re g x n a) (sLoop re g x n b) := by
  intro n
  induction n with
  | zero => exact ⟨h, rfl⟩
  | succ n ih =>
    rw [sLoop_succ, sLoop_succ]
    exact sStep_rel re g x ih n

theorem subst_rel (f : Nat) {a b : Ed} (h : EdRel false a b) (loc cmd arg : Bytes) (txt : Option Bytes) :
    RRel (runCmd (f + 1) a "ec_substitute" loc cmd arg txt) (runCmd (f + 1) b "ec_substitute" loc cmd arg txt) := by
  rw [runCmd_subst_eq', runCmd_subst_eq']
  rrel_cases exRegion_rel h loc with v a1 b1 h1
  · trivial
  · obtain ⟨rc, x, e⟩ := v
    simp only []
    split
    · exact RRel.some h1
    · obtain ⟨hp, hg⟩ := sPrep_rel h1 arg
      rw [hp.xkwddir, hp.mkRe_eq, hp.xkwd, hg]
      split
      · exact RRel.some hp
      · cases (sPrep b1 arg).1.mkRe (sPrep b1 arg).1.xkwd with
        | none => trivial
        | some o =>
          cases o with
          | none => exact RRel.some hp
          | some re =>
            simp only []
            rcases (sLoop_rel re (sPrep b1 arg).2 x hp (e - x).toNat).cases with ⟨s1, s2⟩ | ⟨⟨a2, s⟩, ⟨b2, s'⟩, s1, s2, h2, _⟩
            · rw [s1, s2]; trivial
            · rw [s1, s2]; exact RRel.some h2

/-! ### `:b` -/

theorem idOf_eq {a b : Ed} (h : EdRel false a b) (i : Nat) :
    (a.bufs.getD i none).map (·.id) = (b.bufs.getD i none).map (·.id) := (h.getD i).id_eq

theorem listFold_rel : ∀ (l : List Nat) (p q : Bool × Ed), p.1 = q.1 → EdRel false p.2 q.2 →
    (l.foldl C20c.listStep p).1 = (l.foldl C20c.listStep q).1 ∧
      EdRel false (l.foldl C20c.listStep p).2 (l.foldl C20c.listStep q).2 := by
  intro l
  induction l with
  | nil => intro p q h1 h2; exact ⟨h1, h2⟩
  | cons i l ih =>
    intro p q h1 h2
    rw [List.foldl_cons, List.foldl_cons]
    obtain ⟨go, a⟩ := p
    obtain ⟨go', b⟩ := q
    simp only at h1 h2
    subst h1
    have : (C20c.listStep (go, a) i).1 = (C20c.listStep (go, b) i).1 ∧
        EdRel false (C20c.listStep (go, a) i).2 (C20c.listStep (go, b) i).2 := by
      unfold C20c.listStep
      simp only []
      split
      · exact ⟨rfl, h2⟩
      · rcases (h2.getD i).cases with ⟨r1, r2⟩ | ⟨x, y, r1, r2, hxy⟩
        · rw [r1, r2]; exact ⟨rfl, h2⟩
        · rw [r1, r2]
          simp only []
          have hm := modifiedAt_rel h2 i
          rw [hm.1, hxy.id, hxy.path]
          exact ⟨trivial, print_rel hm.2 _⟩
    exact ih _ _ this.1 this.2

theorem renum_rel : ∀ (l l' : List (Option Buf)), All2 (OBufRel false) l l' →
    ∀ (acc acc' : List (Option Buf) × Int), All2 (OBufRel false) acc.1 acc'.1 → acc.2 = acc'.2 →
    All2 (OBufRel false)
      (l.foldl (fun (acc : List (Option Buf) × Int) b =>
        match b with
        | some x => (acc.1 ++ [some { x with id := acc.2 + 1 }], acc.2 + 1)
        | none => (acc.1 ++ [none], acc.2)) acc).1
      (l'.foldl (fun (acc : List (Option Buf) × Int) b =>
        match b with
        | some x => (acc.1 ++ [some { x with id := acc.2 + 1 }], acc.2 + 1)
        | none => (acc.1 ++ [none], acc.2)) acc').1 ∧
    (l.foldl (fun (acc : List (Option Buf) × Int) b =>
        match b with
        | some x => (acc.1 ++ [some { x with id := acc.2 + 1 }], acc.2 + 1)
        | none => (acc.1 ++ [none], acc.2)) acc).2 =
    (l'.foldl (fun (acc : List (Option Buf) × Int) b =>
        match b with
        | some x => (acc.1 ++ [some { x with id := acc.2 + 1 }], acc.2 + 1)
        | none => (acc.1 ++ [none], acc.2)) acc').2 := by
  intro l l' h
  induction h with
  | nil => intro acc acc' h1 h2; exact ⟨h1, h2⟩
  | cons hxy _ ih =>
    intro acc acc' h1 h2
    rw [List.foldl_cons, List.foldl_cons]
    rcases hxy.cases with ⟨rfl, rfl⟩ | ⟨p, q, rfl, rfl, hpq⟩
    · exact ih _ _ (All2.append h1 (All2.single (by trivial))) h2
    · refine ih _ _ (All2.append h1 (All2.single ?_)) (by simp only; rw [h2])
      show BufRel false _ _
      exact { hpq with id := by simp only; rw [h2] }

/-- the slot `:b arg` selects (`arg` a number, `+`, `-` or an alias) -/
def bufIdx (ed : Ed) (arg : Bytes) : Int :=
  let id := exAtoi arg
  let curId := (ed.cur.map (·.id)).getD 0
  let idOf (i : Nat) : Option Int := (ed.bufs.getD i none).map (·.id)
  if isDigitC (arg.headD 0) then
    (match (List.range ed.bufs.length).find? (fun i => idOf i == some id) with | some i => i | none => ed.bufs.length)
  else if arg.headD 0 == 45 then
    (List.range ed.bufs.length).foldl (fun (best : Int) i =>
      match idOf i with
      | some x => if x < curId && (best < 0 || x > (idOf best.toNat).getD 0) then i else best
      | none => best) (-1)
  else if arg.headD 0 == 43 then
    (List.range ed.bufs.length).foldl (fun (best : Int) i =>
      match idOf i with
      | some x => if x > curId && (best < 0 || x < (idOf best.toNat).getD 0) then i else best
      | none => best) (-1)
  else match (List.range 3).find? (fun i => (strOf "%#^").getD i 0 == arg.headD 0) with
    | some i => i
    | none => -1

/-- the switch to the selected slot -/
def bufGo (ed : Ed) (cmd : Bytes) (idx : Int) : R Int :=
  if idx ≥ 0 && idx < ed.bufs.length && (ed.bufs.getD idx.toNat none).isSome then
    let guard : R Bool := if ed.xwa == 0 && !hasBang cmd then bufsModified ed 0 (some (strOf "buffer modified")) else some (false, ed)
    match guard with
    | none => none
    | some (true, ed) => some (1, ed)
    | some (false, ed) => some (0, ed.bufsSwitch idx.toNat)
  else some (1, ed.show (strOf "no such buffer"))

/-- `:b !` -/
def bufBang (ed : Ed) : R Int :=
  let ed := ed.bufsShift
  if ed.cur.isNone then
    let b : Buf := { path := [], lb := Lbuf.make, id := ed.bufsCnt + 1 }
    some (0, { ed with bufs := ed.bufs.set 0 (some b), bufsCnt := ed.bufsCnt + 1 })
  else some (0, ed)

/-- `:b ~` -/
def bufRenum (ed : Ed) : R Int :=
  let (bufs, n) := ed.bufs.foldl (fun (acc : List (Option Buf) × Int) b =>
    match b with
    | some x => (acc.1 ++ [some { x with id := acc.2 + 1 }], acc.2 + 1)
    | none => (acc.1 ++ [none], acc.2)) ([], 0)
  some (0, { ed with bufs := bufs, bufsCnt := n })

theorem bufferS_eq (ed : Ed) (cmd arg : Bytes) :
    bufferS ed cmd arg =
      if arg.isEmpty then some (0, C20c.listEd ed)
      else if arg.headD 0 == 33 then bufBang ed
      else if arg.headD 0 == 126 then bufRenum ed
      else bufGo ed cmd (bufIdx ed arg) := by
  unfold bufferS bufGo bufIdx bufBang bufRenum C20c.listEd C20c.listStep
  rfl

theorem bufIdx_rel {a b : Ed} (h : EdRel false a b) (arg : Bytes) : bufIdx a arg = bufIdx b arg := by
  unfold bufIdx
  simp only [idOf_eq h, h.bufs_length, h.cur_id]

theorem bufGo_rel {a b : Ed} (h : EdRel false a b) (cmd : Bytes) (idx : Int) : RRel (bufGo a cmd idx) (bufGo b cmd idx) := by
  unfold bufGo
  rw [h.bufs_length, (h.getD idx.toNat).isSome_eq, h.xwa]
  split
  · have hg : RRel (if (b.xwa == 0 && !hasBang cmd) = true then bufsModified a 0 (some (strOf "buffer modified")) else some (false, a))
        (if (b.xwa == 0 && !hasBang cmd) = true then bufsModified b 0 (some (strOf "buffer modified")) else some (false, b)) := by
      split
      · exact bufsModified_rel h 0 _
      · exact RRel.some h
    simp only []
    rrel_cases hg with v a1 b1 h1
    · trivial
    · cases v with
      | true => exact RRel.some h1
      | false => exact RRel.some (bufsSwitch_rel h1 _)
  · exact RRel.some (show_rel h _)

theorem bufferS_rel {a b : Ed} (h : EdRel false a b) (cmd arg : Bytes) : RRel (bufferS a cmd arg) (bufferS b cmd arg) := by
  rw [bufferS_eq, bufferS_eq]
  split
  · -- the listing
    unfold C20c.listEd
    rw [h.bufs_length]
    have := listFold_rel (List.range b.bufs.length) (true, a) (true, b) rfl h
    exact RRel.some this.2
  · split
    · -- `:b !`
      unfold bufBang
      have hs := bufsShift_rel h
      simp only []
      rw [hs.cur_isNone]
      split
      · rw [hs.bufsCnt]
        refine RRel.some { withBufs_rel hs (hs.all.set 0 (show OBufRel false (some _) (some _) from ?_)) with bufsCnt := rfl }
        exact BufRel.refl seqOk_make false
      · exact RRel.some hs
    · split
      · -- `:b ~`
        unfold bufRenum
        have := renum_rel a.bufs b.bufs h.all ([], 0) ([], 0) All2.nil rfl
        simp only []
        rw [this.2]
        exact RRel.some { withBufs_rel h this.1 with bufsCnt := rfl }
      · -- `:b N`, `:b +`, `:b -`, `:b %`
        rw [bufIdx_rel h]
        exact bufGo_rel h cmd _

/-! ### `:g` -/

theorem gPrep_rel {a b : Ed} (h : EdRel false a b) (arg : Bytes) : EdRel false (gPrep a arg) (gPrep b arg) := by
  unfold gPrep
  cases (reRead arg).1 with
  | none => exact h
  | some p =>
    simp only []
    split
    · exact kwdSet_rel h _ _
    · exact h

theorem gMark_fold_rel (x : Nat) (dep : Nat) : ∀ (l : List Nat) (a b : Ed), EdRel false a b →
    EdRel false
      (l.foldl (fun (ed : Ed) k => match ed.lb with | some lb => ed.setLb (globSet lb (x + 1 + k) dep) | none => ed) a)
      (l.foldl (fun (ed : Ed) k => match ed.lb with | some lb => ed.setLb (globSet lb (x + 1 + k) dep) | none => ed) b) := by
  intro l
  induction l with
  | nil => intro a b h; exact h
  | cons k l ih =>
    intro a b h
    rw [List.foldl_cons, List.foldl_cons]
    apply ih
    rcases h.lb_cases with ⟨r1, r2⟩ | ⟨la, lb, r1, r2, hl⟩
    · rw [r1, r2]; exact h
    · rw [r1, r2]; exact setLb_rel h (globSet_rel hl _ _)

theorem gMark_rel {a b : Ed} (h : EdRel false a b) (x e : Int) (dep : Nat) : EdRel false (gMark a x e dep) (gMark b x e dep) := by
  unfold gMark
  exact gMark_fold_rel _ _ _ _ _ { h with xgdep := rfl }

theorem gSweep_fold_rel (dep : Nat) : ∀ (l : List Nat) (la lb : Lb), LbRel false la lb →
    LbRel false (l.foldl (fun lb k => (globGet lb k dep).2) la) (l.foldl (fun lb k => (globGet lb k dep).2) lb) := by
  intro l
  induction l with
  | nil => intro la lb h; exact h
  | cons k l ih =>
    intro la lb h
    rw [List.foldl_cons, List.foldl_cons]
    exact ih _ _ (globGet_rel h k dep).2

theorem gSweep_rel {a b : Ed} (h : EdRel false a b) (dep : Nat) : EdRel false (gSweep a dep) (gSweep b dep) := by
  unfold gSweep
  rcases h.lb_cases with ⟨r1, r2⟩ | ⟨la, lb, r1, r2, hl⟩
  · rw [r1, r2]; exact h
  · rw [r1, r2]
    simp only []
    rw [hl.lines]
    exact setLb_rel h (gSweep_fold_rel dep _ _ _ hl)

theorem adv_rel (dep : Nat) : ∀ (n : Nat) (a b : Ed), EdRel false a b → ∀ i : Int,
    (ecGlob.scan.adv dep n a i).2 = (ecGlob.scan.adv dep n b i).2 ∧
      EdRel false (ecGlob.scan.adv dep n a i).1 (ecGlob.scan.adv dep n b i).1 := by
  intro n
  induction n with
  | zero => intro a b h i; rw [ecGlob.scan.adv.eq_1, ecGlob.scan.adv.eq_1]; exact ⟨rfl, h⟩
  | succ n ih =>
    intro a b h i
    rw [ecGlob.scan.adv.eq_2, ecGlob.scan.adv.eq_2, h.len_eq]
    split
    · exact ⟨rfl, h⟩
    · rcases h.lb_cases with ⟨r1, r2⟩ | ⟨la, lb, r1, r2, hl⟩
      · rw [r1, r2]; exact ⟨rfl, h⟩
      · rw [r1, r2]
        simp only []
        have hg := globGet_rel hl i.toNat dep
        rw [hg.1]
        split
        · exact ⟨rfl, setLb_rel h hg.2⟩
        · exact ih _ _ (setLb_rel h hg.2) _

theorem scan_rel (f : Nat) (hexec : ∀ a b ln, EdRel false a b → RRel (exExec f a ln) (exExec f b ln))
    (neg : Bool) (s : Bytes) (re : RStr) (dep : Nat) : ∀ (g : Nat) (a b : Ed), EdRel false a b → ∀ i : Int,
    ORel (EdRel false) (ecGlob.scan f neg s re dep g a i) (ecGlob.scan f neg s re dep g b i) := by
  intro g
  induction g with
  | zero => intro a b h i; rw [ecGlob.scan.eq_1, ecGlob.scan.eq_1]; trivial
  | succ g ih =>
    intro a b h i
    rw [ecGlob.scan.eq_2, ecGlob.scan.eq_2, h.len_eq, h.line_eq]
    split
    · exact h
    · cases b.line i with
      | none => trivial
      | some ln =>
        simp only []
        cases rstrFind re ln 16 0 ND NG with
        | none => trivial
        | some t =>
          obtain ⟨res, t1, t2⟩ := t
          simp only []
          have tail : ∀ (a1 b1 : Ed) (j : Int), EdRel false a1 b1 → ¬ j < 0 →
              ORel (EdRel false)
                (ecGlob.scan f neg s re dep g (ecGlob.scan.adv dep (a1.len.toNat + 1) a1 j).1 (ecGlob.scan.adv dep (a1.len.toNat + 1) a1 j).2)
                (ecGlob.scan f neg s re dep g (ecGlob.scan.adv dep (b1.len.toNat + 1) b1 j).1 (ecGlob.scan.adv dep (b1.len.toNat + 1) b1 j).2) := by
            intro a1 b1 j h2 _
            have ha := adv_rel dep (a1.len.toNat + 1) a1 b1 h2 j
            rw [h2.len_eq] at ha
            rw [h2.len_eq, ha.1]
            exact ih _ _ ha.2 _
          by_cases hc : (decide (res < 0) == neg) = true
          · simp only [hc, if_true]
            rrel_cases hexec { a with xrow := i } { b with xrow := i } s { h with xrow := rfl } with r a1 b1 h1
            · trivial
            · simp only []
              by_cases hr : (r != 0) = true
              · simp only [hr, if_true]; exact h1
              · simp only [hr, Bool.false_eq_true, if_false]
                rw [h1.xrow]
                split
                · trivial
                · exact tail _ _ _ h1 (by assumption)
          · simp only [hc, Bool.false_eq_true, if_false]
            split
            · trivial
            · exact tail _ _ _ h (by assumption)

theorem glob_rel (f : Nat) (hexec : ∀ a b ln, EdRel false a b → RRel (exExec f a ln) (exExec f b ln))
    {a b : Ed} (h : EdRel false a b) (loc cmd arg : Bytes) :
    RRel (ecGlob (f + 1) a loc cmd arg) (ecGlob (f + 1) b loc cmd arg) := by
  rw [ecGlob_eq', ecGlob_eq', h.xgdep]
  split
  · exact RRel.some (show_rel h _)
  rrel_cases exRegion_rel h (if (loc.isEmpty && b.xgdep == 0) = true then [37] else loc) with v a1 b1 h1
  · trivial
  · obtain ⟨rc, x, e⟩ := v
    simp only []
    split
    · exact RRel.some h1
    · have hp := gPrep_rel h1 arg
      rw [hp.xkwddir, hp.mkRe_eq, hp.xkwd, hp.xgdep]
      split
      · exact RRel.some hp
      · cases (gPrep b1 arg).mkRe (gPrep b1 arg).xkwd with
        | none => trivial
        | some o =>
          cases o with
          | none => exact RRel.some hp
          | some re =>
            simp only []
            have hm := gMark_rel hp x e ((gPrep b1 arg).xgdep + 1)
            have hb : gBudget (gMark (gPrep a1 arg) x e ((gPrep b1 arg).xgdep + 1)) =
                gBudget (gMark (gPrep b1 arg) x e ((gPrep b1 arg).xgdep + 1)) := by
              unfold gBudget; rw [hm.len_eq]
            rw [hb]
            rcases (scan_rel f hexec _ (reRead arg).2 re _ _ _ _ hm x).cases with ⟨s1, s2⟩ | ⟨a2, b2, s1, s2, h2⟩
            · rw [s1, s2]; trivial
            · rw [s1, s2]
              exact RRel.some { gSweep_rel h2 _ with xgdep := rfl }

end Neatvi.Lemmas.C09c
