import NeatviVerif.Props.C14
/-!
# C05g lemmas, part 4: the per-line loop of `:s` no longer traps on a truncated character

After an empty match `ec_substitute` copies one character, `MIN(uc_len(ln), strlen(ln))` bytes: never more than
what is left of the line.  So the only ways the per-line loop can fail (`none`) are the matcher's own `none` and
the `none` of the expansion of the replacement (`substExpand`: a group with garbage offsets), on some suffix of the
line.
-/
namespace Neatvi.Lemmas.C05g
open Neatvi Neatvi.Ex Neatvi.Rset

/-- a source of `none` in the loop of `substLine` on the rest `ln` of the line: the matcher fails there, or it
    finds a match whose replacement cannot be expanded -/
def TrapAt (re : RStr) (rep : Bytes) (ln : Bytes) (first : Bool) : Prop :=
  rstrFind re ln 16 (if first then 0 else RE_NOTBOL) ND NG = none ∨
  ∃ res offs c, rstrFind re ln 16 (if first then 0 else RE_NOTBOL) ND NG = some (res, offs, c) ∧ 0 ≤ res ∧
    substExpand rep ln offs = none

/-- what the next round starts from after a match with offsets `offs` on `ln`: the rest after the match, less one
    character — at most what is left — when the match was empty -/
def nextRest (ln : Bytes) (offs : List Int) : Bytes :=
  let ln1 := ln.drop (offs.getD 1 0).toNat
  if offs.getD 1 0 ≤ offs.getD 0 0 then ln1.drop (min (Uc.ucLen (ln1.headD 0)) ln1.length) else ln1

/-- what has been written when the next round starts -/
def nextAcc (r : Option Bytes) (ln : Bytes) (offs : List Int) (x : Bytes) : Bytes :=
  let ln1 := ln.drop (offs.getD 1 0).toNat
  let acc := (r.getD []) ++ ln.take (offs.getD 0 0).toNat ++ x
  if offs.getD 1 0 ≤ offs.getD 0 0 then acc ++ ln1.take (min (Uc.ucLen (ln1.headD 0)) ln1.length) else acc

theorem nextRest_suffix (ln : Bytes) (offs : List Int) : ∃ k, nextRest ln offs = ln.drop k := by
  unfold nextRest
  simp only []
  split
  · exact ⟨_, List.drop_drop ..⟩
  · exact ⟨_, rfl⟩

/-- one round of the loop, written out -/
theorem go_succ (re : RStr) (rep : Bytes) (g : Bool) (f : Nat) (ln : Bytes) (r : Option Bytes) (first : Bool) :
    substLine.go re rep g (f + 1) ln r first =
      match rstrFind re ln 16 (if first then 0 else RE_NOTBOL) ND NG with
      | none => none
      | some (res, offs, _) =>
        if res < 0 then some (r, ln) else
        match substExpand rep ln offs with
        | none => none
        | some x =>
          if (nextRest ln offs).isEmpty || (nextRest ln offs).headD 0 == 10 || !g then
            some (some (nextAcc r ln offs x), nextRest ln offs)
          else substLine.go re rep g f (nextRest ln offs) (some (nextAcc r ln offs x)) false := by
  rw [substLine.go]
  cases rstrFind re ln 16 (if first then 0 else RE_NOTBOL) ND NG with
  | none => rfl
  | some t =>
    obtain ⟨res, offs, c⟩ := t
    simp only []
    split
    · rfl
    · cases substExpand rep ln offs with
      | none => rfl
      | some x =>
        simp only [nextRest, nextAcc]
        by_cases he : offs.getD 1 0 ≤ offs.getD 0 0
        · simp only [he, decide_true, if_true]
        · simp only [he, decide_false, Bool.false_eq_true, if_false]

/-- **exactly when one round fails**: the matcher fails, or the expansion fails, or a later round fails — there is
    no other `none` (in particular none for a truncated character after an empty match) -/
theorem go_none_iff (re : RStr) (rep : Bytes) (g : Bool) (f : Nat) (ln : Bytes) (r : Option Bytes) (first : Bool) :
    substLine.go re rep g (f + 1) ln r first = none ↔
      TrapAt re rep ln first ∨
      ∃ res offs c x, rstrFind re ln 16 (if first then 0 else RE_NOTBOL) ND NG = some (res, offs, c) ∧ 0 ≤ res ∧
        substExpand rep ln offs = some x ∧
        ((nextRest ln offs).isEmpty || (nextRest ln offs).headD 0 == 10 || !g) = false ∧
        substLine.go re rep g f (nextRest ln offs) (some (nextAcc r ln offs x)) false = none := by
  rw [go_succ]
  unfold TrapAt
  cases hf : rstrFind re ln 16 (if first then 0 else RE_NOTBOL) ND NG with
  | none => simp
  | some t =>
    obtain ⟨res, offs, c⟩ := t
    simp only []
    by_cases hres : res < 0
    · rw [if_pos hres]
      constructor
      · intro h; cases h
      · rintro ((h | ⟨res', offs', c', h1, h2, _⟩) | ⟨res', offs', c', x, h1, h2, _⟩)
        · cases h
        · cases h1; omega
        · cases h1; omega
    · rw [if_neg hres]
      cases hx : substExpand rep ln offs with
      | none =>
        simp only []
        constructor
        · intro _; exact Or.inl (Or.inr ⟨res, offs, c, rfl, by omega, hx⟩)
        · intro _; trivial
      | some x =>
        simp only []
        by_cases hstop : ((nextRest ln offs).isEmpty || (nextRest ln offs).headD 0 == 10 || !g) = true
        · rw [if_pos hstop]
          constructor
          · intro h; cases h
          · rintro ((h | ⟨res', offs', c', h1, h2, h3⟩) | ⟨res', offs', c', x', h1, _, _, h4, _⟩)
            · cases h
            · cases h1; rw [hx] at h3; cases h3
            · cases h1; rw [h4] at hstop; cases hstop
        · rw [if_neg hstop]
          constructor
          · intro h
            exact Or.inr ⟨res, offs, c, x, rfl, by omega, hx, by simpa using hstop, h⟩
          · rintro ((h | ⟨res', offs', c', h1, h2, h3⟩) | ⟨res', offs', c', x', h1, _, h3, _, h5⟩)
            · cases h
            · cases h1; rw [hx] at h3; cases h3
            · cases h1; rw [hx] at h3; cases h3; exact h5

/-- **the loop fails only at a source**: if the loop returns `none`, then on some suffix of the text the matcher
    returned `none` or the expansion did -/
theorem go_none_sources (re : RStr) (rep : Bytes) (g : Bool) : ∀ (f : Nat) (ln : Bytes) (r : Option Bytes) (first : Bool),
    substLine.go re rep g f ln r first = none → ∃ k first', TrapAt re rep (ln.drop k) first' := by
  intro f
  induction f with
  | zero => intro ln r first h; rw [substLine.go] at h; cases h
  | succ f ih =>
    intro ln r first h
    rcases (go_none_iff re rep g f ln r first).1 h with ht | ⟨res, offs, c, x, _, _, _, _, hgo⟩
    · exact ⟨0, first, by simpa using ht⟩
    · obtain ⟨k, first', hk⟩ := ih _ _ _ hgo
      obtain ⟨k0, e⟩ := nextRest_suffix ln offs
      rw [e, List.drop_drop] at hk
      exact ⟨_, first', hk⟩

end Neatvi.Lemmas.C05g
