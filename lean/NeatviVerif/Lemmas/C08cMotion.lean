import NeatviVerif.Props.C08
/-!
# C08 (third part): `ren_noeol` is monotone up to one step
-/
namespace Neatvi.Lemmas.C08c
open Neatvi Neatvi.Uc Neatvi.Vi Neatvi.Ex Neatvi.Lemmas.C08

/-- `ren_noeol` first clamps the offset into the line (a monotone map) and then steps back by at most
one: offsets in order stay in order up to that one step -/
theorem renNoeol_mono1 (ln : Bytes) (o1 o2 : Int) (h : o1 ≤ o2) : Ren.renNoeol ln o1 ≤ Ren.renNoeol ln o2 + 1 := by
  unfold Ren.renNoeol
  simp only []
  have hn : (0 : Int) ≤ ucSlen ln := by omega
  generalize (ucSlen ln : Int) = n at hn
  repeat' split
  all_goals omega

/-- the same for `noeol` (also on a row that does not exist) -/
theorem noeol_mono1 (s : VS) (r o1 o2 : Int) (h : o1 ≤ o2) : noeol s r o1 ≤ noeol s r o2 + 1 := by
  unfold noeol
  split
  · simp only []
    repeat' split
    all_goals omega
  · exact renNoeol_mono1 _ _ _ h

/-- in fact `ren_noeol` is monotone: the clamp is monotone, and after it two different offsets differ by
at least the one step `ren_noeol` may take back -/
theorem renNoeol_mono (ln : Bytes) (o1 o2 : Int) (h : o1 ≤ o2) : Ren.renNoeol ln o1 ≤ Ren.renNoeol ln o2 := by
  unfold Ren.renNoeol
  simp only []
  have hn : (0 : Int) ≤ ucSlen ln := by omega
  generalize (ucSlen ln : Int) = n at hn
  generalize hc1 : (if o1 ≥ n then max 0 (n - 1) else o1) = c1
  generalize hc2 : (if o2 ≥ n then max 0 (n - 1) else o2) = c2
  have hle : c1 ≤ c2 := by
    subst hc1 hc2
    repeat' split
    all_goals omega
  rcases Int.lt_or_eq_of_le hle with hlt | heq
  · repeat' split
    all_goals omega
  · subst heq
    exact Int.le_refl _

theorem noeol_mono (s : VS) (r o1 o2 : Int) (h : o1 ≤ o2) : noeol s r o1 ≤ noeol s r o2 := by
  unfold noeol
  split
  · simp only []
    repeat' split
    all_goals omega
  · exact renNoeol_mono _ _ _ h

end Neatvi.Lemmas.C08c
