import NeatviVerif.Lemmas.C08bSim
/-!
# C08 (insert mode): `led_lastword` on ASCII text
-/
set_option linter.unusedSimpArgs false
namespace Neatvi.Lemmas.C08b
open Neatvi Neatvi.Uc Neatvi.Vi Neatvi.Spec

/-- reference for `^W`: from the end, skip the white space, then the run of characters of the kind
(word / punctuation) of the last non-blank; the result is the number of bytes kept -/
def lastWordRef (s : Bytes) : Nat :=
  match s.reverse.dropWhile ucIsSpace with
  | [] => 0
  | c :: t => (t.dropWhile (fun x => ucKind x == ucKind c)).length

theorem take_succ_reverse (s : Bytes) (r : Nat) (h : r < s.length) :
    (s.take (r + 1)).reverse = s.getD r 0 :: (s.take r).reverse := by
  rw [List.take_add_one, List.reverse_append]
  simp [List.getElem?_eq_getElem h, List.getD_eq_getElem?_getD]

theorem back1_spec (isSp : Nat → Bool) (s : Bytes) (hS : ∀ i, i < s.length → isSp i = ucIsSpace (s.getD i 0)) :
    ∀ (r f : Nat), r < s.length → r ≤ f →
      lastWord.back1 isSp f r = ((s.take (r + 1)).reverse.dropWhile ucIsSpace).length - 1 := by
  intro r
  induction r with
  | zero =>
    intro f h _
    rw [take_succ_reverse s 0 h]
    have : lastWord.back1 isSp f 0 = 0 := by
      cases f with
      | zero => rw [lastWord.back1]
      | succ f => rw [lastWord.back1]; simp
    rw [this]
    simp only [List.take_zero, List.reverse_nil, List.dropWhile_cons, List.dropWhile_nil]
    split <;> simp
  | succ r ih =>
    intro f h hf
    obtain ⟨f, rfl⟩ : ∃ g, f = g + 1 := ⟨f - 1, by omega⟩
    rw [lastWord.back1, take_succ_reverse s (r + 1) h, hS (r + 1) h]
    by_cases hsp : ucIsSpace (s.getD (r + 1) 0) = true
    · simp only [hsp, Bool.and_true, List.dropWhile_cons, if_true]
      rw [if_pos (by simp), Nat.add_sub_cancel, ih f (by omega) (by omega)]
    · simp only [hsp, Bool.and_false, Bool.false_eq_true, if_false, List.dropWhile_cons, List.length_cons,
        List.length_reverse, List.length_take]
      omega

theorem back2_spec (kindOf : Nat → Nat) (K : Nat) (s : Bytes) (hK : ∀ i, i < s.length → kindOf i = ucKind (s.getD i 0)) :
    ∀ (r f : Nat), r ≤ s.length → r ≤ f →
      lastWord.back2 kindOf K f r = ((s.take r).reverse.dropWhile (fun x => ucKind x == K)).length := by
  intro r
  induction r with
  | zero =>
    intro f _ _
    cases f with
    | zero => rw [lastWord.back2]; simp
    | succ f => rw [lastWord.back2]; simp
  | succ r ih =>
    intro f h hf
    obtain ⟨f, rfl⟩ : ∃ g, f = g + 1 := ⟨f - 1, by omega⟩
    rw [lastWord.back2, take_succ_reverse s r (by omega), Nat.add_sub_cancel, hK r (by omega)]
    by_cases hk : (ucKind (s.getD r 0) == K) = true
    · simp only [hk, Bool.and_true, List.dropWhile_cons, if_true]
      rw [if_pos (by simp), ih f (by omega) (by omega)]
    · simp only [hk, Bool.and_false, Bool.false_eq_true, if_false, List.dropWhile_cons, List.length_cons,
        List.length_reverse, List.length_take]
      omega

/-- a `dropWhile` of the reversal is the reversal of a prefix -/
theorem reverse_dropWhile_eq (s : Bytes) (p : Nat → Bool) :
    s.reverse.dropWhile p = (s.take (s.reverse.dropWhile p).length).reverse := by
  have h := List.takeWhile_append_dropWhile (p := p) (l := s.reverse)
  have h2 : s = (s.reverse.dropWhile p).reverse ++ (s.reverse.takeWhile p).reverse := by
    have := congrArg List.reverse h
    rw [List.reverse_append, List.reverse_reverse] at this
    exact this.symm
  conv => rhs; rw [h2]
  rw [List.take_left' (by simp), List.reverse_reverse]

/-- on ASCII text the character starts are the byte offsets -/
theorem chop_ascii (s : Bytes) (h : ∀ b ∈ s, 0 < b ∧ b < 128) :
    (ucChop s).dropLast.length = s.length ∧ ∀ i, i < s.length → (ucChop s).dropLast.getD i 0 = i := by
  have henc : encStr s = s := encStr_ascii s (fun b hb => (h b hb).2)
  have hv : ∀ c ∈ s, ValidCp c := fun c hc => ⟨(h c hc).1, by have := (h c hc).2; omega⟩
  have hc := Props.C16.chop_spec hv
  rw [henc] at hc
  have hdl : (ucChop s).dropLast = (List.range s.length).map (byteOff s) := by
    rw [hc, List.range_succ, List.map_append, List.map_singleton, List.dropLast_concat]
  rw [hdl]
  refine ⟨by simp, ?_⟩
  intro i hi
  rw [List.getD_eq_getElem?_getD, List.getElem?_map, List.getElem?_range hi]
  simp only [Option.map_some, Option.getD_some]
  unfold byteOff
  rw [encStr_ascii _ (fun b hb => (h b (List.mem_of_mem_take hb)).2), List.length_take]
  omega

/-- **`led_lastword` on ASCII text is the reference** -/
theorem lastWord_ascii (s : Bytes) (h : ∀ b ∈ s, 0 < b ∧ b < 128) : lastWord s = lastWordRef s := by
  cases hs : s with
  | nil => rfl
  | cons x t =>
    rw [← hs]
    have hne : s.isEmpty = false := by rw [hs]; rfl
    have hpos : 0 < s.length := by rw [hs]; simp
    obtain ⟨hlen, hget⟩ := chop_ascii s h
    unfold lastWord
    rw [hne]
    simp only [Bool.false_eq_true, if_false, hlen]
    have hS : ∀ i, i < s.length →
        (fun i => ucIsSpace (s.getD ((ucChop s).dropLast.getD i 0) 0)) i = ucIsSpace (s.getD i 0) := by
      intro i hi; simp only [hget i hi]
    have hK : ∀ i, i < s.length →
        (fun i => ucKind (s.getD ((ucChop s).dropLast.getD i 0) 0)) i = ucKind (s.getD i 0) := by
      intro i hi; simp only [hget i hi]
    have h1 := back1_spec _ s hS (s.length - 1) s.length (by omega) (by omega)
    rw [show s.length - 1 + 1 = s.length by omega, List.take_length] at h1
    rw [h1]
    have hd := reverse_dropWhile_eq s ucIsSpace
    have hL : (s.reverse.dropWhile ucIsSpace).length ≤ s.length := by
      have := (List.dropWhile_sublist ucIsSpace (l := s.reverse)).length_le
      simpa using this
    unfold lastWordRef
    generalize hLdef : (s.reverse.dropWhile ucIsSpace).length = L at hd hL h1 ⊢
    cases L with
    | zero =>
      have : s.reverse.dropWhile ucIsSpace = [] := List.eq_nil_of_length_eq_zero hLdef
      rw [this]
      simp only [Nat.zero_sub, Nat.lt_irrefl, decide_false, if_false, gt_iff_lt]
      rw [back2_spec _ 0 s hK 0 s.length (by omega) (by omega)]
      have h00 := hget 0 hpos
      simpa using h00
    | succ r =>
      rw [take_succ_reverse s r (by omega)] at hd
      rw [hd]
      simp only [Nat.add_sub_cancel]
      have hr : r < s.length := by omega
      by_cases hr0 : r = 0
      · subst hr0
        simp only [Nat.lt_irrefl, decide_false, if_false, gt_iff_lt, List.take_zero, List.reverse_nil,
          List.dropWhile_nil, List.length_nil]
        rw [back2_spec _ 0 s hK 0 s.length (by omega) (by omega)]
        have h00 := hget 0 hpos
        simpa using h00
      · have hgt : r > 0 := by omega
        simp only [hgt, decide_true, if_true, hget r hr]
        rw [back2_spec _ _ s hK r s.length (by omega) (by omega)]
        have hle : ((s.take r).reverse.dropWhile (fun x => ucKind x == ucKind (s.getD r 0))).length ≤ r := by
          have := (List.dropWhile_sublist (fun x => ucKind x == ucKind (s.getD r 0)) (l := (s.take r).reverse)).length_le
          simp only [List.length_reverse, List.length_take] at this
          omega
        rw [hget _ (by omega)]

end Neatvi.Lemmas.C08b
