import NeatviVerif.Lemmas.C05eA
/-!
# C05e lemmas, part N: the marks of `:g` — no primitive of lbuf.c adds one (only `lbuf_globset` does)

`cnt dep gl`: the number of entries of the mark table that carry the bit of depth `dep`.  `lbuf_replace` keeps the
entries of the lines it keeps and gives the lines it inserts a cleared entry; so `lbuf_edit`, `lbuf_rd`, `lbuf_undo`,
`lbuf_redo` never raise the number, for any depth.
-/
namespace Neatvi.Lemmas.C05e
open Neatvi Neatvi.Lbuf Neatvi.LbufIo Neatvi.Ex Neatvi.Props.C01

/-- the entry carries the mark of depth `dep` -/
def hasBit (dep x : Nat) : Bool := decide (x &&& (1 <<< dep) > 0)

def cnt (dep : Nat) (gl : List Nat) : Nat := gl.countP (hasBit dep)

theorem cnt_le_length (dep : Nat) (gl : List Nat) : cnt dep gl ≤ gl.length := List.countP_le_length

theorem cnt_append (dep : Nat) (a b : List Nat) : cnt dep (a ++ b) = cnt dep a + cnt dep b := List.countP_append

theorem cnt_sublist {dep : Nat} {a b : List Nat} (h : a.Sublist b) : cnt dep a ≤ cnt dep b := h.countP_le

theorem cnt_replicate_zero (dep k : Nat) : cnt dep (List.replicate k 0) = 0 := by
  unfold cnt
  rw [List.countP_eq_zero]
  intro x hx
  rw [(List.mem_replicate.mp hx).2]
  simp [hasBit]

/-- marks are only removed: the relation between the mark tables before and after -/
def GLe (g g' : List Nat) : Prop := ∀ dep, cnt dep g' ≤ cnt dep g

theorem GLe.refl (g : List Nat) : GLe g g := fun _ => Nat.le_refl _
theorem GLe.trans {a b c : List Nat} (h1 : GLe a b) (h2 : GLe b c) : GLe a c := fun d => Nat.le_trans (h2 d) (h1 d)

theorem setMark_glob' (lb : Lb) (c : Nat) (p o : Int) : (setMark lb c p o).glob = lb.glob := by
  unfold setMark; split <;> rfl

theorem replace_gle {lb lb' : Lb} {s : Option Bytes} {pos nDel : Nat} (hr : replace lb s pos nDel = some lb') :
    GLe lb.glob lb'.glob := by
  unfold replace at hr
  dsimp only at hr
  split at hr
  · cases hr
    intro dep
    rw [setMark_glob', setMark_glob']
    dsimp only
    rw [cnt_append, cnt_append, cnt_append, cnt_replicate_zero, Nat.add_zero]
    have hdec : lb.glob = lb.glob.take pos ++ ((lb.glob.drop pos).take nDel ++ (lb.glob.drop pos).drop nDel) := by
      rw [List.take_append_drop, List.take_append_drop]
    have h1 : cnt dep lb.glob = cnt dep (lb.glob.take pos) + (cnt dep ((lb.glob.drop pos).take nDel) +
        cnt dep ((lb.glob.drop pos).drop nDel)) := by
      conv => lhs; rw [hdec]
      rw [cnt_append, cnt_append]
    have h2 : ∀ k, cnt dep ((lb.glob.drop pos).take (min k nDel)) ≤ cnt dep ((lb.glob.drop pos).take nDel) :=
      fun k => cnt_sublist (List.take_sublist_take_left (Nat.min_le_right _ _))
    have h3 : (lb.glob.drop pos).drop nDel = lb.glob.drop (pos + nDel) := by rw [List.drop_drop]
    rw [h3] at h1
    rw [h1, Nat.add_assoc]
    exact Nat.add_le_add_left (Nat.add_le_add_right (h2 _) _) _
  · cases hr

theorem replace_gle' {lb lb' : Lb} {g : List Nat} {s : Option Bytes} {pos nDel : Nat} (hr : replace lb s pos nDel = some lb')
    (hg : lb.glob = g) : GLe g lb'.glob := by rw [← hg]; exact replace_gle hr

theorem edit_gle {lb lb' : Lb} {buf : Option Bytes} {b e : Nat} (he : Lbuf.edit lb buf b e = some lb') : GLe lb.glob lb'.glob := by
  unfold Lbuf.edit at he
  dsimp only at he
  split at he
  · cases he
  · split at he
    · cases he; exact GLe.refl _
    · exact replace_gle (lb := opt lb buf _ _) he

theorem loadMarks_glob' (lb : Lb) (e : Entry) : (loadMarks lb e).glob = lb.glob := by
  unfold loadMarks; split <;> rfl

theorem undoGo_gle (seq : Nat) : ∀ (f : Nat) (lb lb' : Lb), undoGo seq f lb = some lb' → GLe lb.glob lb'.glob := by
  intro f
  induction f with
  | zero => intro lb lb' hu; rw [undoGo] at hu; cases hu; exact GLe.refl _
  | succ f ih =>
    intro lb lb' hu
    rw [undoGo] at hu
    split at hu
    · cases hu; exact GLe.refl _
    · split at hu
      · cases hu
      · split at hu
        · split at hu
          · cases hu
          · rename_i e _ _ lb1 hr
            have h1 : GLe lb.glob lb1.glob := replace_gle' hr rfl
            have h2 := ih _ _ hu
            rw [loadMarks_glob'] at h2
            exact h1.trans h2
        · cases hu; exact GLe.refl _

theorem redoGo_gle (seq : Nat) : ∀ (f : Nat) (lb lb' : Lb), redoGo seq f lb = some lb' → GLe lb.glob lb'.glob := by
  intro f
  induction f with
  | zero => intro lb lb' hu; rw [redoGo] at hu; cases hu; exact GLe.refl _
  | succ f ih =>
    intro lb lb' hu
    rw [redoGo] at hu
    split at hu
    · split at hu
      · cases hu
      · split at hu
        · split at hu
          · cases hu
          · rename_i e _ _ lb1 hr
            have h1 : GLe lb.glob lb1.glob := replace_gle' hr rfl
            have h2 := ih _ _ hu
            exact h1.trans h2
        · cases hu; exact GLe.refl _
    · cases hu; exact GLe.refl _

theorem undo_gle {lb lb' : Lb} {rc : Nat} (hu : Lbuf.undo lb = some (rc, lb')) : GLe lb.glob lb'.glob := by
  unfold Lbuf.undo at hu
  split at hu
  · cases hu; exact GLe.refl _
  · split at hu
    · cases hu
    · simp only [Option.map_eq_some_iff] at hu
      obtain ⟨l, hl, he⟩ := hu
      cases he
      exact undoGo_gle _ _ _ _ hl

theorem redo_gle {lb lb' : Lb} {rc : Nat} (hu : Lbuf.redo lb = some (rc, lb')) : GLe lb.glob lb'.glob := by
  unfold Lbuf.redo at hu
  split at hu
  · cases hu; exact GLe.refl _
  · split at hu
    · cases hu
    · simp only [Option.map_eq_some_iff] at hu
      obtain ⟨l, hl, he⟩ := hu
      cases he
      exact redoGo_gle _ _ _ _ hl

theorem rd_gle {lb lb' : Lb} {chunks : List Bytes} {fe : Bool} {b e rc : Nat} (hr : rd lb chunks fe b e = some (rc, lb')) :
    GLe lb.glob lb'.glob := by
  unfold rd at hr
  repeat' (split at hr)
  all_goals (first | cases hr | skip)
  · exact GLe.refl _
  · rename_i he; exact edit_gle he

/-! ### the editor: the marks of the current buffer -/

/-- the number of lines of the current buffer that carry the mark of depth `dep` -/
def markCnt (dep : Nat) (ed : Ed) : Nat := match ed.lb with | some lb => cnt dep lb.glob | none => 0

/-- no mark of the current buffer was added -/
def MLe (ed ed' : Ed) : Prop := ∀ dep, markCnt dep ed' ≤ markCnt dep ed

theorem MLe.refl (ed : Ed) : MLe ed ed := fun _ => Nat.le_refl _
theorem MLe.trans {a b c : Ed} (h1 : MLe a b) (h2 : MLe b c) : MLe a c := fun d => Nat.le_trans (h2 d) (h1 d)

theorem MLe.of_lb {ed ed' : Ed} (h : ed'.lb = ed.lb) : MLe ed ed' := by
  intro dep; unfold markCnt; rw [h]; exact Nat.le_refl _

theorem MLe.of_bufs {ed ed' : Ed} (h : ed'.bufs = ed.bufs) : MLe ed ed' := MLe.of_lb (Lemmas.ExFrame.lb_of_bufs h)

theorem MLe.setLb {ed : Ed} {lb0 lb : Lb} (h : ed.lb = some lb0) (hg : GLe lb0.glob lb.glob) : MLe ed (ed.setLb lb) := by
  intro dep
  unfold markCnt
  rw [Lemmas.C06.setLb_lb ed lb0 lb h, h]
  exact hg dep

theorem MLe.setLb_same {ed : Ed} {lb0 lb : Lb} (h : ed.lb = some lb0) (hg : lb.glob = lb0.glob) : MLe ed (ed.setLb lb) :=
  MLe.setLb h (by rw [hg]; exact GLe.refl _)

theorem edit_mle {ed ed' : Ed} {s : Option Bytes} {b e : Int} (he : ed.edit s b e = some ed') : MLe ed ed' := by
  obtain ⟨_, _, lb, lb', hlb, hed, rfl, _⟩ := Lemmas.ExFrame.Ed_edit_some he
  exact MLe.setLb hlb (edit_gle hed)

theorem region_mle {ed ed' : Ed} {loc : Bytes} {x : Nat × Int × Int} (hr : exRegion ed loc = some (x, ed')) : MLe ed ed' :=
  MLe.of_bufs (Lemmas.ExFrame.exRegion_bufs hr)

end Neatvi.Lemmas.C05e
