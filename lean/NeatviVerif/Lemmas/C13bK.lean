import NeatviVerif.Lemmas.C13bC
import NeatviVerif.Props.C10b
/-!
# C13b, part K: the engine on the rest of the line against the whole-line *reference*

`regexec_rest_first_whole` combines `Props.C10b.regexec_first` (a search without depth cut reports the
best parse at the first start position that has any parse — of the subject it was given, here the
rest of the line) with `results_shift`: for a `ContextFree` pattern that match, shifted by `k`, is the
best parse of the **whole line** at the first start position at or after `k` that has any parse.
-/
namespace Neatvi.Lemmas.C13b
open Neatvi Neatvi.Regex Neatvi.Spec.RegexSem Neatvi.Props.C10 Neatvi.Props.C10b

theorem startMarks_shift (ngrps s k : Nat) : shiftM k (startMarks ngrps s) = startMarks ngrps (s + k) := by
  unfold startMarks marks0
  rw [shiftM_setMark, shiftM_replicate]

theorem noParseUntil_shift (line : Bytes) (k fw fs : Nat) (hk : k ≤ line.length) (hk0 : 0 < k) (hfl : FlagsRest fw fs)
    (t : RNode) (hcf : ContextFree t = true) (hbeg : BegOk t line k) (ngrps : Nat) {s0 s : Nat}
    (h : NoParseUntil ⟨line.drop k, fs⟩ t ngrps s0 s) : NoParseUntil ⟨line, fw⟩ t ngrps (s0 + k) (s + k) := by
  induction h with
  | here s => exact NoParseUntil.here _
  | @step s1 s2 hnil _ ih =>
    have := results_shift line k fw fs hk hk0 hfl t hcf hbeg (s1, startMarks ngrps s1)
    simp only [shiftR, startMarks_shift] at this
    rw [hnil] at this
    refine NoParseUntil.step this ?_
    show NoParseUntil ⟨line, fw⟩ t ngrps (s1 + k + rxLen line (s1 + k)) (s2 + k)
    have e : s1 + rxLen (line.drop k) s1 + k = s1 + k + rxLen line (s1 + k) := by
      rw [rxLen_drop]; omega
    rw [← e]
    exact ih

/-- **the engine on the rest, judged against the whole line** (no depth cut): `regcomp` accepted the
    pattern, its tree is `ContextFree`, and `regexec` on the rest `line.drop k` with `REG_NOTBOL`
    reports a match with cut counter 0.  Then, in the reference semantics of the *whole line*, no
    start position tried from `k` up to `s + k` has a parse, the reference list at `s + k` is the
    shifted list of the rest, and the marks reported, shifted by `k`, are those of its head (the
    highest-priority parse) with mark 1 at its end. -/
theorem regexec_rest_first_whole {pat : Bytes} {flg : Nat} {prog : Prog} (hc : regcomp pat flg = some (some prog))
    (line : Bytes) (k nsub ew es nd ngrps : Nat) (hk : k ≤ line.length) (hk0 : 0 < k)
    (hfl : FlagsRest (prog.flg ||| ew) (prog.flg ||| es)) (hg1 : 1 < ngrps)
    (hgr : ∀ t0, parse pat = some (some t0) → 2 * (1 + (grpnum t0 1).2) ≤ ngrps)
    (hcf : ∀ t0, parse pat = some (some t0) → ContextFree t0 = true ∧ BegOk t0 line k)
    (m : Marks) (subs : List (Int × Int))
    (hr : regexec prog (line.drop k) nsub es nd ngrps = (ExecRes.found m 0, subs)) :
    ∃ t0 s r rest, parse pat = some (some t0) ∧
      NoParseUntil ⟨line, prog.flg ||| ew⟩ (grpnum t0 1).1 ngrps k (s + k) ∧
      results ⟨line, prog.flg ||| ew⟩ (grpnum t0 1).1 (s + k, startMarks ngrps (s + k)) = r :: rest ∧
      shiftM k m = r.2.set 1 (r.1 : Int) := by
  obtain ⟨t0, s, r, rest, hp, hno, hres, hm⟩ := regexec_first hc (line.drop k) nsub es nd ngrps hg1 hgr m subs hr
  obtain ⟨hcf0, hbeg0⟩ := hcf t0 hp
  have hcf1 : ContextFree (grpnum t0 1).1 = true := by rw [cf_grpnum]; exact hcf0
  have hbeg1 : BegOk (grpnum t0 1).1 line k := by
    rcases hbeg0 with h | h
    · exact Or.inl (by rw [noBeg_grpnum]; exact h)
    · exact Or.inr h
  have hsh := results_shift line k (prog.flg ||| ew) (prog.flg ||| es) hk hk0 hfl _ hcf1 hbeg1 (s, startMarks ngrps s)
  simp only [shiftR, startMarks_shift] at hsh
  rw [hres] at hsh
  refine ⟨t0, s, shiftR k r, rest.map (shiftR k), hp, ?_, hsh, ?_⟩
  · have := noParseUntil_shift line k _ _ hk hk0 hfl _ hcf1 hbeg1 ngrps hno
    rw [Nat.zero_add] at this
    exact this
  · rw [hm]
    have := shiftM_setMark k r.2 1 r.1
    unfold setMark at this
    simp only [shiftR]
    exact this

end Neatvi.Lemmas.C13b
