import NeatviVerif.Model.ViCmd
/-!
# C05f, part A: a weakest-precondition calculus for the vi-level monad `M`

`wp m Q s`: running `m` from `s` does not trap, and if it returns normally with `a` in `s'` then `Q a s'`
(the end of the key stream, `Res.eof`, satisfies every postcondition).
-/
set_option linter.unusedSimpArgs false
set_option linter.unusedVariables false
namespace Neatvi.Lemmas.C05f
open Neatvi Neatvi.Uc Neatvi.Lbuf Neatvi.Ex Neatvi.Mot Neatvi.Vi

def wp {α : Type} (m : M α) (Q : α → VS → Prop) (s : VS) : Prop :=
  match m s with
  | Res.ok a s' => Q a s'
  | Res.eof => True
  | Res.trap => False

theorem wp_def {α : Type} (m : M α) (Q : α → VS → Prop) (s : VS) :
    wp m Q s ↔ m s ≠ Res.trap ∧ ∀ a s', m s = Res.ok a s' → Q a s' := by
  unfold wp
  cases h : m s with
  | ok a s' => simp
  | eof => simp
  | trap => simp

theorem wp_no_trap {α : Type} {m : M α} {Q : α → VS → Prop} {s : VS} (h : wp m Q s) : m s ≠ Res.trap :=
  ((wp_def m Q s).mp h).1

theorem wp_post {α : Type} {m : M α} {Q : α → VS → Prop} {s : VS} (h : wp m Q s) {a : α} {s' : VS}
    (hm : m s = Res.ok a s') : Q a s' := ((wp_def m Q s).mp h).2 a s' hm

theorem wp_of {α : Type} {m : M α} {Q : α → VS → Prop} {s : VS} (h1 : m s ≠ Res.trap)
    (h2 : ∀ a s', m s = Res.ok a s' → Q a s') : wp m Q s := (wp_def m Q s).mpr ⟨h1, h2⟩

theorem wp_mono {α : Type} {m : M α} {Q Q' : α → VS → Prop} {s : VS} (h : wp m Q s)
    (hq : ∀ a s', Q a s' → Q' a s') : wp m Q' s := by
  unfold wp at *
  cases hm : m s with
  | ok a s' => rw [hm] at h; exact hq _ _ h
  | eof => trivial
  | trap => rw [hm] at h; exact h

/-- strengthen the postcondition with what is known of every normal return -/
theorem wp_and {α : Type} {m : M α} {Q Q' : α → VS → Prop} {s : VS} (h : wp m Q s)
    (h' : ∀ a s', m s = Res.ok a s' → Q' a s') : wp m (fun a s' => Q a s' ∧ Q' a s') s := by
  unfold wp at *
  cases hm : m s with
  | ok a s' => rw [hm] at h; exact ⟨h, h' _ _ hm⟩
  | eof => trivial
  | trap => rw [hm] at h; exact h

@[simp] theorem wp_pure {α : Type} (a : α) (Q : α → VS → Prop) (s : VS) : wp (pure a : M α) Q s ↔ Q a s := Iff.rfl

@[simp] theorem wp_bind {α β : Type} (m : M α) (f : α → M β) (Q : β → VS → Prop) (s : VS) :
    wp (m >>= f) Q s ↔ wp m (fun a s' => wp (f a) Q s') s := by
  show wp (fun s => match m s with | Res.ok a s' => f a s' | Res.eof => Res.eof | Res.trap => Res.trap) Q s ↔ _
  unfold wp
  cases hm : m s with
  | ok a s' => simp only [hm]
  | eof => simp only [hm]
  | trap => simp only [hm]

theorem bind_ok {α β : Type} {m : M α} {f : α → M β} {s : VS} {a : α} {s1 : VS} (h : m s = Res.ok a s1) :
    (m >>= f) s = f a s1 := by
  show (match m s with | Res.ok a s' => f a s' | Res.eof => Res.eof | Res.trap => Res.trap) = _
  rw [h]

/-- the bind rule that remembers how the first computation ended -/
theorem wp_bind_eqn {α β : Type} (m : M α) (f : α → M β) (Q : β → VS → Prop) (s : VS) :
    wp (m >>= f) Q s ↔ wp m (fun a s' => m s = Res.ok a s' → wp (f a) Q s') s := by
  rw [wp_bind]
  unfold wp
  cases hm : m s with
  | ok a s' => simp
  | eof => simp
  | trap => simp

@[simp] theorem wp_get (Q : VS → VS → Prop) (s : VS) : wp Vi.get Q s ↔ Q s s := Iff.rfl
@[simp] theorem wp_set (t : VS) (Q : Unit → VS → Prop) (s : VS) : wp (Vi.set t) Q s ↔ Q () t := Iff.rfl
@[simp] theorem wp_modify (f : VS → VS) (Q : Unit → VS → Prop) (s : VS) : wp (Vi.modify f) Q s ↔ Q () (f s) := Iff.rfl
@[simp] theorem wp_trap {α : Type} (Q : α → VS → Prop) (s : VS) : wp (Vi.trap : M α) Q s ↔ False := Iff.rfl
@[simp] theorem wp_withEd (f : Ed → Ed) (Q : Unit → VS → Prop) (s : VS) :
    wp (withEd f) Q s ↔ Q () { s with ed := f s.ed } := Iff.rfl
@[simp] theorem wp_unmodelled (Q : Unit → VS → Prop) (s : VS) :
    wp Vi.unmodelled Q s ↔ Q () { s with unmodelled := true } := Iff.rfl
@[simp] theorem wp_setMsg (m : Bytes) (Q : Unit → VS → Prop) (s : VS) :
    wp (setMsg m) Q s ↔ Q () { s with msg := m.take 511 } := Iff.rfl
@[simp] theorem wp_liftO_some {α : Type} (a : α) (Q : α → VS → Prop) (s : VS) : wp (liftO (some a)) Q s ↔ Q a s := Iff.rfl
@[simp] theorem wp_liftO_none {α : Type} (Q : α → VS → Prop) (s : VS) : wp (liftO (none : Option α)) Q s ↔ False := Iff.rfl

theorem wp_liftO {α : Type} (o : Option α) (Q : α → VS → Prop) (s : VS) :
    wp (liftO o) Q s ↔ ∃ a, o = some a ∧ Q a s := by
  cases o <;> simp

@[simp] theorem wp_setPos (r o : Int) (Q : Unit → VS → Prop) (s : VS) :
    wp (setPos r o) Q s ↔ Q () { s with ed := { s.ed with xrow := r, xoff := o } } := Iff.rfl
@[simp] theorem wp_setRow (r : Int) (Q : Unit → VS → Prop) (s : VS) :
    wp (setRow r) Q s ↔ Q () { s with ed := { s.ed with xrow := r } } := Iff.rfl
@[simp] theorem wp_setOff (o : Int) (Q : Unit → VS → Prop) (s : VS) :
    wp (setOff o) Q s ↔ Q () { s with ed := { s.ed with xoff := o } } := Iff.rfl
@[simp] theorem wp_setTop (t : Int) (Q : Unit → VS → Prop) (s : VS) :
    wp (setTop t) Q s ↔ Q () { s with ed := { s.ed with xtop := t } } := Iff.rfl
@[simp] theorem wp_regPut (c : Nat) (txt : Bytes) (ln : Nat) (Q : Unit → VS → Prop) (s : VS) :
    wp (regPut c txt ln) Q s ↔ Q () { s with ed := { s.ed with regs := s.ed.regs.put c txt ln } } := Iff.rfl
@[simp] theorem wp_viBack (c : Int) (Q : Unit → VS → Prop) (s : VS) :
    wp (viBack c) Q s ↔ Q () { s with vibuf := c :: s.vibuf } := Iff.rfl
@[simp] theorem wp_termCmd (Q : Bytes → VS → Prop) (s : VS) :
    wp termCmd Q s ↔ Q s.icmd { s with icmd := [] } := Iff.rfl

theorem wp_ite {α : Type} (c : Prop) [Decidable c] (a b : M α) (Q : α → VS → Prop) (s : VS) :
    wp (if c then a else b) Q s ↔ (c → wp a Q s) ∧ (¬ c → wp b Q s) := by
  split <;> simp_all

/-- unfold the calculus over binds and the primitive state updates -/
macro "wps" : tactic => `(tactic| simp only [wp_bind, wp_pure, wp_get, wp_set, wp_modify, wp_trap, wp_withEd,
  wp_unmodelled, wp_setMsg, wp_liftO_some, wp_liftO_none, wp_setPos, wp_setRow, wp_setOff, wp_setTop, wp_regPut,
  wp_viBack, wp_termCmd])

/-- one step of the calculus at the head of the goal (no rewriting inside the branches of the program) -/
macro "wp1" : tactic => `(tactic| ((first
  | with_reducible refine (wp_bind _ _ _ _).mpr ?_
  | with_reducible refine (wp_pure _ _ _).mpr ?_
  | with_reducible refine (wp_get _ _).mpr ?_
  | with_reducible refine (wp_modify _ _ _).mpr ?_
  | with_reducible refine (wp_withEd _ _ _).mpr ?_
  | with_reducible refine (wp_unmodelled _ _).mpr ?_
  | with_reducible refine (wp_setMsg _ _ _).mpr ?_
  | with_reducible refine (wp_setPos _ _ _ _).mpr ?_
  | with_reducible refine (wp_setRow _ _ _).mpr ?_
  | with_reducible refine (wp_setOff _ _ _).mpr ?_
  | with_reducible refine (wp_setTop _ _ _).mpr ?_
  | with_reducible refine (wp_regPut _ _ _ _ _).mpr ?_
  | with_reducible refine (wp_viBack _ _ _).mpr ?_
  | with_reducible refine (wp_termCmd _ _).mpr ?_
  | with_reducible refine (wp_liftO_some _ _ _).mpr ?_); try dsimp only))

/-- case split on an `if` at the head of the program -/
macro "wpif" h:ident : tactic => `(tactic| with_reducible refine (wp_ite _ _ _ _ _).mpr ⟨fun $h => ?_, fun $h => ?_⟩)

macro "wpn" : tactic => `(tactic| repeat wp1)

end Neatvi.Lemmas.C05f
