import NeatviVerif.Props.C08b
/-!
# C08 (third part): `vc_replace` with a newline (`r<CR>`)
-/
namespace Neatvi.Lemmas.C08c
open Neatvi Neatvi.Uc Neatvi.Vi Neatvi.Ex Neatvi.Spec Neatvi.Lemmas.C08 Neatvi.Lemmas.C08b Neatvi.Lemmas.C09

/-- `vi_char()` on the newline key under the default keymap: the newline itself -/
theorem viChar_newline (s : VS) (rest : Bytes) (hp : pending s = 10 :: rest) (hk : s.xkmap = 0) :
    ∃ s', viChar s = Res.ok (some [10]) s' ∧ pending s' = rest ∧ Reads false [10] s s' := by
  obtain ⟨h1, h2, h3⟩ := termRead_afterRead s 10 rest hp
  have hk1 : (afterRead s).xkmap = 0 := by
    have := h3.kmap false
    simpa [hk] using this
  have e6 : (((10 : Nat) : Int) == 6) = false := beq_cast 10 6 (by omega)
  have e5 : (((10 : Nat) : Int) == 5) = false := beq_cast 10 5 (by omega)
  have et := tkInt_cast 10 (by omega) (by omega)
  have hgo : viChar s = readCharS ((10 : Nat) : Int) (afterRead s).xkmap (afterRead s) := by
    unfold viChar
    rw [viChar.go]
    simp only [bind_apply, h1, et, e6, e5, Bool.false_eq_true, if_false, get_apply]
  rw [hgo, hk1, readCharS_plain 10 _ (by omega) (by omega) (by omega) (by omega)]
  exact ⟨_, rfl, h2, h3⟩

/-- the text that replaces the row splits into the two lines -/
theorem split_two (a b : List Nat) (ha : 10 ∉ a) (hb : 10 ∉ b) :
    Lbuf.splitLines (encStr a ++ [10] ++ encStr (b ++ [10])) = [encStr (a ++ [10]), encStr (b ++ [10])] := by
  have e : encStr a ++ [10] ++ encStr (b ++ [10]) = [encStr (a ++ [10]), encStr (b ++ [10])].flatten := by
    simp [enc_ten, encStr]
  rw [e]
  apply Props.C01.split_of_join
  intro l hl
  simp only [List.mem_cons, List.not_mem_nil, or_false] at hl
  rcases hl with rfl | rfl
  · exact wfLine_enc ha
  · exact wfLine_enc hb

end Neatvi.Lemmas.C08c
