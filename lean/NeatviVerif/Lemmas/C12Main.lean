import NeatviVerif.Lemmas.C12Atoms
/-!
# C12 lemmas, part 8: one start position of the engine = one candidate of the fast path;
the agreement theorem under explicit hypotheses on the subject
-/
namespace Neatvi.C12
open Neatvi Neatvi.Uc Neatvi.Regex Neatvi.Rset

/-- what the agreement proof needs to know about the subject `s` (relative to the literal):
* `sync`: the literal can only compare equal at a position `regexec` tries (a character start);
* `prev`: the engine's word test on the character before a position (`uc_beg`) and the fast
  path's test on the byte before it give the same answer;
* `fold`: with ICASE, the engine's code-point-wise folding comparison at a start position gives
  the same answer as the fast path's byte-wise `tolower` comparison. -/
structure SubjOk (s lit : Bytes) (icase : Bool) : Prop where
  sync : ∀ r, matchCase (s.drop r) lit icase = true → Starts s r
  prev : ∀ p, 0 < p → p ≤ s.length → isWordB (prevLead s p) = isWordB (s.getD (p - 1) 0)
  fold : icase = true → ∀ r, Starts s r →
    chrIcase lit s (lit.length + 2) 0 r =
      if matchCase (s.drop r) lit true = true then AR.ok (r + lit.length) else AR.fail

theorem arBind_ite (C : Prop) [Decidable C] (p : Nat) (k : Nat → AR) :
    arBind (if C then AR.ok p else AR.fail) k = if C then k p else AR.fail := by
  split <;> simp [arBind]

theorem arBind_if (C : Prop) [Decidable C] (x : AR) (k : Nat → AR) :
    arBind (if C then x else AR.fail) k = if C then arBind x k else AR.fail := by
  split <;> simp [arBind]

theorem arBind_ok (p : Nat) (k : Nat → AR) : arBind (AR.ok p) k = k p := rfl

theorem runAtoms_single (s : Bytes) (flg : Nat) (a : Atom) (r : Nat) :
    runAtoms s flg [a] r = atomMatch a s flg r := by
  simp only [runAtoms]
  cases atomMatch a s flg r <;> simp [arBind]

theorem runAtoms_opt (s : Bytes) (flg : Nat) (b : Bool) (a : Atom) (r : Nat) :
    runAtoms s flg (if b then [a] else []) r = if b then atomMatch a s flg r else AR.ok r := by
  cases b
  · simp [runAtoms]
  · simp [runAtoms_single]

theorem opt_ite (b : Bool) (C : Prop) [Decidable C] (r : Nat) :
    (if b then (if C then AR.ok r else AR.fail) else AR.ok r) =
      if (b = true → C) then AR.ok r else AR.fail := by
  cases b <;> simp

/-- **one start position**: on a newline-terminated line the atoms of the literal program match
    at a start position `r` exactly when `r` is a match of the fast path, and then end at
    `r + len` -/
theorem run_literal (body lit : Bytes) (rs : RStr) (fl flg r : Nat)
    (hbody : ∀ c ∈ body, c ≠ 0 ∧ c ≠ 10) (hne : lit ≠ []) (hnl10 : ¬ 10 ∈ lit)
    (hok : SubjOk (body ++ [10]) lit rs.icase)
    (hnl : hasFlag flg REG_NEWLINE = true) (hic : hasFlag flg REG_ICASE = rs.icase)
    (hnb : hasFlag flg REG_NOTBOL = (fl &&& RE_NOTBOL != 0))
    (hst : Starts (body ++ [10]) r) :
    runAtoms (body ++ [10]) flg (atomsOf rs.lbeg rs.wbeg rs.wend rs.lend lit) r =
      if FastMatch rs lit (body ++ [10]) fl r then AR.ok (r + lit.length) else AR.fail := by
  have hr : r ≤ (body ++ [10]).length := hst.le
  have hslen : (body ++ [10]).length = body.length + 1 := by simp
  -- the literal atom
  have hchr : atomMatch ⟨AK.chr, lit⟩ (body ++ [10]) flg r =
      if matchCase ((body ++ [10]).drop r) lit rs.icase = true then AR.ok (r + lit.length) else AR.fail := by
    cases hi : rs.icase
    · exact atomMatch_chr_nocase hr (by rw [hic, hi])
    · rw [atomMatch_chr_icase hr (by rw [hic, hi])]
      exact hok.fold hi r hst
  unfold atomsOf
  rw [runAtoms_append, runAtoms_append, runAtoms_append, runAtoms_append]
  rw [runAtoms_opt, atomMatch_beg hr hnl, opt_ite]
  simp only [arBind_if, arBind_ok]
  rw [runAtoms_opt, atomMatch_wbeg hr, opt_ite]
  simp only [arBind_if, arBind_ok]
  rw [runAtoms_single, hchr]
  simp only [arBind_if, arBind_ok]
  by_cases hM : matchCase ((body ++ [10]).drop r) lit rs.icase = true
  · have hb := match_bound hne hnl10 hM
    have hlen : 0 < lit.length := by cases lit <;> simp_all
    have hp : r + lit.length ≤ (body ++ [10]).length := by omega
    simp only [hM, if_true]
    rw [runAtoms_opt, atomMatch_wend hp, opt_ite]
    simp only [arBind_if, arBind_ok]
    rw [runAtoms_opt, atomMatch_end hp hnl, opt_ite]
    -- the four side conditions of the engine, rewritten as those of the fast path
    have e1 : ((r = 0 ∧ hasFlag flg REG_NOTBOL = false) ∨
        (r ≠ 0 ∧ (body ++ [10]).getD (r - 1) 0 = 10 ∧ (body ++ [10]).getD r 0 ≠ 0)) ↔
        (r = 0 ∧ fl &&& RE_NOTBOL = 0) := by
      rw [hnb]
      constructor
      · rintro (⟨h1, h2⟩ | ⟨h1, h2, _⟩)
        · exact ⟨h1, by simpa using h2⟩
        · exact absurd h2 (hbody _ (getD_body (by omega))).2
      · rintro ⟨h1, h2⟩
        exact Or.inl ⟨h1, by simp [h2]⟩
    have e2 : ((r = 0 ∨ isWordB (prevLead (body ++ [10]) r) = false) ∧
        isWordB ((body ++ [10]).getD r 0) = true) ↔ WBegAt (body ++ [10]) r := by
      unfold WBegAt
      by_cases h0 : r = 0
      · simp [h0]
      · rw [hok.prev r (by omega) hr]
    have e4 : ((r + lit.length ≠ 0 ∧ isWordB (prevLead (body ++ [10]) (r + lit.length)) = true ∧
        ((body ++ [10]).getD (r + lit.length) 0 = 0 ∨
          isWordB ((body ++ [10]).getD (r + lit.length) 0) = false))) ↔
        WEndAt (body ++ [10]) (r + lit.length) := by
      unfold WEndAt
      rw [hok.prev (r + lit.length) (by omega) hp]
    have e5 : (((body ++ [10]).getD (r + lit.length) 0 = 0 ∧ hasFlag flg REG_NOTEOL = false) ∨
        (body ++ [10]).getD (r + lit.length) 0 = 10) ↔ r + lit.length + 1 = (body ++ [10]).length := by
      rw [hslen]
      by_cases h5 : r + lit.length < body.length
      · have := hbody _ (getD_body h5)
        constructor
        · rintro (⟨h, _⟩ | h)
          · exact absurd h this.1
          · exact absurd h this.2
        · intro h; omega
      · have h6 : r + lit.length = body.length := by omega
        rw [h6, getD_nl]; simp
    simp only [e1, e2, e4, e5]
    have hfm : FastMatch rs lit (body ++ [10]) fl r ↔
        ((rs.lbeg = true → r = 0 ∧ fl &&& RE_NOTBOL = 0) ∧ (rs.wbeg = true → WBegAt (body ++ [10]) r) ∧
         (rs.wend = true → WEndAt (body ++ [10]) (r + lit.length)) ∧
         (rs.lend = true → r + lit.length + 1 = (body ++ [10]).length)) := by
      unfold FastMatch InRange Cand
      constructor
      · rintro ⟨⟨_, h1, h2⟩, _, h3, h4⟩; exact ⟨h1, h3, h4, h2⟩
      · rintro ⟨h1, h3, h4, h2⟩; exact ⟨⟨by omega, h1, h2⟩, hM, h3, h4⟩
    by_cases c1 : (rs.lbeg = true → r = 0 ∧ fl &&& RE_NOTBOL = 0)
    · by_cases c2 : (rs.wbeg = true → WBegAt (body ++ [10]) r)
      · by_cases c4 : (rs.wend = true → WEndAt (body ++ [10]) (r + lit.length))
        · by_cases c5 : (rs.lend = true → r + lit.length + 1 = (body ++ [10]).length)
          · rw [if_pos c1, if_pos c2, if_pos c4, if_pos c5, if_pos (hfm.mpr ⟨c1, c2, c4, c5⟩)]
          · rw [if_pos c1, if_pos c2, if_pos c4, if_neg c5, if_neg (fun h => c5 (hfm.mp h).2.2.2)]
        · rw [if_pos c1, if_pos c2, if_neg c4, if_neg (fun h => c4 (hfm.mp h).2.2.1)]
      · rw [if_pos c1, if_neg c2, if_neg (fun h => c2 (hfm.mp h).2.1)]
    · rw [if_neg c1, if_neg (fun h => c1 (hfm.mp h).1)]
  · have hfm : ¬ FastMatch rs lit (body ++ [10]) fl r := fun h => hM h.2.1
    rw [if_neg hfm]
    simp only [hM]
    split <;> (try split) <;> simp

/-! ### flags -/

theorem flags_bits (a b c : Bool) :
    let f := (1 ||| (if a then REG_ICASE else 0)) |||
      (REG_NEWLINE ||| (if b then REG_NOTBOL else 0) ||| (if c then REG_NOTEOL else 0))
    hasFlag f REG_ICASE = a ∧ hasFlag f REG_NEWLINE = true ∧ hasFlag f REG_NOTBOL = b ∧
      hasFlag f REG_NOTEOL = c := by
  cases a <;> cases b <;> cases c <;> decide

/-- the fast-path descriptor `rstr_make` builds for a literal pattern -/
def fastOf (lbeg wbeg wend lend : Bool) (lit : Bytes) (cflg : Nat) : RStr :=
  { rs := none, str := some lit, icase := cflg &&& RE_ICASE != 0, lbeg := lbeg, lend := lend,
    wbeg := wbeg, wend := wend }

/-- the program flags `rset_make` passes to `regcomp` -/
def progFlags (cflg : Nat) : Nat := 1 ||| (if cflg &&& RE_ICASE != 0 then REG_ICASE else 0)

/-- **agreement on one line**, for the descriptor and the pattern set in explicit form -/
theorem agree_explicit (lbeg wbeg wend lend : Bool) (lit : Bytes) (cflg : Nat) (alloc : Int)
    (hne : lit ≠ []) (hnl10 : ¬ 10 ∈ lit)
    (body : Bytes) (hbody : ∀ c ∈ body, c ≠ 0 ∧ c ≠ 10)
    (hok : SubjOk (body ++ [10]) lit (cflg &&& RE_ICASE != 0))
    (n flg nd ng : Nat) (hnd : 1 ≤ nd) (hng : 6 ≤ ng) :
    rstrFind (fastOf lbeg wbeg wend lend lit cflg) (body ++ [10]) n flg nd ng =
      Rset.find (litSet (atomsOf lbeg wbeg wend lend lit) alloc (progFlags cflg)) (body ++ [10]) n flg nd ng := by
  have hs : ∀ c ∈ body ++ [10], c ≠ 0 := by
    intro c hc
    rcases List.mem_append.mp hc with h | h
    · exact (hbody c h).1
    · simp at h; omega
  have hsne : body ++ [10] ≠ [] := by simp
  let cx := findCtx (atomsOf lbeg wbeg wend lend lit) (progFlags cflg) (body ++ [10]) flg nd ng
  obtain ⟨f1, f2, f3, _⟩ := flags_bits (cflg &&& RE_ICASE != 0) (flg &&& RE_NOTBOL != 0) (flg &&& RE_NOTEOL != 0)
  have hrun : ∀ r, Starts (body ++ [10]) r →
      recmatch cx r 0 =
        if FastMatch (fastOf lbeg wbeg wend lend lit cflg) lit (body ++ [10]) flg r
        then Res.ok (r + lit.length) (marksOf ng r (r + lit.length)) 0 else Res.fail 0 := by
    intro r hst
    rw [recmatch_litCode cx (atomsOf lbeg wbeg wend lend lit) rfl hnd hng]
    have : runAtoms (body ++ [10]) cx.flg (atomsOf lbeg wbeg wend lend lit) r =
        if FastMatch (fastOf lbeg wbeg wend lend lit cflg) lit (body ++ [10]) flg r
        then AR.ok (r + lit.length) else AR.fail :=
      run_literal body lit (fastOf lbeg wbeg wend lend lit cflg) flg cx.flg r hbody hne hnl10 hok
        f2 f1 f3 hst
    show resBind (runAtoms (body ++ [10]) cx.flg _ r) 0 _ = _
    rw [this]
    by_cases hp : FastMatch (fastOf lbeg wbeg wend lend lit cflg) lit (body ++ [10]) flg r
    · rw [if_pos hp, if_pos hp]; rfl
    · rw [if_neg hp, if_neg hp]; rfl
  have hexec := execLoop_spec cx (FastMatch (fastOf lbeg wbeg wend lend lit cflg) lit (body ++ [10]) flg)
    (fun r => marksOf ng r (r + lit.length)) hs
    (fun r hst hp => ⟨r + lit.length, by rw [hrun r hst, if_pos hp]⟩)
    (fun r hst hp => by rw [hrun r hst, if_neg hp])
    (fun r hp => hok.sync r hp.2.1)
    ((body ++ [10]).length + 2) 0 Starts.zero (by show (body ++ [10]).length + 1 ≤ _; omega) (fun r hr => by omega)
  have hfast := rstrFind_literal (fastOf lbeg wbeg wend lend lit cflg) lit (body ++ [10]) rfl rfl n flg nd ng
  rcases hfast with ⟨r, hr, hfr⟩ | ⟨hnone, hfr⟩
  · rcases hexec with ⟨r', hr', hex⟩ | ⟨hnone', _⟩
    · have : r' = r := IsLeast.unique hr' hr
      subst this
      rw [hfr, find_litSet_found _ _ _ _ _ _ _ _ hsne hng r' lit.length hex]
    · exact absurd hr.1 (hnone' r)
  · rcases hexec with ⟨r', hr', _⟩ | ⟨_, hex⟩
    · exact absurd hr'.1 (hnone r')
    · rw [hfr, find_litSet_nomatch _ _ _ _ _ _ _ _ hsne hex]

end Neatvi.C12
