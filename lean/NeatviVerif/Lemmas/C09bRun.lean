import NeatviVerif.Lemmas.C09bDot
import NeatviVerif.Props.C05c
/-!
# C09b: whole runs

`iterate n s` (`Props/C05c.lean`) is the state after `n` iterations of `vi()`.  `stepOk s` is the proviso
of C09 at the iteration that starts in `s` ("no `.`/`@` pushes while pushed keys are unread, and `ibuf` has
room"), computed by running the model; `runOk n s` is the proviso along the first `n` iterations.

* `viStep_K`: one iteration keeps the simulation relation `K`, under `stepOk` (or on the diagonal);
* `run_K`: so do `n` iterations, under `runOk`;
* `run_inv`: the unary invariants (`ibuf_pos ≤ ibuf_cnt`, `rep_len + 1 < 4096`, `icmd_pos ≤ 4096`) hold
  along every run, without any proviso.
-/
namespace Neatvi.Lemmas.C09b
open Neatvi Neatvi.Vi Neatvi.Ex Neatvi.Lemmas.C09
open Neatvi.Props.C05c (iterate)

/-- **the proviso at one iteration**: if the iteration is the command `.` or `@`, then at the moment of
the push (after the command key and, for `@`, the register name have been read) no pushed key is unread
and `ibuf` has room for what is pushed -/
def stepOk (s : VS) : Bool :=
  match viPre s with
  | Res.ok (mv, _, _) s1 =>
    if mv == 0 then
      match viRead s1 with
      | Res.ok c s2 =>
        if c == 46 then pushOk s2 (cnt1 s2) s2.repCmd
        else if c == 64 then
          match execHead (marked s2) with
          | Res.ok (some (n, x)) s3 => pushOk s3 n x
          | _ => true
        else true
      | _ => true
    else true
  | _ => true

/-- the proviso along the first `n` iterations -/
def runOk : Nat → VS → Bool
  | 0, _ => true
  | n + 1, s => stepOk s && match viStep s with
    | Res.ok _ s' => runOk n s'
    | _ => true

/-! ### the `.` and `@` commands -/

theorem relK_ok_inv {α : Type} {a : α} {s : VS} {r : Res α} (h : RelK (Res.ok a s) r) :
    ∃ t, r = Res.ok a t ∧ K s t := by
  cases h with
  | ok _ _ t hk => exact ⟨t, rfl, hk⟩

theorem commandTail_K_dot (s1 t1 s2 : VS) (h : K s1 t1) (hr : viRead s1 = Res.ok 46 s2)
    (hok : pushOk s2 (cnt1 s2) s2.repCmd = true ∨ s1 = t1) :
    RelK (commandTail s1) (commandTail t1) := by
  have hrel := resp_viRead s1 t1 h
  rw [hr] at hrel
  obtain ⟨t2, ht, h2⟩ := relK_ok_inv hrel
  rw [commandTail_dot' s1 s2 hr, commandTail_dot' t1 t2 ht]
  apply resp_finRec
  have hc : cnt1 t2 = cnt1 s2 := by unfold cnt1; rw [keyEq_arg1 h2.keq]
  have hrp : t2.repCmd = s2.repCmd := (keyEq_repCmd h2.keq).symm
  rw [hc, hrp]
  refine K_pushN _ _ _ _ (h2.upd frame_marked) ?_
  rcases hok with hok | rfl
  · left; exact hok
  · right
    rw [hr] at ht
    injection ht with _ e
    rw [e]

theorem execPush_K (o : Option (Nat × Bytes)) (s3 t3 : VS) (h : K s3 t3)
    (hok : (∀ n x, o = some (n, x) → pushOk s3 n x = true) ∨ s3 = t3) :
    RelK (execPush o s3) (execPush o t3) := by
  cases o with
  | none => exact RelK.ok _ _ _ h
  | some p =>
    obtain ⟨n, x⟩ := p
    show RelK (repeatM n (termPush x) s3) (repeatM n (termPush x) t3)
    rw [repeatM_push, repeatM_push]
    refine RelK.ok _ _ _ (K_pushN n x s3 t3 h ?_)
    rcases hok with hok | rfl
    · left; exact hok n x rfl
    · right; rfl

theorem commandTail_K_at (s1 t1 s2 : VS) (h : K s1 t1) (hr : viRead s1 = Res.ok 64 s2)
    (hok : (∀ n x s3, execHead (marked s2) = Res.ok (some (n, x)) s3 → pushOk s3 n x = true) ∨ s1 = t1) :
    RelK (commandTail s1) (commandTail t1) := by
  have hrel := resp_viRead s1 t1 h
  rw [hr] at hrel
  obtain ⟨t2, ht, h2⟩ := relK_ok_inv hrel
  rw [commandTail_at' s1 s2 hr, commandTail_at' t1 t2 ht]
  refine relK_bind (resp_execHead _ _ (h2.upd frame_marked)) (fun o s3 t3 hs3 ht3 h3 => ?_)
  refine relK_bind (execPush_K o s3 t3 h3 ?_) (fun _ s4 t4 _ _ h4 => resp_finRec _ _ _ s4 t4 h4)
  rcases hok with hok | rfl
  · left
    intro n x e
    subst e
    exact hok n x s3 hs3
  · right
    rw [hr] at ht
    injection ht with _ e
    subst e
    rw [hs3] at ht3
    injection ht3

/-! ### one iteration -/

theorem stepMid_K (mv r o : Int) (s1 t1 : VS) (h : K s1 t1)
    (hok : (mv = 0 → ∀ c s2, viRead s1 = Res.ok c s2 →
        (c = 46 → pushOk s2 (cnt1 s2) s2.repCmd = true) ∧
        (c = 64 → ∀ n x s3, execHead (marked s2) = Res.ok (some (n, x)) s3 → pushOk s3 n x = true))
      ∨ s1 = t1) :
    RelK (stepMid mv r o s1) (stepMid mv r o t1) := by
  unfold stepMid
  by_cases hmv : mv > 0
  · simp only [hmv, if_true]
    exact resp_motionTail _ _ _ s1 t1 h
  · simp only [hmv, if_false]
    by_cases h0 : mv = 0
    · subst h0
      simp only [BEq.rfl, if_true]
      cases hrd : viRead s1 with
      | ok c s2 =>
        by_cases h46 : c = 46
        · subst h46
          refine commandTail_K_dot s1 t1 s2 h hrd ?_
          rcases hok with hok | e
          · left; exact (hok rfl 46 s2 hrd).1 rfl
          · right; exact e
        · by_cases h64 : c = 64
          · subst h64
            refine commandTail_K_at s1 t1 s2 h hrd ?_
            rcases hok with hok | e
            · left; exact (hok rfl 64 s2 hrd).2 rfl
            · right; exact e
          · refine commandTail_K_plain s1 t1 h ⟨?_, ?_⟩
            · unfold cmdKey; rw [hrd]; intro e; injection e with e; exact h46 e
            · unfold cmdKey; rw [hrd]; intro e; injection e with e; exact h64 e
      | eof =>
        refine commandTail_K_plain s1 t1 h ⟨?_, ?_⟩ <;> (unfold cmdKey; rw [hrd]; intro e; cases e)
      | trap =>
        refine commandTail_K_plain s1 t1 h ⟨?_, ?_⟩ <;> (unfold cmdKey; rw [hrd]; intro e; cases e)
    · have : (mv == 0) = false := by simpa using h0
      simp only [this, Bool.false_eq_true, if_false]
      exact resp_pure _ s1 t1 h

/-- what `stepOk` says, given the outcome of `viPre` -/
theorem stepOk_spec (s s1 : VS) (r o : Int) (hp : viPre s = Res.ok (0, r, o) s1) (hok : stepOk s = true)
    (c : Int) (s2 : VS) (hr : viRead s1 = Res.ok c s2) :
    (c = 46 → pushOk s2 (cnt1 s2) s2.repCmd = true) ∧
    (c = 64 → ∀ n x s3, execHead (marked s2) = Res.ok (some (n, x)) s3 → pushOk s3 n x = true) := by
  unfold stepOk at hok
  rw [hp] at hok
  simp only [BEq.rfl, if_true, hr] at hok
  constructor
  · intro e; subst e
    simpa using hok
  · intro e n x s3 he; subst e
    simp only [show ((64 : Int) == 46) = false by decide, Bool.false_eq_true, if_false, BEq.rfl, if_true, he] at hok
    exact hok

/-- **one iteration of `vi()` keeps the simulation relation**, under the proviso (or when the two states
are the same) -/
theorem viStep_K (s t : VS) (h : K s t) (hok : stepOk s = true ∨ s = t) :
    RelK (viStep s) (viStep t) := by
  rw [viStep_eq_mid]
  refine relK_bind (resp_viPre s t h) (fun r s1 t1 hs1 ht1 h1 => ?_)
  obtain ⟨mv, nr, no⟩ := r
  dsimp only
  refine relK_bind ?_ (fun cont s2 t2 _ _ h2 => resp_viPost cont s2 t2 h2)
  refine stepMid_K mv nr no s1 t1 h1 ?_
  rcases hok with hok | rfl
  · left
    intro e c s2 hr
    subst e
    exact stepOk_spec s s1 nr no hs1 hok c s2 hr
  · right
    rw [hs1] at ht1
    injection ht1

/-! ### runs -/

/-- related outcomes of a run -/
inductive RelO : Option VS → Option VS → Prop where
  | some (s t : VS) (h : K s t) : RelO (some s) (some t)
  | none : RelO none none

theorem iterate_zero (s : VS) : iterate 0 s = some s := rfl

theorem iterate_eof (n : Nat) (s : VS) (h : viStep s = Res.eof) : iterate (n + 1) s = none := by
  conv => lhs; unfold iterate
  rw [h]

theorem iterate_trap (n : Nat) (s : VS) (h : viStep s = Res.trap) : iterate (n + 1) s = none := by
  conv => lhs; unfold iterate
  rw [h]

theorem relK_eof_inv {α : Type} {r : Res α} (h : RelK (Res.eof : Res α) r) : r = Res.eof := by
  cases h; rfl

theorem relK_trap_inv {α : Type} {r : Res α} (h : RelK (Res.trap : Res α) r) : r = Res.trap := by
  cases h; rfl

/-- **a whole run keeps the simulation relation**, under the proviso along the run (or when the two
initial states are the same) -/
theorem run_K (n : Nat) (s t : VS) (h : K s t) (hok : runOk n s = true ∨ s = t) :
    RelO (iterate n s) (iterate n t) := by
  induction n generalizing s t with
  | zero => exact RelO.some s t h
  | succ n ih =>
    have hstep : stepOk s = true ∨ s = t := by
      rcases hok with hok | e
      · left
        unfold runOk at hok
        simp only [Bool.and_eq_true] at hok
        exact hok.1
      · right; exact e
    have hrel := viStep_K s t h hstep
    cases hs : viStep s with
    | ok u s' =>
      rw [hs] at hrel
      obtain ⟨t', ht, h'⟩ := relK_ok_inv hrel
      rw [Props.C05c.iterate_succ n s s' u hs, Props.C05c.iterate_succ n t t' u ht]
      refine ih s' t' h' ?_
      rcases hok with hok | e
      · left
        unfold runOk at hok
        simp only [Bool.and_eq_true, hs] at hok
        exact hok.2
      · right
        subst e
        rw [hs] at ht
        injection ht
    | eof =>
      rw [hs] at hrel
      rw [iterate_eof n s hs, iterate_eof n t (relK_eof_inv hrel)]
      exact RelO.none
    | trap =>
      rw [hs] at hrel
      rw [iterate_trap n s hs, iterate_trap n t (relK_trap_inv hrel)]
      exact RelO.none

/-- **the invariants of the key queue and of the recording buffers hold along every run** -/
theorem run_inv (n : Nat) (s s' : VS) (h : Inv s) (hr : iterate n s = some s') : Inv s' := by
  have := run_K n s s (K.refl h) (Or.inr rfl)
  rw [hr] at this
  cases this with
  | some _ _ hk => exact hk.inv_left

/-- **pushed or typed, a whole run cannot tell**: the run from `s` and the run from the state in which
everything pending has been typed at the terminal instead go through `K`-related (hence `KeyEq`) states -/
theorem run_norm (n : Nat) (s : VS) (h : Inv s) (hok : runOk n s = true) :
    RelO (iterate n s) (iterate n (C09.norm s)) :=
  run_K n s (C09.norm s) (K.norm h) (Or.inl hok)

end Neatvi.Lemmas.C09b
