import NeatviVerif.Props.C03
import NeatviVerif.Lemmas.C06bRead
/-!
# C02d lemmas, part 1: the virtual file system under `lbuf_save`

* `FileIs data t`: the bytes `data` of a file "hold" the text `t` of a buffer: either byte for byte
  (`data = t.flatten`, what a whole write leaves), or `t` is what `lbuf_rd` makes of `data`
  (`t = splitLines (cstr data)`, what loading leaves: the two differ only when the file lacks its final
  newline or contains a NUL byte).
* `FsOk F c`: every file of `F` carries a time stamp in `[0, c]` and the clock `c` is at least `-1`.
* `SaveEff ed ed' path`: all that `lbuf_save(…, path, …)` may change: the file at `path` (then stamped
  with a time beyond the old clock), the clock (forward), the fault bookkeeping.
-/
namespace Neatvi.Lemmas.C02d
open Neatvi Neatvi.Lbuf Neatvi.LbufIo Neatvi.Ex Neatvi.Props Neatvi.Props.C01

/-! ### a file holding a text -/

/-- the bytes `data` hold the text `t`: exactly, or as `lbuf_rd` reads them -/
def FileIs (data : Bytes) (t : List Bytes) : Prop := t = splitLines (cstr data) ∨ data = t.flatten

/-- for a text file in the usual sense (no NUL byte; empty or ending in a newline) the two readings
    coincide: the file is the concatenation of the lines, byte for byte -/
theorem fileIs_exact {data : Bytes} {t : List Bytes} (h : FileIs data t) (h0 : 0 ∉ data)
    (hnl : needNl data = false) : data = t.flatten := by
  rcases h with h | h
  · rw [h, Lemmas.C06b.cstr_nulfree data h0, split_join, hnl]
    simp
  · exact h

theorem fileIs_flatten (t : List Bytes) : FileIs t.flatten t := Or.inr rfl
theorem fileIs_load (data : Bytes) : FileIs data (splitLines (cstr data)) := Or.inl rfl

/-! ### the file table -/

def findF (F : List File) (p : Bytes) : Option File := F.find? (fun f => f.path == p)
def mtimeF (F : List File) (p : Bytes) : Int := match findF F p with | some f => f.mtime | none => -1

theorem findFile_eq (ed : Ed) (p : Bytes) : ed.findFile p = findF ed.files p := rfl
theorem mtimeOf_eq (ed : Ed) (p : Bytes) : ed.mtimeOf p = mtimeF ed.files p := rfl

/-- time stamps are sane: files are stamped within `[0, clock]` -/
def FsOk (F : List File) (c : Int) : Prop := -1 ≤ c ∧ ∀ f ∈ F, 0 ≤ f.mtime ∧ f.mtime ≤ c

theorem findF_mem {F : List File} {p : Bytes} {f : File} (h : findF F p = some f) : f ∈ F ∧ f.path = p := by
  unfold findF at h
  exact ⟨List.mem_of_find?_eq_some h, by simpa using List.find?_some h⟩

theorem mtimeF_le {F : List File} {c : Int} (h : FsOk F c) (p : Bytes) : mtimeF F p ≤ c := by
  unfold mtimeF
  cases hf : findF F p with
  | none => exact h.1
  | some f => exact (h.2 f (findF_mem hf).1).2

theorem mtimeF_some {F : List File} {p : Bytes} {f : File} (h : findF F p = some f) : mtimeF F p = f.mtime := by
  unfold mtimeF; rw [h]

theorem mtimeF_none {F : List File} {p : Bytes} (h : findF F p = none) : mtimeF F p = -1 := by
  unfold mtimeF; rw [h]

/-- with sane stamps, `mtime(path) = -1` means: no such file -/
theorem findF_none_of_neg {F : List File} {c : Int} (h : FsOk F c) {p : Bytes} (hm : mtimeF F p < 0) :
    findF F p = none := by
  cases hf : findF F p with
  | none => rfl
  | some f =>
    rw [mtimeF_some hf] at hm
    have := (h.2 f (findF_mem hf).1).1
    omega

theorem mem_putFile {ed : Ed} {f g : File} (h : g ∈ (ed.putFile f).files) : g = f ∨ g ∈ ed.files := by
  unfold Ed.putFile at h
  split at h
  · simp only [List.mem_map] at h
    obtain ⟨x, hx, rfl⟩ := h
    split
    · exact Or.inl rfl
    · exact Or.inr hx
  · simp only [List.mem_append, List.mem_singleton] at h
    rcases h with h | h
    · exact Or.inr h
    · exact Or.inl h

theorem find_map_ne (F : List File) (f : File) (q : Bytes) (hq : q ≠ f.path) :
    (F.map (fun g => if g.path == f.path then f else g)).find? (fun g => g.path == q) =
      F.find? (fun g => g.path == q) := by
  induction F with
  | nil => rfl
  | cons g F ih =>
    simp only [List.map_cons, List.find?_cons]
    by_cases hg : (g.path == f.path) = true
    · have hgp : g.path = f.path := by simpa using hg
      have h1 : (f.path == q) = false := by simpa using fun h => hq h.symm
      have h2 : (g.path == q) = false := by rw [hgp]; exact h1
      simp only [hg, if_true, h1, h2]
      exact ih
    · simp only [hg, Bool.false_eq_true, if_false]
      rw [ih]

theorem findFile_putFile_ne (ed : Ed) (f : File) (q : Bytes) (hq : q ≠ f.path) :
    (ed.putFile f).findFile q = ed.findFile q := by
  unfold Ed.putFile Ed.findFile
  split
  · exact find_map_ne _ _ _ hq
  · simp only [List.find?_append]
    have h1 : (f.path == q) = false := by simpa using fun h => hq h.symm
    cases ed.files.find? (fun g => g.path == q) with
    | some x => rfl
    | none => simp [h1]

theorem putFile_xquit (ed : Ed) (f : File) : (ed.putFile f).xquit = ed.xquit := by
  unfold Ed.putFile; split <;> rfl

/-! ### what a save does to the file system -/

/-- the footprint of `lbuf_save(lb, beg, end, path, force, ts)` -/
structure SaveEff (ed ed' : Ed) (path : Bytes) : Prop where
  bufs : ed'.bufs = ed.bufs
  clock : ed.clock ≤ ed'.clock
  other : ∀ q, q ≠ path → ed'.findFile q = ed.findFile q
  self : (ed'.files = ed.files ∧ ed'.clock = ed.clock) ∨
    (∃ fl, ed'.findFile path = some fl ∧ ed.clock < fl.mtime)
  fs : FsOk ed.files ed.clock → FsOk ed'.files ed'.clock
  xquit : ed'.xquit = ed.xquit

theorem SaveEff.refl' {ed ed' : Ed} (path : Bytes) (hb : ed'.bufs = ed.bufs) (hf : ed'.files = ed.files)
    (hc : ed'.clock = ed.clock) (hq : ed'.xquit = ed.xquit) : SaveEff ed ed' path :=
  ⟨hb, by rw [hc]; exact Int.le_refl _, fun q _ => by unfold Ed.findFile; rw [hf], Or.inl ⟨hf, hc⟩,
    fun h => by rw [hf, hc]; exact h, hq⟩

/-- the state after the write calls: files, clock -/
theorem afterWrite_eff (ed : Ed) (path : Bytes) (n : Nat) (st : WrState) :
    SaveEff ed (C03.afterWrite (C03.afterOpen ed path) path (C03.oldData ed.nextFault.2 path) n st).nextFault.2 path := by
  generalize hk : ((C03.schedOf (C03.afterOpen ed path) n).length - st.sched.length - (if st.ok then 0 else 1) : Nat) = k
  have hclock : (C03.afterWrite (C03.afterOpen ed path) path (C03.oldData ed.nextFault.2 path) n st).nextFault.2.clock
      = ed.clock + 1 + (k : Int) := by
    show (C03.afterOpen ed path).clock + _ = _
    rw [C03.afterOpen_clock, ← hk]
  have hfind := C03.findFile_putFile (C03.afterOpen ed path)
    ⟨path, fileAfter (C03.oldData ed.nextFault.2 path) st.out (if st.ok then some st.sz else none),
      (C03.afterOpen ed path).clock + (k : Int)⟩
  have hfiles : (C03.afterWrite (C03.afterOpen ed path) path (C03.oldData ed.nextFault.2 path) n st).nextFault.2.files
      = ((C03.afterOpen ed path).putFile
          ⟨path, fileAfter (C03.oldData ed.nextFault.2 path) st.out (if st.ok then some st.sz else none),
            (C03.afterOpen ed path).clock + (k : Int)⟩).files := by
    show (Ed.putFile _ _).files = _
    rw [← hk]
  have hopen : (C03.afterOpen ed path).files =
      (ed.nextFault.2.putFile ⟨path, C03.oldData ed.nextFault.2 path, ed.nextFault.2.clock + 1⟩).files := rfl
  refine ⟨?_, ?_, ?_, ?_, ?_, ?_⟩
  rotate_left 5
  · show (Ed.putFile _ _).xquit = _
    rw [putFile_xquit]
    show (Ed.putFile _ _).xquit = _
    rw [putFile_xquit]
    rfl
  · rw [C03.afterWrite_bufs, C03.afterOpen_bufs]
  · rw [hclock]; omega
  · intro q hq
    unfold Ed.findFile
    rw [hfiles]
    have h1 := findFile_putFile_ne (C03.afterOpen ed path)
      ⟨path, fileAfter (C03.oldData ed.nextFault.2 path) st.out (if st.ok then some st.sz else none),
        (C03.afterOpen ed path).clock + (k : Int)⟩ q hq
    unfold Ed.findFile at h1
    rw [h1, hopen]
    have h2 := findFile_putFile_ne ed.nextFault.2 ⟨path, C03.oldData ed.nextFault.2 path, ed.nextFault.2.clock + 1⟩ q hq
    unfold Ed.findFile at h2
    rw [h2]
    rfl
  · right
    refine ⟨⟨path, fileAfter (C03.oldData ed.nextFault.2 path) st.out (if st.ok then some st.sz else none),
        (C03.afterOpen ed path).clock + (k : Int)⟩, ?_, ?_⟩
    · unfold Ed.findFile
      rw [hfiles]
      exact hfind
    · simp only [C03.afterOpen_clock]
      omega
  · intro hfs
    rw [hclock]
    refine ⟨by have := hfs.1; omega, ?_⟩
    intro g hg
    rw [hfiles] at hg
    rcases mem_putFile hg with rfl | hg
    · simp only [C03.afterOpen_clock]
      have := hfs.1
      omega
    · rw [hopen] at hg
      rcases mem_putFile hg with rfl | hg
      · have := hfs.1
        have hc : ed.nextFault.2.clock = ed.clock := rfl
        simp only [hc]
        omega
      · have := hfs.2 g hg
        omega

/-- `C03.open_failure_surfaces`, with the quit flag -/
theorem open_failure_state (ed : Ed) (lb : Lb) (b : Nat) (e : Int) (path : Bytes) (force : Bool) (ts : Int)
    (hg : C03.GuardsPass ed path force ts) (ho : ed.nextFault.1 = 101) :
    ∃ ed', lbufSave ed lb b e path force ts = some (some (strOf "write failed: cannot create file"), ed') ∧
      ed'.files = ed.files ∧ ed'.clock = ed.clock ∧ ed'.bufs = ed.bufs ∧ ed'.xquit = ed.xquit := by
  have h1 : (!force && decide (ed.mtimeOf path > ts)) = false := by
    rcases hg with h | ⟨h, _⟩ <;> simp [h]
  have h2 : (!force && decide (ts ≤ 0) && decide (ed.mtimeOf path ≥ 0)) = false := by
    rcases hg with h | ⟨_, h⟩
    · simp [h]
    · simp only [Bool.and_eq_false_iff, decide_eq_false_iff_not, Bool.and_assoc]
      by_cases h3 : ts ≤ 0
      · right; right; exact fun h4 => h ⟨h3, h4⟩
      · right; left; exact h3
  unfold lbufSave
  simp only [h1, h2, Bool.false_eq_true, if_false]
  have h3 : (ed.nextFault.1 == 101) = true := by simp [ho]
  simp only [h3, if_true]
  exact ⟨_, rfl, rfl, rfl, rfl, rfl⟩

/-- **every outcome of `lbuf_save` has this footprint** -/
theorem lbufSave_eff (ed ed' : Ed) (lb : Lb) (b : Nat) (e : Int) (path : Bytes) (force : Bool) (ts : Int)
    (r : Option Bytes) (h : lbufSave ed lb b e path force ts = some (r, ed')) : SaveEff ed ed' path := by
  by_cases hg : C03.GuardsPass ed path force ts
  · by_cases ho : ed.nextFault.1 = 101
    · obtain ⟨ed1, h1, hf, hc, hb, hq⟩ := open_failure_state ed lb b e path force ts hg ho
      rw [h1] at h; cases h
      exact SaveEff.refl' path hb hf hc hq
    · rcases C03.lbufSave_cases ed lb b e path force ts hg ho with ⟨_, h1⟩ | ⟨st, hw, hc⟩
      · rw [h1] at h; cases h
      · rcases hc with ⟨_, h1⟩ | ⟨_, _, h1⟩ | ⟨_, _, h1⟩ <;>
        · rw [h1] at h; cases h; exact afterWrite_eff ed path _ st
  · obtain ⟨msg, h1⟩ := C03.guards_fail ed lb b e path force ts hg
    rw [h1] at h; cases h
    exact SaveEff.refl' path rfl rfl rfl rfl

theorem lbufSaveP_eff (ed ed' : Ed) (lb : Lb) (b : Nat) (e : Int) (path : Bytes) (force : Bool) (ts : Int)
    (r : Option Bytes) (h : lbufSaveP ed lb b e path force ts = some (r, ed')) : SaveEff ed ed' path := by
  by_cases hp : path = []
  · subst hp
    obtain ⟨_, rfl⟩ := Lemmas.C02Ex.lbufSaveP_empty_err _ _ _ _ _ _ _ _ h
    exact SaveEff.refl' [] (Lemmas.C02Ex.unnamedFail_bufs ed) (Lemmas.C02Ex.unnamedFail_files ed)
      (Lemmas.C02Ex.unnamedFail_clock ed) (by unfold Lemmas.C02Ex.unnamedFail; split <;> rfl)
  · rw [Lemmas.C02Ex.lbufSaveP_of_ne hp] at h
    exact lbufSave_eff _ _ _ _ _ _ _ _ _ h

/-- an unforced save whose time stamp is older than the file's is refused with the state untouched -/
theorem lbufSave_stale (ed ed' : Ed) (lb : Lb) (b : Nat) (e : Int) (path : Bytes) (ts : Int) (r : Option Bytes)
    (hm : ed.mtimeOf path > ts) (h : lbufSave ed lb b e path false ts = some (r, ed')) : ed' = ed ∧ r.isSome := by
  rw [C03.guard_newer ed lb b e path ts hm] at h
  cases h
  exact ⟨rfl, rfl⟩

/-- a successful whole save: the file holds the concatenation of the lines -/
theorem lbufSave_whole (ed ed' : Ed) (lb : Lb) (path : Bytes) (force : Bool) (ts : Int) (e : Int)
    (he : e < 0 ∨ e = (lb.lines.length : Int))
    (h : lbufSave ed lb 0 e path force ts = some (none, ed')) :
    ∃ fl, ed'.findFile path = some fl ∧ fl.data = lb.lines.flatten := by
  have hx := C03.success_exact _ _ _ _ _ _ _ _ h
  have hend : C03.endLine lb e = lb.lines.length := by
    unfold C03.endLine
    rcases he with he | he
    · rw [if_pos he]
    · rw [he]; simp
  rw [hend] at hx
  simp only [List.drop_zero, Nat.sub_zero, List.take_length] at hx
  cases hf : ed'.findFile path with
  | none => rw [hf] at hx; cases hx
  | some fl =>
    rw [hf] at hx
    simp only [Option.map_some, Option.some.injEq] at hx
    exact ⟨fl, rfl, hx⟩

/-! ### loading -/

/-- `lbuf_rd(xb, fd, 0, lbuf_len(xb))` of a whole file replaces the text by the lines read -/
theorem rd_whole {lb lb' : Lb} {data : Bytes} {rc : Nat}
    (h : rd lb [data] false 0 lb.lines.length = some (rc, lb')) : lb'.lines = splitLines (cstr data) := by
  rw [Lemmas.C06b.rd_single, Option.map_eq_some_iff] at h
  obtain ⟨l, hl, hr⟩ := h
  cases hr
  have := Lemmas.ExFrame.edit_lines hl (Nat.zero_le _)
  rw [this]
  simp [Lemmas.Hist.optLines]

end Neatvi.Lemmas.C02d
