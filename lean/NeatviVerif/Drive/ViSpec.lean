import NeatviVerif.Drive.Vi
import NeatviVerif.Spec.Motion
import NeatviVerif.Drive.ExSpec
/-! Reference judgement of the vi motions (C07) on the implementation's boundary dumps. -/
namespace Neatvi.Drive.ViSpec
open Neatvi Neatvi.Drive Neatvi.Drive.ViD Neatvi.Spec Neatvi.Spec.Motion

/-- split the text into lines of code points (without the newlines) -/
def bufOf (text : Bytes) : Buf :=
  let rec go : Nat → Bytes → Bytes → List Line → List Line
    | 0, _, _, acc => acc
    | f + 1, s, cur, acc =>
      match s with
      | [] => if cur.isEmpty then acc else acc ++ [Spec.decodeStr cur.length cur]
      | c :: r => if c == 10 then go f r [] (acc ++ [Spec.decodeStr cur.length cur]) else go f r (cur ++ [c]) acc
  go (text.length + 1) text [] []

/-- does the line need bidi reordering or hold characters whose cells the simple left-to-right sum does not describe? -/
def plainLine (l : Line) : Bool := l.all (fun c => c < 128 || (!(Spec.r2lSet.contains c) && c < 0x590 ) || (c ≥ 0x2E80 && c < 0xA000))

/-- display column at which character `col` of the line starts (left-to-right lines) -/
def startCol (l : Line) (col : Nat) : Nat :=
  (l.take col).foldl (fun p c => p + Spec.cellWidth c p) 0

/-- the character a display column belongs to: the last one that starts at or before it (the newline included) -/
def colToChar (l : Line) (x : Int) : Nat :=
  if x < 0 then 0 else
  (((List.range (l.length + 1)).filter (fun j => (startCol l j : Int) ≤ x)).getLast?).getD 0

structure Cmd where
  cnt : Option Nat
  mv : Nat
  arg : Option Nat := none     -- code point argument of f F t T
  whole : Bool := true         -- the segment is exactly this command

/-- parse the keys of one command: `[count] motion [character]` -/
def parseCmd (ks : Bytes) : Option Cmd :=
  let digits := if (ks.headD 0) ≥ 49 && (ks.headD 0) ≤ 57 then ks.takeWhile (fun c => 48 ≤ c && c ≤ 57) else []
  let rest := ks.drop digits.length
  let cnt := if digits.isEmpty then none else some (digits.foldl (fun n d => n * 10 + (d - 48)) 0)
  match rest with
  | [] => none
  | mv :: r =>
    if mv == 102 || mv == 70 || mv == 116 || mv == 84 then
      let cps := Spec.decodeStr r.length r
      if cps.length == 1 && r.headD 0 != 27 && r.headD 0 != 3 && r.headD 0 != 6 && r.headD 0 != 5 && r.headD 0 != 22 && r.headD 0 != 11 && r.headD 0 != 0
        then some { cnt := cnt, mv := mv, arg := cps.head? } else none
    else if r.isEmpty then some { cnt := cnt, mv := mv } else none

structure J07 where
  xcol : Option Int := some 0           -- the reference sticky column (`none`: unknown after an unjudged command)
  charlast : Option (Nat × Nat) := none  -- (command, code point) of the last f F t T
  errs : List String := []
  judged : Nat := 0

def motionsJudged : List Nat := [104, 108, 106, 107, 48, 94, 36, 124, 119, 98, 101, 87, 66, 69, 102, 70, 116, 84, 59, 44, 71, 43, 45, 95, 10, 37, 123, 125, 72, 77, 76, 32, 127, 8]

/-- where the reference says the motion lands; `none` = no judgement; `some none` = the motion fails -/
def expect (j : J07) (b : Buf) (row col : Nat) (xtop xrows : Int) (c : Cmd) : Option (Option (Nat × Nat)) :=
  let l := b.getD row []
  let n := (c.cnt.getD 1)
  let n := if n == 0 then 1 else n
  let has := c.cnt.isSome
  let mv := c.mv
  let nb (r : Nat) : Nat := let l := b.getD r []; match (List.range l.length).find? (fun k => !isBlank (l.getD k 0)) with | some k => k | none => lastCol l
  let lineTo (r : Int) : Option (Option (Nat × Nat)) :=
    if b.isEmpty then some (some (0, 0)) else let r := clampRow b r; some (some (r, nb r))
  if b.isEmpty then
    (if motionsJudged.contains mv then some (some (0, 0)) else none)
  else if mv == 104 || mv == 127 || mv == 8 then (if plainLine l then some (some (row, col - min n col)) else none)
  else if mv == 108 || mv == 32 then (if plainLine l then some (some (row, min (col + n) (lastCol l))) else none)
  else if mv == 106 || mv == 107 then
    let r := if mv == 106 then clampRow b ((row : Int) + n) else clampRow b ((row : Int) - n)
    let l' := b.getD r []
    match j.xcol with
    | some x => if plainLine l' then some (some (r, min (colToChar l' x) (lastCol l'))) else none
    | none => none
  else if mv == 48 then some (some (row, 0))
  else if mv == 94 then some (some (row, nb row))
  else if mv == 36 then some (some (row, lastCol l))
  else if mv == 124 then (if plainLine l then some (some (row, min (colToChar l ((n : Int) - 1)) (lastCol l))) else none)
  else if mv == 119 || mv == 87 then let p := wordFwd (mv == 87) b ⟨row, col⟩ n; some (some (p.row, p.col))
  else if mv == 98 || mv == 66 then let p := wordBack (mv == 66) b ⟨row, col⟩ n; some (some (p.row, p.col))
  else if mv == 101 || mv == 69 then let p := wordEndFwd (mv == 69) b ⟨row, col⟩ n; some (some (p.row, p.col))
  else if mv == 102 || mv == 70 || mv == 116 || mv == 84 then
    match c.arg with
    | none => none
    | some ch => some ((findChar l col ch (mv == 102 || mv == 116) (mv == 116 || mv == 84) n).map (fun k => (row, k)))
  else if mv == 59 || mv == 44 then
    match j.charlast with
    | none => some none
    | some (cmd, ch) =>
      let fwd := (cmd == 102 || cmd == 116) == (mv == 59)
      some ((findChar l col ch fwd (cmd == 116 || cmd == 84) n).map (fun k => (row, k)))
  else if mv == 71 then lineTo (if has then (n : Int) - 1 else (b.length : Int) - 1)
  else if mv == 43 || mv == 10 then lineTo ((row : Int) + n)
  else if mv == 45 then lineTo ((row : Int) - n)
  else if mv == 95 then lineTo ((row : Int) + n - 1)
  else if mv == 72 then lineTo (xtop + n - 1)
  else if mv == 76 then lineTo (xtop + xrows - 1 - n + 1)
  else if mv == 77 then lineTo (xtop + xrows / 2)
  else if mv == 37 then
    if has then (if n > 100 then some none else lineTo (((b.length : Int) - 1) * n / 100))
    else some ((pairOf b ⟨row, col⟩).map (fun p => (p.row, p.col)))
  else if mv == 125 then some (some (Motion.iter (fun r => some (paraFwd b r)) n row, 0))
  else if mv == 123 then some (some (Motion.iter (fun r => some (paraBack b r)) n row, 0))
  else none

def judge07Step (j : J07) (a b : Bd) (ks : Bytes) (xrows : Int) : J07 :=
  let buf := bufOf a.text
  let bufB := bufOf b.text
  -- invariants of every command of a motion stream
  let errs := j.errs
  let errs := if a.text == b.text then errs else errs ++ [s!"clause=motions_keep_text keys={bytesHex ks}"]
  let lb := bufB.getD b.xrow.toNat []
  let okCur := if bufB.isEmpty then b.xrow == 0 && b.xoff == 0
    else b.xrow ≥ 0 && b.xrow.toNat < bufB.length && b.xoff ≥ 0 && b.xoff.toNat ≤ lastCol lb
  let errs := if okCur then errs else errs ++ [s!"clause=cursor_on_a_character keys={bytesHex ks} row={b.xrow} off={b.xoff}"]
  let j := { j with errs := errs }
  match parseCmd ks with
  | none => { j with xcol := none }
  | some c =>
    let row := a.xrow.toNat; let col := a.xoff.toNat
    let j1 := if c.mv == 102 || c.mv == 70 || c.mv == 116 || c.mv == 84 then { j with charlast := c.arg.map (fun ch => (c.mv, ch)) } else j
    match expect j buf row col a.xtop xrows c with
    | none => { j1 with xcol := none }
    | some e =>
      let want : Nat × Nat := match e with | some p => p | none => (row, col)
      let got : Nat × Nat := (b.xrow.toNat, b.xoff.toNat)
      let errs := if want == got then j1.errs else
        j1.errs ++ [s!"clause=motion_lands_per_reference keys={bytesHex ks} from={row},{col} want={want.1},{want.2}{if e.isNone then "(fails)" else ""} got={got.1},{got.2}"]
      -- the sticky column: unchanged by j, k and by failing motions; `|` sets it; every other motion takes the cursor's column
      let lB := bufB.getD b.xrow.toNat []
      let xcol := if c.mv == 106 || c.mv == 107 then j1.xcol
        else if e.isNone then j1.xcol
        else if c.mv == 124 then some ((c.cnt.getD 1 : Int) - 1)
        else if plainLine lB then some (startCol lB b.xoff.toNat : Int) else none
      { j1 with errs := errs, xcol := xcol, judged := j1.judged + 1 }

/-- judge a whole case of the motion stream -/
def judge07 (c : Case) : List String × Nat :=
  let bs := c.impl.filter (·.mark == "B")
  let rec go : Nat → Nat → J07 → J07
    | 0, _, j => j
    | f + 1, i, j =>
      match bs[i]?, bs[i + 1]? with
      | some a, some b => go f (i + 1) (judge07Step j a.bd b.bd ((c.keys.drop a.bd.kpos).take (b.bd.kpos - a.bd.kpos)) (c.rows - 1))
      | _, _ => j
  let j0 : J07 := match bs.head? with
    | some a => let l := (bufOf a.bd.text).getD a.bd.xrow.toNat []; { xcol := if plainLine l then some (startCol l a.bd.xoff.toNat : Int) else none }
    | none => {}
  let j := go (bs.length + 1) 0 j0
  (j.errs, j.judged)

/-! ### C13: searching, judged with whole-line matching -/
structure J13 where
  pat : Option Bytes := none      -- the current search pattern (`none`: unknown)
  dir : Int := 0
  soset : Bool := false
  so : Int := 0
  errs : List String := []
  judged : Nat := 0
  found : Nat := 0

/-- byte offset of character `k` of a line (its length if beyond) -/
def byteOfChar (l : Bytes) (k : Nat) : Nat := match Uc.ucChr l k with | some b => b | none => l.length

/-- successive matches on a line: each search starts after the previous match (one byte further after an
empty one); `whole` judges every match against the whole line, otherwise against the suffix it starts in -/
def successive (t : Regex.RNode) (line : Bytes) (icase whole : Bool) : Nat → Nat → List (Nat × Nat)
  | 0, _ => []
  | f + 1, off =>
    if off > line.length then [] else
    let m : Option (Nat × Nat) :=
      if whole then (ExSpec.matchFrom t line icase off).map (fun r => (r.1, r.2.1))
      else
        let env : RegexSem.Env := ⟨line.drop off, ExSpec.refFlags icase (off != 0)⟩
        ((RegexSem.starts (line.drop off) (line.length + 2) 0).findSome? (fun i =>
          match RegexSem.results env t (i, List.replicate 128 (-1)) with
          | [] => none
          | r :: _ => some (off + i, off + r.1)))
    match m with
    | none => []
    | some (so, eo) =>
      let nxt := if eo > so then eo else eo + 1
      (so, eo) :: (if nxt ≥ line.length || line.getD nxt 0 == 10 then [] else successive t line icase whole f nxt)

/-- one search step from (row, off) in direction dir: (row, char offset, char length) -/
def searchRef (t : Regex.RNode) (ls : List Bytes) (icase whole : Bool) (dir : Int) (r0 o0 : Nat) : Option (Nat × Nat × Nat) :=
  let charOff (l : Bytes) (b : Nat) : Nat := Uc.ucOff l b
  let onRow (r : Nat) : Option (Nat × Nat × Nat) :=
    let l := ls.getD r []
    if dir > 0 then
      let from_ := if r == r0 then byteOfChar l (o0 + 1) else 0
      if r == r0 && from_ ≥ l.length then none else
      let m := if whole then (ExSpec.matchFrom t l icase from_).map (fun x => (x.1, x.2.1))
               else (successive t l icase false 1 from_).head?
      m.map (fun (so, eo) => (r, charOff l so, charOff (l.drop so) (eo - so)))
    else
      let all := successive t l icase whole (l.length + 2) 0
      let ok := all.filter (fun (so, _) => r != r0 || charOff l so < o0)
      -- the scan of the implementation stops at the first match at or after the cursor
      let ok := if r == r0 then all.takeWhile (fun (so, _) => charOff l so < o0) else ok
      ok.getLast?.map (fun (so, eo) => (r, charOff l so, charOff (l.drop so) (eo - so)))
  let rows := if dir > 0 then (List.range ls.length).filter (· ≥ r0) else ((List.range ls.length).filter (· ≤ r0)).reverse
  rows.findSome? onRow

/-- a counted search: `cnt` steps; after each but the last step of a typed `/` the offset moves past the match -/
def searchN (t : Regex.RNode) (ls : List Bytes) (icase whole : Bool) (dir : Int) (slash : Bool) : Nat → Nat → Nat → Nat → Option (Nat × Nat)
  | 0, _, r, o => some (r, o)
  | k + 1, i, r, o =>
    match searchRef t ls icase whole dir r o with
    | none => none
    | some (r', o', len) => if k == 0 then some (r', o') else searchN t ls icase whole dir slash k (i + 1) r' (if slash then o' + len else o')

def plainKeys (ks : Bytes) : Bool := ks.all (fun c => c ≥ 32 && c != 127)

def judge13Step (j : J13) (a b : Bd) (ks : Bytes) : J13 :=
  let digits := if (ks.headD 0) ≥ 49 && (ks.headD 0) ≤ 57 then ks.takeWhile (fun c => 48 ≤ c && c ≤ 57) else []
  let rest := ks.drop digits.length
  let cnt := if digits.isEmpty then 1 else max 1 (digits.foldl (fun n d => n * 10 + (d - 48)) 0)
  let cmd := rest.headD 0
  let ls := ExSpec.linesOf a.text
  let unknown : J13 := { j with pat := none }
  -- establish the pattern / direction this command uses
  let st : Option (J13 × Int × Bool) :=
    if (cmd == 47 || cmd == 63) && rest.getLast? == some 10 && plainKeys (rest.dropLast) then
      let (re, tail) := Ex.reRead (rest.dropLast)
      match re with
      | none => none
      | some re =>
        let tail := tail.dropWhile Ex.isSpaceC
        let j := { j with dir := if cmd == 47 then 1 else -1, soset := !tail.isEmpty, so := Ex.atoi tail,
                          pat := if re.isEmpty then j.pat else some re }
        some (j, j.dir, cmd == 47)
    else if (cmd == 110 || cmd == 78) && rest.length == 1 then
      some (j, if cmd == 78 then -j.dir else j.dir, false)
    else none
  match st with
  | none => if a.text == b.text && (ks.all (fun c => c != 47 && c != 63 && c != 1 && c != 58)) then j else unknown
  | some (j, dir, slash) =>
    match j.pat with
    | none => j
    | some pat =>
      if dir == 0 || ls.isEmpty then j else
      match ExSpec.refTree pat with
      | none => j
      | some t =>
        let r0 := a.xrow.toNat; let o0 := a.xoff.toNat
        let land (res : Option (Nat × Nat)) : Nat × Nat :=
          match res with
          | none => (r0, o0)
          | some (r, o) =>
            if j.soset then
              let r' : Int := (r : Int) + j.so
              if r' < 0 || r' ≥ ls.length then (r0, o0)
              else
                let l := ls.getD r'.toNat []
                let ind := (l.takeWhile (fun c => c == 32 || c == 9)).length
                (r'.toNat, min ind ((Uc.ucSlen l) - 2))
            else
              let l := ls.getD r []
              (r, min o (Uc.ucSlen l - 2))
        let want := land (searchN t ls true true dir slash cnt 0 r0 o0)
        let wantSuffix := land (searchN t ls true false dir slash cnt 0 r0 o0)
        let got : Nat × Nat := (b.xrow.toNat, b.xoff.toNat)
        let errs := if want == got then j.errs else
          j.errs ++ [s!"clause=search_lands_on_reference_match cause={if wantSuffix == got then "match_judged_on_suffix" else "other"} keys={bytesHex ks} pat={bytesHex pat} dir={dir} from={r0},{o0} want={want.1},{want.2} got={got.1},{got.2}"]
        let errs := if a.text == b.text then errs else errs ++ [s!"clause=search_keeps_text keys={bytesHex ks}"]
        { j with errs := errs, judged := j.judged + 1, found := j.found + (if want != (r0, o0) then 1 else 0) }

def judge13 (c : Case) : List String × Nat × Nat :=
  let bs := c.impl.filter (·.mark == "B")
  let rec go : Nat → Nat → J13 → J13
    | 0, _, j => j
    | f + 1, i, j =>
      match bs[i]?, bs[i + 1]? with
      | some a, some b => go f (i + 1) (judge13Step j a.bd b.bd ((c.keys.drop a.bd.kpos).take (b.bd.kpos - a.bd.kpos)))
      | _, _ => j
  let j := go (bs.length + 1) 0 {}
  (j.errs, j.judged, j.found)

/-! ### C09: '.', 'N.' and '@r' against retyping (two runs of the implementation) -/
def lastBd (res : String) : Option ImplBd :=
  ((parseImpl res).filter (fun r => r.mark == "B" || r.mark == "E")).getLast?

def judge09 (kv : KV) : Verdict :=
  let a := lastBd (kv.get "resA")
  let b := lastBd (kv.get "resB")
  let mac := hexBytes (kv.get "macro")
  -- a '.' inside the macro that is followed by further keys
  let dotInside := (List.range mac.length).any (fun i => mac.getD i 0 == 46 && i + 1 < mac.length)
  match a, b with
  | some a, some b =>
    let d := diffBd 0 { a.bd with kpos := 0, xtop := 0, xleft := 0 } { b.bd with kpos := 0, xtop := 0, xleft := 0 }
    let sf := d.map (fun x => s!"clause=repeat_equals_retyping cause={if dotInside then "dot_inside_macro_queued_after_rest" else "other"} keysA={kv.get "keysA"} keysB={kv.get "keysB"} {(x.take 200).toString} (impl = with . or @, model = retyped)")
    { specfails := sf, nontrivial := a.bd.text != hexBytes (kv.get "file"), tags := if kv.get "macro" != "" then ["macro"] else ["dot"] }
  | _, _ => { bad := some "missing result" }

/-! ### C19: the emulated terminal against a full repaint, the window and the cursor cell -/
def parseRows (s : String) : List (List String) :=
  if s == "" then [] else (s.splitOn ",").map (fun r => if r == "-" then [] else r.splitOn ".")

/-- printable ASCII line (no tabs): its cells are its characters -/
def asciiLine (l : Line) : Bool := l.all (fun c => 32 ≤ c && c < 127)

/-- the logged operations of the screen update routines against the model's (`Model/Screen.lean`) -/
def parseOps (body : String) : List Screen.Op :=
  (body.splitOn ",").filterMap (fun t =>
    if t.startsWith "R" then
      match ((t.drop 1).toString.splitOn ":") with
      | [r, n] => some (Screen.Op.room (intOf r) (intOf n))
      | _ => none
    else if t.startsWith "D" then some (Screen.Op.row (intOf (t.drop 1).toString))
    else none)

def dropNoRoom (l : List Screen.Op) : List Screen.Op :=
  l.filter (fun o => match o with | Screen.Op.room _ n => n != 0 | _ => true)

def showOps (l : List Screen.Op) : String :=
  ",".intercalate (l.map (fun o => match o with | Screen.Op.room r n => s!"R{r}:{n}" | Screen.Op.row k => s!"D{k}"))

/-- every logged call of vi_drawagain / vi_drawupdate / vi_drawfix performs exactly the model's operations -/
def judgeOps (ops : String) (rows : Nat) (xtopNow : Int) : List String × Nat :=
  if ops == "-" || ops == "" then ([], 0) else
  (ops.splitOn ";").foldl (fun (acc : List String × Nat) call =>
    match call.splitOn "[" with
    | [hd, tl] =>
      let body := (tl.splitOn "]").headD ""
      let logged := dropNoRoom (parseOps body)
      let p := hd.splitOn ":"
      let k := p.headD ""
      let a := intOf (p.getD 1 ""); let b := intOf (p.getD 2 ""); let c := intOf (p.getD 3 ""); let d := intOf (p.getD 4 ""); let xt := intOf (p.getD 5 "")
      let model : Option (List Screen.Op) :=
        if k == "A" then some (Screen.drawAgainOps rows xt a)
        else if k == "U" then some (Screen.drawUpdateOps rows a xt)
        else if k == "F" then some (Screen.drawFixOps rows xt a b c (d != 0))
        else none
      let _ := xtopNow
      match model with
      | none => acc
      | some m =>
        let m := dropNoRoom m
        if m == logged then (acc.1, acc.2 + 1)
        else (acc.1 ++ [s!"screen-ops {hd} impl={showOps logged} model={showOps m}"], acc.2 + 1)
    | _ => acc) ([], 0)

def judge19 (c : Case) : List String × Nat :=
  let bs := c.impl.filter (·.mark == "B")
  let xrows := (c.rows - 1).toNat
  let cols := c.cols.toNat
  let rec go : List ImplBd → Nat → List String → Nat → List String × Nat
    | [], _, errs, n => (errs, n)
    | r :: rest, i, errs, n =>
      if r.screen == "-" || r.screen == "" then go rest (i + 1) errs n else
      let a := parseRows r.screen
      let b := parseRows r.repaint
      let buf := bufOf r.bd.text
      let errs := match (List.range (max a.length b.length)).find? (fun k => a.getD k [] != b.getD k []) with
        | some k => errs ++ [s!"clause=screen_equals_full_repaint boundary#{i} row={k} xtop={r.bd.xtop} xleft={r.bd.xleft} shown={".".intercalate (a.getD k [])} repaint={".".intercalate (b.getD k [])}"]
        | none => errs
      -- the window holds the cursor line
      let errs := if buf.isEmpty || (r.bd.xtop ≤ r.bd.xrow && r.bd.xrow < r.bd.xtop + xrows) then errs
        else errs ++ [s!"clause=window_contains_cursor boundary#{i} xrow={r.bd.xrow} xtop={r.bd.xtop} rows={xrows}"]
      -- the repaint itself against the buffer, for printable ASCII lines
      let errs := match (List.range xrows).find? (fun k =>
          let li := r.bd.xtop.toNat + k
          match buf[li]? with
          | some l =>
            if !asciiLine l then false else
            let want := ((l.drop r.bd.xleft.toNat).take cols).map (fun ch => hexOfByte ch)
            let want := (want.reverse.dropWhile (· == "20")).reverse
            b.getD k [] != want
          | none => if buf.isEmpty && k == 0 then false else (li ≥ buf.length && b.getD k [] != (if li == 0 || r.bd.xleft != 0 then [] else ["7e"]))) with
        | some k => errs ++ [s!"clause=rows_show_the_window boundary#{i} row={k} xtop={r.bd.xtop} xleft={r.bd.xleft} repaint={".".intercalate (b.getD k [])}"]
        | none => errs
      -- the terminal cursor is on a cell of the cursor character
      let errs := match buf[r.bd.xrow.toNat]? with
        | some l =>
          if !plainLine l || l.any (fun ch => ch > 127) then errs else
          match r.cursor.splitOn "," with
          | [cr, cc] =>
            let cr := intOf cr; let cc := intOf cc
            let lo : Int := startCol l r.bd.xoff.toNat
            let hi : Int := if l.isEmpty then 1 else startCol l (r.bd.xoff.toNat + 1)
            if cr == r.bd.xrow - r.bd.xtop && lo ≤ cc + r.bd.xleft && cc + r.bd.xleft < max hi (lo + 1) then errs
            else errs ++ [s!"clause=cursor_on_its_character cause={if lo < r.bd.xleft then "sticky_column_keeps_xleft_beyond_the_cursor" else "other"} boundary#{i} cursor={cr},{cc} xrow={r.bd.xrow} xoff={r.bd.xoff} xtop={r.bd.xtop} xleft={r.bd.xleft} cells={lo}..{hi}"]
          | _ => errs
        | none => errs
      let errs := if r.bad == "0" || r.bad == "" then errs else errs ++ [s!"clause=terminal_stream_wellformed boundary#{i} bad={r.bad}"]
      go rest (i + 1) errs (n + 1)
  go bs 0 [] 0

/-- C16: a program of valid UTF-8 keys (without `^V`, which inserts raw bytes) on a valid file leaves valid text at every boundary -/
def judge16 (c : Case) : List String × Nat :=
  let validU8 (s : Bytes) : Bool := Spec.encStr (Spec.decodeStr s.length s) == s
  if !(validU8 (c.file.getD []) && validU8 c.keys && !c.keys.contains 22) then ([], 0) else
  let bs := c.impl.filter (fun r => r.mark == "B" || r.mark == "E")
  match bs.find? (fun r => !validU8 r.bd.text) with
  | some r => ([s!"clause=edits_keep_valid_utf8 kpos={r.bd.kpos} keys={bytesHex (c.keys.take r.bd.kpos)} text={bytesHex r.bd.text}"], bs.length)
  | none => ([], bs.length)

/-- C04 at the vi level: every command that changes the text is one undo step.  A ghost zipper of the texts seen at
    command boundaries judges every plain `u` and `^R`; the implementation alone is judged (options such as `ru`
    are outside the model).  `none` in `past` = the judge lost track below this point (counts, `:` commands that
    change the text, `U`-like keys). -/
def judge04 (c : Case) : List String × Nat :=
  let bs := c.impl.filter (fun r => r.mark == "B" || r.mark == "E" || r.mark == "Q")
  match bs with
  | [] => ([], 0)
  | b0 :: rest =>
    let step (acc : Bd × List (Option Bytes) × List Bytes × List String × Nat) (r : ImplBd) :=
      let (prev, past, fut, errs, n) := acc
      let ks := (c.keys.drop prev.kpos).take (r.bd.kpos - prev.kpos)
      let next := r.bd
      if ks == [117] then
        match past with
        | some t :: ps =>
          let e := if next.text == t then [] else
            [s!"clause=undo_one_step kpos={next.kpos} keys={bytesHex (c.keys.take next.kpos)} want={bytesHex t} got={bytesHex next.text}"]
          (next, ps, prev.text :: fut, errs ++ e, n + 1)
        | none :: _ => (next, [none], [], errs, n)
        | [] =>
          let e := if next.text == prev.text then [] else
            [s!"clause=undo_nothing_to_undo kpos={next.kpos} keys={bytesHex (c.keys.take next.kpos)} text changed"]
          (next, [], fut, errs ++ e, n + 1)
      else if ks == [18] then
        match fut with
        | t :: fs =>
          let e := if next.text == t then [] else
            [s!"clause=redo_one_step kpos={next.kpos} keys={bytesHex (c.keys.take next.kpos)} want={bytesHex t} got={bytesHex next.text}"]
          (next, some prev.text :: past, fs, errs ++ e, n + 1)
        | [] => if next.text == prev.text then (next, past, fut, errs, n) else (next, [none], [], errs, n)
      else if next.text == prev.text then
        -- a motion or a `:` command that left the text alone is no step; any other command may have recorded a
        -- step that changes nothing (`~` on an empty line, `x` on an empty line): the judge loses track
        if ks.contains 58 || ks.all (fun k => [106, 107, 119, 98, 108, 104, 48, 36, 71, 94].contains k || (49 ≤ k && k ≤ 57)) then (next, past, fut, errs, n)
        else (next, [none], [], errs, n)
      else if ks.contains 58 || ks.contains 117 || ks.contains 18 || ks.contains 85 || ks.contains 64 then (next, [none], [], errs, n)
      else (next, some prev.text :: past, [], errs, n)
    let (_, _, _, errs, n) := rest.foldl step (b0.bd, [], [], [], 0)
    (errs, n)

/-- C20 at the vi level: the split-window commands.  One or two windows, each showing a buffer; the judge follows
    which buffer the *other* window shows and what text each buffer had when it was last seen.  `^Ws` `^Wo` `^Wx`
    keep the current buffer, `^Wj` `^Wk` `^Wc` go to the other window's buffer; none of them changes a text.
    Any other command may change the current buffer (`:e`, `:b`) — then the dumped path is taken as the truth. -/
def judge20 (c : Case) : List String × Nat :=
  let bs := c.impl.filter (fun r => r.mark == "B" || r.mark == "E")
  match bs with
  | [] => ([], 0)
  | b0 :: rest =>
    let remember (seen : List (String × Bytes)) (r : ImplBd) := (r.path, r.bd.text) :: seen.filter (·.1 != r.path)
    let step (acc : ImplBd × Option String × List (String × Bytes) × List String × Nat) (r : ImplBd) :=
      let (prev, other, seen, errs, n) := acc
      let ks := (c.keys.drop prev.bd.kpos).take (r.bd.kpos - prev.bd.kpos)
      let here := s!"kpos={r.bd.kpos} keys={bytesHex (c.keys.take r.bd.kpos)}"
      let stay (other' : Option String) :=
        let e := (if r.path == prev.path then [] else [s!"clause=window_command_keeps_buffer {here} was={prev.path} now={r.path}"])
              ++ (if r.path == prev.path && r.bd.text != prev.bd.text then [s!"clause=window_command_keeps_text {here}"] else [])
        (r, other', remember seen r, errs ++ e, n + 1)
      let go_ (other' : Option String) :=
        match other with
        | none => stay other          -- a single window: the command does nothing
        | some o =>
          let e := (if r.path == o then [] else [s!"clause=window_command_reaches_other_window {here} want={o} now={r.path}"])
                ++ (match seen.find? (·.1 == o) with
                    | some (_, t) => if r.path == o && r.bd.text != t then [s!"clause=window_command_keeps_text {here} buffer={o}"] else []
                    | none => [])
          (r, other', remember seen r, errs ++ e, n + 1)
      if ks == [23, 115] then (match other with | none => stay (some prev.path) | some _ => stay other)
      else if ks == [23, 111] then stay none
      else if ks == [23, 120] then stay other
      else if ks == [23, 106] || ks == [23, 107] then go_ (other.map (fun _ => prev.path))
      else if ks == [23, 99] then go_ none
      else if ks.contains 23 then (r, none, remember seen r, errs, n)      -- other ^W forms: lose track of the windows
      else (r, other, remember seen r, errs, n)
    let (_, _, _, errs, n) := rest.foldl step (b0, none, [(b0.path, b0.bd.text)], [], 0)
    (errs, n)

/-- the stream judge: model correspondence plus the property's reference judgement -/
def judge (mode : Nat) (kv : KV) : Verdict :=
  let base := ViD.judge 0 kv
  let c := parseCase kv
  if c.crashed then base else
  let quitErr : List String :=
    if mode != 5 then [] else
    match c.impl.getLast? with
    | some r => if r.mark == "Q" then [] else [s!"clause=reaches_the_quit_it_is_given end={r.mark} kpos={r.bd.kpos} of {c.keys.length}"]
    | none => ["clause=reaches_the_quit_it_is_given no result"]
  let (errs, n, m) := if mode == 5 then (quitErr, 0, 0) else if mode == 7 then (let (e, n) := judge07 c; (e, n, 0)) else if mode == 13 then judge13 c else if mode == 19 then (let (e, n) := judge19 c; (e, n, 0)) else if mode == 16 then (let (e, n) := judge16 c; (e, n, 0)) else if mode == 4 then (let (e, n) := judge04 c; (e, n, 0)) else if mode == 20 then (let (e, n) := judge20 c; (e, n, 0)) else ([], 0, 0)
  -- C19: the screen update routines against Model/Screen.lean (a model-vs-code difference, not a spec failure)
  let (opDiffs, opCalls) : List String × Nat :=
    if mode != 19 then ([], 0) else
    (c.impl.filter (fun r => r.mark == "B" || r.mark == "E")).foldl (fun (acc : List String × Nat) r =>
      let (e, k) := judgeOps r.ops (c.rows - 1).toNat r.bd.xtop
      (acc.1 ++ e, acc.2 + k)) ([], 0)
  -- mode 20: a second file and split windows are outside the vi model; only the reference judges
  { base with diffs := if mode == 20 then [] else base.diffs ++ opDiffs.take 2,
              specfails := (errs.take 3).map (fun s => (s.take 400).toString),
              tags := base.tags ++ (List.replicate n "judged") ++ (List.replicate m "found") ++ (List.replicate opCalls "drawcalls") }

end Neatvi.Drive.ViSpec
