import NeatviVerif.Model.Bytes
/-! Line-protocol helpers for the driver. A line is `stream k=v k=v ...`. -/
namespace Neatvi.Drive

abbrev KV := List (String × String)

def parseLine (line : String) : String × KV :=
  match (line.trimAscii.toString.splitOn " ").filter (· ≠ "") with
  | [] => ("", [])
  | s :: rest =>
    (s, rest.map fun t =>
      match t.splitOn "=" with
      | [k] => (k, "")
      | k :: v => (k, "=".intercalate v)
      | [] => ("", ""))

def KV.get (kv : KV) (k : String) : String := (kv.lookup k).getD ""
def KV.has (kv : KV) (k : String) : Bool := (kv.lookup k).isSome

def hexDigit (c : Char) : Option Nat :=
  if '0' ≤ c ∧ c ≤ '9' then some (c.toNat - 48)
  else if 'a' ≤ c ∧ c ≤ 'f' then some (c.toNat - 87)
  else if 'A' ≤ c ∧ c ≤ 'F' then some (c.toNat - 55)
  else none

def hexNat (s : String) : Option Nat :=
  if s.isEmpty then none else
  s.toList.foldl (fun acc c => do let a ← acc; let d ← hexDigit c; some (a * 16 + d)) (some 0)

/-- hex string to bytes (`-` or empty = empty) -/
def hexBytes (s : String) : Bytes :=
  let rec go : List Char → List Nat
    | a :: b :: r => (match hexDigit a, hexDigit b with
        | some x, some y => x * 16 + y
        | _, _ => 0) :: go r
    | _ => []
  if s == "-" then [] else go s.toList

def hexOfByte (b : Nat) : String :=
  let d (n : Nat) : Char := if n < 10 then Char.ofNat (48 + n) else Char.ofNat (87 + n)
  String.ofList [d (b / 16 % 16), d (b % 16)]

def bytesHex (bs : Bytes) : String :=
  if bs.isEmpty then "-" else String.join (bs.map hexOfByte)

def intOf (s : String) : Int := s.toInt?.getD (-999999)
def natOf (s : String) : Nat := s.toNat?.getD 999999

def natList (s : String) : List Nat :=
  if s == "-" || s == "" then [] else (s.splitOn ",").map natOf
def intList (s : String) : List Int :=
  if s == "-" || s == "" then [] else (s.splitOn ",").map intOf
def hexList (s : String) : List Nat :=
  if s == "-" || s == "" then [] else (s.splitOn ",").map (fun x => (hexNat x).getD 999999)

def showNats (l : List Nat) : String := if l.isEmpty then "-" else ",".intercalate (l.map toString)
def showInts (l : List Int) : String := if l.isEmpty then "-" else ",".intercalate (l.map toString)
def showOptNat : Option Nat → String
  | some n => toString n
  | none => "trap"
def b2s (b : Bool) : String := if b then "1" else "0"

/-- verdict accumulator -/
structure Acc where
  cases : Nat := 0
  diff : Nat := 0
  specfail : Nat := 0
  nontrivial : Nat := 0
  badcase : Nat := 0
  printed : Nat := 0
  extra : List (String × Nat) := []

def Acc.bump (a : Acc) (k : String) (n : Nat := 1) : Acc :=
  match a.extra.lookup k with
  | some v => { a with extra := (k, v + n) :: a.extra.filter (·.1 ≠ k) }
  | none => { a with extra := (k, n) :: a.extra }

/-- result of judging one case -/
structure Verdict where
  diffs : List String := []       -- "field impl=.. model=.."
  specfails : List String := []   -- "clause=.. detail"
  nontrivial : Bool := false
  bad : Option String := none
  tags : List String := []

def cmp (field impl model : String) : List String :=
  if impl == model then [] else [s!"{field} impl={impl} model={model}"]

end Neatvi.Drive
