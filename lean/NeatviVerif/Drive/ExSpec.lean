import NeatviVerif.Drive.Ex
import NeatviVerif.Spec.RegexSem
import NeatviVerif.Spec.Zipper
import NeatviVerif.Spec.Layout
/-!
# Reference judgements of the ex-level properties on the implementation's dumped states

Each judge looks at consecutive dumped states (before / after a command) of the *implementation*
and evaluates the property's reference semantics, written here independently of `Model/Ex*.lean`.
-/
namespace Neatvi.Drive.ExSpec
open Neatvi Neatvi.Drive Neatvi.Spec

structure BufInfo where
  slot : Nat
  id : Int
  path : Bytes
  dirty : Bool
  row : Int
  len : Int
  mtime : Int
  histU : Nat
  histN : Nat
  text : Bytes
deriving Repr

structure Step where
  rc : Int
  xrow : Int
  xoff : Int
  quit : Bool
  len : Int
  text : Bytes
  out : Bytes
  msg : Bytes
  bufs : List BufInfo
  regs : List (Nat × Nat × Bytes)
  files : List (String × Option Bytes)
  marks : List Int
  kwd : Bytes
  kwdDir : Int
  fired : Nat
deriving Repr

def parseBuf (s : String) : Option BufInfo :=
  match s.splitOn ":" with
  | [slot, id, path, dirty, row, len, mtime, hist, text] =>
    let h := hist.splitOn "."
    some { slot := natOf slot, id := intOf id, path := hexBytes path, dirty := dirty == "1", row := intOf row,
           len := intOf len, mtime := intOf mtime, histU := natOf (h.getD 0 "0"), histN := natOf (h.getD 1 "0"), text := hexBytes text }
  | _ => none

def parseStep (s : String) : Option Step :=
  match s.splitOn "|" with
  | [rc, xrow, xoff, quit, len, text, out, msg, bufs, regs, files, marks, kwd, fired] =>
    some { rc := intOf rc, xrow := intOf xrow, xoff := intOf xoff, quit := quit == "1", len := intOf len,
           text := hexBytes text, out := hexBytes out, msg := hexBytes msg,
           bufs := if bufs == "" then [] else (bufs.splitOn ",").filterMap parseBuf,
           regs := if regs == "" then [] else (regs.splitOn ",").filterMap (fun r => match r.splitOn "=" with
             | [c, l, d] => some (natOf c, natOf l, hexBytes d) | _ => none),
           files := if files == "" then [] else (files.splitOn ",").filterMap (fun f => match f.splitOn "=" with
             | [n, d] => some (n, if d == "A" then none else some (hexBytes d)) | _ => none),
           marks := if marks == "" then [] else (marks.splitOn ".").map intOf,
           kwd := hexBytes ((kwd.splitOn ".").getD 0 "-"), kwdDir := intOf ((kwd.splitOn ".").getD 1 "0"), fired := natOf fired }
  | _ => none

def str (b : Bytes) : String := String.ofList (b.map (fun c => Char.ofNat c))
def byt (s : String) : Bytes := Ex.strOf s

/-- split a buffer text into its lines (each with its newline) -/
def linesOf (t : Bytes) : List Bytes := refLines t

/-! ### reference regular-expression matching on a whole line -/

/-- compile a pattern for the reference (the tree the engine builds for `((pat))`) -/
def refTree (pat : Bytes) : Option Regex.RNode :=
  match Regex.parse ([40, 40] ++ pat ++ [41, 41]) with
  | some (some t) => some (Regex.grpnum t 1).1
  | _ => none

def refFlags (icase notbol : Bool) : Nat :=
  Regex.REG_NEWLINE ||| 1 ||| (if icase then Regex.REG_ICASE else 0) ||| (if notbol then Regex.REG_NOTBOL else 0)

/-- first match of `t` in the whole line starting at byte offset `from_` or later: (so, eo, marks) -/
def matchFrom (t : Regex.RNode) (line : Bytes) (icase : Bool) (from_ : Nat) : Option (Nat × Nat × Regex.Marks) :=
  let env : RegexSem.Env := ⟨line, refFlags icase false⟩
  ((RegexSem.starts line (line.length + 2) 0).filter (· ≥ from_)).findSome? (fun i =>
    match RegexSem.results env t (i, List.replicate 128 (-1)) with
    | [] => none
    | r :: _ => some (i, r.1, r.2))

/-- the same question put to the *suffix* of the line from `from_` on, told only "not at the beginning of the line"
    (what `ec_substitute` does from the second round on): `\<`, `\>` do not see the character before the suffix -/
def matchFromSuffix (t : Regex.RNode) (line : Bytes) (icase : Bool) (from_ : Nat) : Option (Nat × Nat × Regex.Marks) :=
  let suf := line.drop from_
  let env : RegexSem.Env := ⟨suf, refFlags icase (from_ > 0)⟩
  (RegexSem.starts suf (suf.length + 2) 0).findSome? (fun i =>
    match RegexSem.results env t (i, List.replicate 128 (-1)) with
    | [] => none
    | r :: _ => some (i + from_, r.1 + from_, r.2.map (fun m => if m ≥ 0 then m + (from_ : Int) else m)))

def lineMatches (pat : Bytes) (line : Bytes) (icase : Bool) : Option Bool :=
  (refTree pat).map (fun t => (matchFrom t line icase 0).isSome)

/-! ### reference addresses (C06) -/

structure RefSt where
  lines : List (Nat × Bytes)        -- (identity, text with newline)
  marks : List (Nat × Nat) := []    -- mark name → line identity
  nextId : Nat := 0
  kwd : Bytes := []
  kwdDir : Int := 0
deriving Repr

def RefSt.ofText (t : Bytes) (from_ : Nat := 0) : RefSt :=
  let ls := linesOf t
  { lines := (List.range ls.length).map (fun i => (from_ + i, ls.getD i [])), nextId := from_ + ls.length }

def RefSt.text (s : RefSt) : Bytes := (s.lines.map (·.2)).flatten
def RefSt.n (s : RefSt) : Int := s.lines.length

/-- restart the reference from a dumped state of the implementation: text, marks and the search keyword -/
def RefSt.resync (s : RefSt) (st : Step) : RefSt :=
  let r := RefSt.ofText st.text s.nextId
  { r with kwd := st.kwd, kwdDir := st.kwdDir,
           marks := (List.range st.marks.length).filterMap (fun i =>
             let v := st.marks.getD i (-1)
             if v ≥ 0 && i < 26 then some (97 + i, s.nextId + v.toNat) else none) }

def idxOfId (s : RefSt) (id : Nat) : Option Nat := (List.range s.lines.length).find? (fun i => (s.lines.getD i (0, [])).1 == id)

/-- parse a decimal number prefix -/
def takeNum (s : Bytes) : Option (Nat × Bytes) :=
  let d := s.takeWhile Ex.isDigitC
  if d.isEmpty then none else some (d.foldl (fun a c => a * 10 + (c - 48)) 0, s.drop d.length)

/-- one address: result index (−1 = line zero), `none` = does not resolve.  Returns the rest of the text. -/
def refAddr (s : RefSt) (cur : Int) (icase : Bool) (a : Bytes) : Option (Option Int × Bytes × RefSt) :=
  let c := a.headD 0
  let base : Option (Option Int × Bytes × RefSt) :=
    if c == 46 then some (some cur, a.drop 1, s)
    else if c == 36 then some (some (s.n - 1), a.drop 1, s)
    else if c == 39 then
      let m := a.getD 1 0
      -- a mark whose own line was replaced or deleted is outside the judged grammar: the property speaks of
      -- marks while lines are added or removed *elsewhere*
      match s.marks.find? (·.1 == m) with
      | none => some (none, a.drop 2, s)
      | some p =>
        match idxOfId s p.2 with
        | none => none
        | some i => some (some (i : Int), a.drop 2, s)
    else if c == 47 || c == 63 then
      -- pattern up to the unescaped delimiter
      let body := a.drop 1
      let rec cut : Nat → Bytes → Bytes → Bytes × Bytes
        | 0, s, acc => (acc, s)
        | f + 1, s, acc =>
          match s with
          | [] => (acc, [])
          | x :: r => if x == c then (acc, r) else if x == 92 && !r.isEmpty then
              (if r.headD 0 == c then cut f (r.drop 1) (acc ++ [c]) else cut f (r.drop 1) (acc ++ [92, r.headD 0]))
            else cut f r (acc ++ [x])
      let (pat, rest) := cut (body.length + 1) body []
      let s := if pat.isEmpty then s else { s with kwd := pat, kwdDir := if c == 47 then 1 else -1 }
      if s.kwdDir == 0 then some (none, rest, s) else
      let dir := s.kwdDir
      let rec scan : Nat → Int → Option Int
        | 0, _ => none
        | f + 1, row =>
          if row < 0 || row ≥ s.n then none else
          match lineMatches s.kwd ((s.lines.getD row.toNat (0, [])).2) icase with
          | some true => some row
          | _ => scan f (row + dir)
      some (scan (s.lines.length + 1) (cur + dir), rest, s)
    else match takeNum a with
      | some (n, rest) => some (some ((n : Int) - 1), rest, s)
      | none => some (some cur, a, s)
  match base with
  | none => none
  | some (v, rest, s) =>
    -- offsets ±n (a bare sign is not part of the judged grammar)
    let rec offs : Nat → Option Int → Bytes → Option (Option Int × Bytes)
      | 0, v, r => some (v, r)
      | f + 1, v, r =>
        if r.headD 0 == 43 || r.headD 0 == 45 then
          match takeNum (r.drop 1) with
          | none => none
          | some (k, r') => offs f (v.map (fun x => if r.headD 0 == 43 then x + k else x - k)) r'
        else some (v, r)
    match offs (rest.length + 1) v rest with
    | none => none
    | some (v, rest) => some (v, rest, s)

/-- a region: `(first, last)` indices (last = −1 for line zero), `some none` = does not resolve,
    `none` = outside the judged grammar.  `given` = number of addresses written. -/
def refRegion (s : RefSt) (cur : Int) (icase : Bool) (loc : Bytes) : Option (Option (Int × Int) × Nat × RefSt) :=
  if loc == [37] then some (some (0, s.n - 1), 2, s)
  else if loc.isEmpty then some (some (cur, cur), 0, s)
  else
    let rec go : Nat → RefSt → Int → Bytes → Option Int → Option Int → Nat → Bool → Option (Option (Int × Int) × Nat × RefSt)
      | 0, _, _, _, _, _, _, _ => none
      | f + 1, s, cur, loc, prev, _, cnt, bad =>
        match refAddr s cur icase loc with
        | none => none
        | some (v, rest, s) =>
          let bad := bad || v.isNone || (match v with | some x => x < -1 | none => false)
          let first := if cnt == 0 then v else prev
          let cnt := cnt + 1
          if rest.isEmpty then
            some (if bad then none else (match first, v with | some a, some b => some (a, b) | _, _ => none), cnt, s)
          else if rest.headD 0 == 44 then
            if (rest.drop 1).isEmpty then some (if bad then none else (match first, v with | some a, some b => some (a, b) | _, _ => none), cnt, s)
            else go f s cur (rest.drop 1) v v cnt bad
          else if rest.headD 0 == 59 then
            if (rest.drop 1).isEmpty then some (if bad then none else (match first, v with | some a, some b => some (a, b) | _, _ => none), cnt, s)
            else go f s (v.getD cur) (rest.drop 1) v v cnt bad
          else none
    go (loc.length + 2) s cur loc none none 0 false

/-- does the region designate existing lines? -/
def validRegion (s : RefSt) (r : Int × Int) : Bool := 0 ≤ r.1 && r.1 ≤ r.2 && r.2 < s.n

def spliceSt (s : RefSt) (b : Nat) (ndel : Nat) (new : List Bytes) : RefSt :=
  let fresh := (List.range new.length).map (fun i => (s.nextId + i, new.getD i []))
  { s with lines := s.lines.take b ++ fresh ++ s.lines.drop (b + ndel), nextId := s.nextId + new.length }

/-- split a command line of the judged grammar: (loc, cmd, arg) -/
def splitCmd (ln : Bytes) : Bytes × Bytes × Bytes :=
  let (loc, rest) := Ex.exLoc ln
  let (cmd, rest) := Ex.exCmd rest
  let abbr := match Ex.exIdx cmd with | some (a, _) => a | none => byt "unknown"
  let (arg, _) := Ex.exArg rest abbr
  (loc, cmd, arg)

/-- does the line hold exactly one command? -/
def isSingle (ln : Bytes) : Bool :=
  let (_, rest) := Ex.exLoc ln
  let (cmd, rest) := Ex.exCmd rest
  let abbr := match Ex.exIdx cmd with | some (a, _) => a | none => byt "unknown"
  let (_, rest) := Ex.exArg rest abbr
  rest.isEmpty

/-- registers as the implementation dumps them -/
def regOf (st : Step) (c : Nat) : Option Bytes :=
  let c := if c == 34 then 0 else c
  (st.regs.find? (·.1 == c)).map (·.2.2)

/-! ### C06: one command of the line-editor grammar -/
structure J06 where
  st : RefSt
  errs : List String := []

def lineCmds : List String := ["a", "i", "c", "d", "y", "pu", "p", "=", "k", ""]

def judge06Step (j : J06) (prev next : Step) (ln : Bytes) (txt : Bytes) (icase : Bool) : J06 :=
  let resync : J06 := { j with st := (j.st.resync next) }
  if !isSingle ln then resync else
  let (loc, cmd, arg) := splitCmd ln
  let cs := str cmd
  if !lineCmds.contains cs then resync else
  -- the reference must start from the text the implementation had
  let s := if j.st.text == prev.text then j.st else (j.st.resync prev)
  match refRegion s prev.xrow icase loc with
  | none => { j with st := (s.resync next) }
  | some (reg, given, s) =>
    if given == 0 && !(0 ≤ prev.xrow && prev.xrow < s.n) && s.n != 0 then
      { j with st := (s.resync next) } else
    let new := linesOf txt
    let regName := Ex.regName arg
    let addsText := cs == "a" || cs == "pu"
    -- expected new state, or `none` when the command must be rejected
    let exp : Option (Option RefSt) :=      -- outer none = not judged
      match reg with
      | none => some none
      | some (b, e) =>
        if cs == "a" then
          (if given ≥ 2 then none else
           if e == -1 && b == -1 then some (some (spliceSt s 0 0 new))
           else if validRegion s (b, e) then some (some (spliceSt s (e.toNat + 1) 0 new)) else
           if s.n == 0 && given == 0 then some (some (spliceSt s 0 0 new)) else some none)
        else if cs == "i" then
          (if given ≥ 2 then none else
           if validRegion s (b, e) then some (some (spliceSt s b.toNat 0 new)) else
           if s.n == 0 && given == 0 then some (some (spliceSt s 0 0 new)) else if e == -1 then none else some none)
        else if cs == "c" then
          (if validRegion s (b, e) then some (some (spliceSt s b.toNat (e - b + 1).toNat new)) else
           if s.n == 0 && given == 0 then some (some (spliceSt s 0 0 new)) else if e == -1 then none else some none)
        else if cs == "d" then
          (if validRegion s (b, e) then some (some (spliceSt s b.toNat (e - b + 1).toNat [])) else some none)
        else if cs == "pu" then
          (match regOf prev regName with
           | none => some none
           | some r =>
             if given ≥ 2 then none else
             if e == -1 && b == -1 then some (some (spliceSt s 0 0 (linesOf r)))
             else if validRegion s (b, e) then some (some (spliceSt s (e.toNat + 1) 0 (linesOf r))) else
             if s.n == 0 && given == 0 then none else some none)
        else if cs == "k" then
          (if given ≥ 2 then none else
           if validRegion s (b, e) then
            some (some { s with marks := (arg.headD 0, (s.lines.getD e.toNat (0, [])).1) :: s.marks.filter (·.1 != arg.headD 0) })
           else some (some s))
        else some (some s)     -- y p = and the bare address never change the text
  match exp with
  | none => { j with st := (s.resync next) }
  | some none =>
    let errs := if next.text == prev.text then [] else
      [s!"clause=invalid_region_unchanged cmd={str ln} the address does not resolve to existing lines but the buffer changed"]
    { st := (s.resync next), errs := j.errs ++ errs }
  | some (some s') =>
    let e1 := if next.text == s'.text then [] else
      [s!"clause=ec_{if cs == "" then "null" else cs}_spec cmd={str ln} want={bytesHex s'.text} got={bytesHex next.text}" ++
        (if addsText && (match reg with | some (_, e) => e == -1 | none => false) then " (address 0 = before the first line)" else "")]
    -- printed lines
    let e2 := match reg with
      | some (b, e) =>
        if cs == "p" && validRegion s (b, e) then
          let want := ((s.lines.drop b.toNat).take (e - b + 1).toNat).map (·.2) |>.flatten
          if next.out == want then [] else [s!"clause=ec_p_spec cmd={str ln} want_out={bytesHex want} got_out={bytesHex next.out}"]
        else if cs == "=" && given ≥ 1 && validRegion s (b, e) then
          let want := byt (toString (e + 1)) ++ [10]
          if next.out == want then [] else [s!"clause=ec_lnum_spec cmd={str ln} want_out={bytesHex want} got_out={bytesHex next.out}"]
        else if (cs == "d" || cs == "y") && validRegion s (b, e) then
          let want := ((s.lines.drop b.toNat).take (e - b + 1).toNat).map (·.2) |>.flatten
          let lower := Ex.lowerC regName
          let got := regOf next lower
          let pre := if Ex.isUpperC regName then (regOf prev lower).getD [] else []
          if got == some (pre ++ want) then [] else [s!"clause=ec_{cs}_register cmd={str ln} want={bytesHex (pre ++ want)} got={bytesHex (got.getD [])}"]
        else []
      | none => []
    -- marks keep designating the same line
    let e3 := if e1.isEmpty then
        s'.marks.filterMap (fun (m, id) =>
          if 97 ≤ m && m ≤ 122 then
            match idxOfId s' id with
            | some i => if next.marks.getD (m - 97) (-9) == (i : Int) then none else
                some s!"clause=mark_stable cmd={str ln} mark={Char.ofNat m} want_line={i} got={next.marks.getD (m - 97) (-9)}"
            | none => none
          else none)
      else []
    { st := if e1.isEmpty then s' else (s'.resync next),
      errs := j.errs ++ e1 ++ e2 ++ e3.take 1 }

/-! ### C16: edits keep the text valid UTF-8 -/

/-- is a byte string valid UTF-8 (re-encoding its reference decoding gives it back)? -/
def validU8 (s : Bytes) : Bool := Neatvi.Spec.encStr (Neatvi.Spec.decodeStr s.length s) == s

/-- a command whose own text is valid UTF-8, run on a valid buffer with valid registers and files, leaves a valid buffer -/
def judge16Step (prev next : Step) (ln txt : Bytes) : List String :=
  if validU8 prev.text && validU8 ln && validU8 txt && prev.regs.all (fun r => validU8 r.2.2) &&
     prev.files.all (fun f => match f.2 with | some d => validU8 d | none => true) &&
     prev.bufs.all (fun b => validU8 b.text) && !validU8 next.text then
    [s!"clause=edits_keep_valid_utf8 cmd={str ln} before={bytesHex prev.text} after={bytesHex next.text}"]
  else []

/-! ### C14: substitute -/

/-- expand the replacement for one match -/
def expandRep (rep line : Bytes) (marks : Regex.Marks) : Bytes :=
  let rec go : Nat → Bytes → Bytes → Bytes
    | 0, _, acc => acc
    | f + 1, rep, acc =>
      match rep with
      | [] => acc
      | c :: r =>
        if c == 92 && !r.isEmpty then
          let d := r.headD 0
          if 48 ≤ d && d ≤ 57 then
            -- the pattern's group k is the tree's group k + 2
            let g := d - 48 + 2
            let so := marks.getD (2 * g) (-1); let eo := marks.getD (2 * g + 1) (-1)
            let t := if so ≥ 0 && eo ≥ so then (line.drop so.toNat).take (eo - so).toNat else []
            go f (r.drop 1) (acc ++ t)
          else go f (r.drop 1) (acc ++ [d])
        else go f r (acc ++ [c])
  go (rep.length + 1) rep []

/-- the reference scan of one line -/
def substRef (t : Regex.RNode) (rep : Bytes) (g icase : Bool) (line : Bytes) (suffix : Bool := false) : Bytes :=
  let rec go : Nat → Nat → Bytes → Bool → Bytes
    | 0, pos, acc, _ => acc ++ line.drop pos
    | f + 1, pos, acc, any =>
      match (if suffix then matchFromSuffix t line icase pos else matchFrom t line icase pos) with
      | none => acc ++ line.drop pos
      | some (so, eo, marks) =>
        let acc := acc ++ (line.drop pos).take (so - pos) ++ expandRep rep line marks
        -- after an empty match one *character* is copied
        let (acc, pos') := if eo == so then
            let l := max 1 (Regex.rxLen line eo)
            (acc ++ (line.drop eo).take l, eo + l)
          else (acc, eo)
        if !g || pos' ≥ line.length || line.getD pos' 0 == 10 then acc ++ line.drop pos' else go f pos' acc true
  go (line.length + 2) 0 [] false

/-- read `/pat/rep/flags` with any delimiter -/
def parseSubst (arg : Bytes) : Option (Bytes × Bytes × Bytes) :=
  match arg with
  | [] => none
  | d :: r =>
    let rec cut : Nat → Bytes → Bytes → Bool → Bytes × Bytes
      | 0, s, acc, _ => (acc, s)
      | f + 1, s, acc, isPat =>
        match s with
        | [] => (acc, [])
        | x :: r2 => if x == d then (acc, r2) else if x == 92 && !r2.isEmpty then
            (if r2.headD 0 == d then cut f (r2.drop 1) (acc ++ [d]) isPat else cut f (r2.drop 1) (acc ++ [92, r2.headD 0]) isPat)
          else cut f r2 (acc ++ [x]) isPat
    let (pat, r1) := cut (r.length + 1) r [] true
    let (rep, r2) := cut (r1.length + 1) r1 [] false
    some (pat, rep, r2)

def judge14Step (prev next : Step) (ln : Bytes) (icase : Bool) (_lastPat : Bytes) : List String × Bytes :=
  -- the pattern an empty pattern stands for is the editor's last search keyword (dumped by the probe)
  let lastPat := prev.kwd
  if !isSingle ln then ([], lastPat) else
  let (loc, cmd, arg) := splitCmd ln
  if str cmd != "s" then ([], lastPat) else
  match parseSubst arg with
  | none => ([], lastPat)
  | some (pat, rep, flags) =>
    let pat' := if pat.isEmpty then lastPat else pat
    let s := RefSt.ofText prev.text
    match refRegion s prev.xrow icase loc, refTree pat' with
    | some (some (b, e), _, _), some t =>
      -- a pattern that matches the line's own newline: the line buffer re-terminates what is left; not judged
      if !validRegion s (b, e) || pat'.isEmpty || pat'.contains 10 then ([], pat') else
      let g := flags.contains 103
      let ls := linesOf prev.text
      let want := ((List.range ls.length).map (fun i =>
        let l := ls.getD i []
        if b ≤ (i : Int) && (i : Int) ≤ e then substRef t rep g icase l else l)).flatten
      let wantSuffix := ((List.range ls.length).map (fun i =>
        let l := ls.getD i []
        if b ≤ (i : Int) && (i : Int) ≤ e then substRef t rep g icase l true else l)).flatten
      let errs :=
        (if next.text == want then [] else [s!"clause=subst_line_spec cause={if next.text == wantSuffix then "match_judged_on_suffix" else "other"} cmd={str ln} line={bytesHex prev.text} want={bytesHex want} got={bytesHex next.text}"])
        ++ (if Drive.hexNat "0" == none then [] else [])
      (errs, pat')
    | _, _ => ([], pat')

/-! ### C02 / C20: per-buffer ghost records -/
structure Ghost where
  id : Int
  disk : Option Bytes      -- content the file had when last read / written by the editor
  text : Bytes
  row : Int
  dirty : Bool
  histU : Nat
  histN : Nat
  savedAt : Option Nat      -- history position at the last save / load
deriving Repr

def cmdName (ln : Bytes) : String := let (_, cmd, _) := splitCmd ln; str cmd
def cmdArg (ln : Bytes) : Bytes := let (_, _, a) := splitCmd ln; a
def cmdLoc (ln : Bytes) : Bytes := let (l, _, _) := splitCmd ln; l

end Neatvi.Drive.ExSpec
