import NeatviVerif.Drive.Common
import NeatviVerif.Model.LbufIo
import NeatviVerif.Spec.Zipper
namespace Neatvi.Drive.LbufD
open Neatvi Neatvi.Lbuf Neatvi.LbufIo Neatvi.Spec Neatvi.Drive

inductive Op where
  | edit (b e : Nat) (s : Option Bytes)
  | undo | redo | bump | query
  | saved (clear : Bool)
  | mark (c : Nat) (pos off : Int)
  | jump (c : Nat)
  | gset (pos dep : Nat)
  | gget (pos dep : Nat)
  | bad
deriving Repr

def parseOp (s : String) : Op :=
  match s.splitOn ":" with
  | ["e", b, e, h] => .edit (natOf b) (natOf e) (if h == "N" then none else some (hexBytes h))
  | ["u"] => .undo
  | ["r"] => .redo
  | ["b"] => .bump
  | ["q"] => .query
  | ["s0"] => .saved false
  | ["s1"] => .saved true
  | ["m", c, p, o] => .mark (natOf c) (intOf p) (intOf o)
  | ["j", c] => .jump (natOf c)
  | ["g", p, d] => .gset (natOf p) (natOf d)
  | ["G", p, d] => .gget (natOf p) (natOf d)
  | _ => .bad

def showState (lb : Lb) (rc : Int) : String :=
  let marks := ".".intercalate (lb.mark.map toString)
  let offs := ".".intercalate ((lb.mark.zip lb.markOff).map (fun (m, o) => if m ≥ 0 then toString o else "0"))
  s!"{rc}:{lb.lines.length}:{bytesHex lb.lines.flatten}:{marks}:{offs}:{lb.histU}.{lb.hist.length}"

/-- apply one op to the model: (rc, lb) or trap -/
def stepModel (lb : Lb) : Op → Option (Int × Lb)
  | .edit b e s => (edit lb s b e).map (fun l => (0, l))
  | .undo => (undo lb).map (fun (rc, l) => ((rc : Int), l))
  | .redo => (redo lb).map (fun (rc, l) => ((rc : Int), l))
  | .bump | .query => let (m, l) := modified lb; some (if m then 1 else 0, l)
  | .saved c => let l := savedCore lb c; some (0, (modified l).2)   -- xb = lb in the probe
  | .mark c p o => some (0, setMark lb c p o)
  | .jump c => some (match jump lb c with | some (p, o) => p * 1000 + o | none => -1, lb)
  | .gset p d => some (0, if p < lb.lines.length then globSet lb p d else lb)
  | .gget p d => if p < lb.lines.length then let (r, l) := globGet lb p d; some (if r then 1 else 0, l) else some (-1, lb)
  | .bad => none

/-- text of an impl result field `rc:len:hex:...` -/
def resText (r : String) : Option (Int × Bytes) :=
  match r.splitOn ":" with
  | rc :: _ :: hex :: _ => some (intOf rc, hexBytes hex)
  | _ => none

/-- mode 4: C04 clauses (zipper); mode 2: C02 clauses at the lbuf level (clean_sound) -/
def judgeLops (mode : Nat) (kv : KV) : Verdict :=
  let ops := ((kv.get "ops").splitOn ";").map parseOp
  let impl := (kv.get "res").splitOn "/"
  -- model run
  let (mres, _, trapped) := ops.foldl (fun (acc : List String × Lb × Bool) op =>
    let (out, lb, tr) := acc
    if tr then (out ++ ["trap"], lb, true) else
    match stepModel lb op with
    | some (rc, lb') => (out ++ [showState lb' rc], lb', false)
    | none => (out ++ ["trap"], lb, true)) ([], Lbuf.make, false)
  let d := if mres == impl then [] else
    match ((List.range mres.length).find? (fun i => mres.getD i "" != impl.getD i "")) with
    | some i => [s!"op#{i} impl={impl.getD i ""} model={mres.getD i ""}"]
    | none => [s!"length impl={impl.length} model={mres.length}"]
  -- spec run on the implementation's texts
  let step (acc : Zipper × Bytes × Bool × List String × Bool) (x : Op × String) :=
    let (z, disk, haveDisk, errs, wf) := acc
    let (op, r) := x
    match resText r with
    | none => (z, disk, haveDisk, errs ++ ["clause=protocol"], wf)
    | some (rc, txt) =>
      match op with
      | .edit b e s =>
        let n := z.present.length
        let b' := min b n; let e' := min e n
        if b' == e' && s.isNone then (z, disk, haveDisk, errs, wf) else
        let ins := match s with | some x => refLines x | none => []
        let z' := z.edit (fun t => splice t b' (e' - b') ins)
        let errs := if z'.present.flatten == txt then errs else errs ++ [s!"clause=edit_spec want={bytesHex z'.present.flatten} got={bytesHex txt}"]
        (z', disk, haveDisk, errs, wf)
      | .bump => (z.commit, disk, haveDisk, errs, wf)
      | .query =>
        let errs := if mode == 2 && rc == 0 && haveDisk && txt != disk then errs ++ [s!"clause=clean_sound text={bytesHex txt} disk={bytesHex disk}"] else errs
        (z.commit, disk, haveDisk, errs, wf)
      | .saved _ => (z.commit, txt, true, errs, wf)
      | .undo =>
        if z.open_ then (z, disk, haveDisk, errs, false) else
        (match z.undo with
        | none =>
          let errs := if rc == 1 && txt == z.present.flatten then errs else errs ++ [s!"clause=undo_at_bottom rc={rc} got={bytesHex txt}"]
          (z, disk, haveDisk, errs, wf)
        | some z' =>
          let errs := if rc == 0 && txt == z'.present.flatten then errs else errs ++ [s!"clause=undo_exact rc={rc} want={bytesHex z'.present.flatten} got={bytesHex txt}"]
          (z', disk, haveDisk, errs, wf))
      | .redo =>
        if z.open_ then (z, disk, haveDisk, errs, false) else
        (match z.redo with
        | none =>
          let errs := if rc == 1 && txt == z.present.flatten then errs else errs ++ [s!"clause=redo_at_top rc={rc} got={bytesHex txt}"]
          (z, disk, haveDisk, errs, wf)
        | some z' =>
          let errs := if rc == 0 && txt == z'.present.flatten then errs else errs ++ [s!"clause=redo_exact rc={rc} want={bytesHex z'.present.flatten} got={bytesHex txt}"]
          (z', disk, haveDisk, errs, wf))
      | _ => (z, disk, haveDisk, errs, wf)
  let (_, _, _, errs, wf) := (ops.zip impl).foldl step (({} : Zipper), [], false, [], true)
  -- `saved(clear)` drops the history: the zipper reference only applies to histories without s1 in the middle
  let hasClear := ops.any (fun o => match o with | .saved true => true | _ => false)
  let sf := if trapped then [] else if !wf then [] else
    if mode == 4 then (if hasClear then [] else errs.filter (fun e => !e.startsWith "clause=clean_sound"))
    else errs.filter (fun e => e.startsWith "clause=clean_sound")
  let nUndo := ops.filter (fun o => match o with | .undo | .redo => true | _ => false) |>.length
  { diffs := d, specfails := sf.take 2, nontrivial := nUndo ≥ 1 && ops.length ≥ 4,
    tags := (if wf then ["wellformed"] else ["raw"]) ++ (if trapped then ["modeltrap"] else []) }

def parseSched (s : String) : List WOut :=
  if s == "-" || s == "" then [] else (s.splitOn ",").map (fun t => if t.startsWith "e" then WOut.err else WOut.cnt (natOf t))

def splitBy (s : Bytes) : List Nat → List Bytes
  | [] => if s.isEmpty then [] else [s]
  | k :: r => if s.isEmpty then [] else s.take k :: splitBy (s.drop k) r

/-- mode 1: C01 clauses; mode 3: C03 clauses at the lbuf level -/
def judgeRdwr (mode : Nat) (kv : KV) : Verdict :=
  let file := hexBytes (kv.get "file")
  let served := natList (kv.get "served")
  let chunks := splitBy file served
  let rderr := kv.get "rderr" == "1"
  let sched := parseSched (kv.get "sched")
  let old := if kv.get "old" == "A" then [] else hexBytes (kv.get "old")
  let wbeg := natOf (kv.get "wbeg"); let wend := natOf (kv.get "wend")
  match rd Lbuf.make chunks rderr 0 0 with
  | none => { diffs := ["model trap in rd"] }
  | some (rdrc, lb) =>
    let fuel := file.length + 8
    let w := wr lb.lines wbeg wend Gen.WR_BATCH fuel sched
    let (mwrrc, mout) := match w with
      | some (rc, out, tr) => (toString rc, bytesHex (fileAfter old out tr))
      | none => ("trap", "trap")
    let d := cmp "rdrc" (kv.get "rdrc") (toString rdrc)
      ++ cmp "len" (kv.get "len") (toString lb.lines.length)
      ++ cmp "text" (kv.get "text") (bytesHex lb.lines.flatten)
      ++ cmp "wrrc" (kv.get "wrrc") mwrrc
      ++ cmp "out" (kv.get "out") mout
    -- spec
    let iText := hexBytes (kv.get "text")
    let iOut := hexBytes (kv.get "out")
    let nulFree := !file.contains 0
    let wantText := file ++ (if !file.isEmpty && file.getLast? != some 10 then [10] else [])
    let iLines := refLines iText
    let wantOut := ((iLines.drop wbeg).take (wend - wbeg)).flatten
    let used := natOf (kv.get "used")
    let errUsed := (sched.take used).contains WOut.err
    let sf1 :=
      (if !rderr && nulFree && iText != wantText then [s!"clause=rd_roundtrip want={bytesHex wantText} got={bytesHex iText}"] else [])
      ++ (if kv.get "wrrc" == "0" && iOut != wantOut then [s!"clause=wr_file want={bytesHex wantOut} got={bytesHex iOut}"] else [])
    let sf3 :=
      (if errUsed && kv.get "wrrc" == "0" then ["clause=fail_surfaces write error consumed but lbuf_wr returned 0"] else [])
      ++ (if !errUsed && kv.get "wrrc" != "0" then ["clause=short_writes_complete no error outcome but lbuf_wr failed"] else [])
      ++ (if kv.get "wrrc" == "0" && iOut != wantOut then [s!"clause=success_exact want={bytesHex wantOut} got={bytesHex iOut}"] else [])
    { diffs := d, specfails := (if mode == 1 then sf1 else sf3).map (fun s => (s.take 300).toString),
      nontrivial := file.length > 2 && (served.length > 1 || sched.length > 0 || !old.isEmpty),
      tags := (if errUsed then ["werr"] else []) ++ (if (sched.take used).any (fun o => o != WOut.err) then ["short"] else [])
        ++ (if lb.lines.length ≥ Gen.LN_INIT then ["grow"] else []) ++ (if lb.lines.any (fun l => l.length ≥ Gen.WR_BATCH) then ["bigline"] else []) }

end Neatvi.Drive.LbufD
