import NeatviVerif.Drive.Common
import NeatviVerif.Model.Uc
import NeatviVerif.Spec.Utf8
namespace Neatvi.Drive.C16
open Neatvi Neatvi.Uc Neatvi.Spec Neatvi.Drive

/-- linear table membership: the reference for "the class its tables list" -/
def memTab (c : Nat) (t : List (Nat × Nat)) : Bool := t.any (fun r => r.1 ≤ c && c ≤ r.2)

/-- stream `cp`: one code point, all per-character functions (uc.c and regex.c copies) -/
def judgeCp (kv : KV) : Verdict :=
  match hexNat (kv.get "c") with
  | none => { bad := some "c" }
  | some c =>
    let e := enc c
    let b := Bytes.hd e
    let mLen := ucLen b
    let mCode := ucCode e
    let mWid := ucWid e
    let mBell := ucIsBell e
    let mComb := ucIsComb e
    let mPut := ucPut c
    let mKind := ucKind b
    let d := cmp "len" (kv.get "len") (toString mLen)
      ++ cmp "code" (kv.get "code") (showOptNat mCode)
      ++ cmp "wid" (kv.get "wid") (showOptNat mWid)
      ++ cmp "bell" (kv.get "bell") (match mBell with | some x => b2s x | none => "trap")
      ++ cmp "comb" (kv.get "comb") (match mComb with | some x => b2s x | none => "trap")
      ++ cmp "put" (kv.get "put") (bytesHex mPut)
      ++ cmp "rxlen" (kv.get "rxlen") (toString mLen)
      ++ cmp "rxdec" (kv.get "rxdec") (showOptNat mCode)
      ++ cmp "kind" (kv.get "kind") (toString mKind)
      ++ cmp "enc" (kv.get "enc") (bytesHex e)
    -- the statements of Props/C16 (len_enc, code_enc, put_enc) and C17 (wid_is_table) on the impl's values
    let sf := (if kv.get "len" == toString e.length then [] else [s!"clause=len_enc want={e.length} got={kv.get "len"}"])
      ++ (if kv.get "code" == toString c then [] else [s!"clause=code_enc want={c} got={kv.get "code"}"])
      ++ (if kv.get "rxlen" == toString e.length then [] else [s!"clause=len_enc(regex.c) want={e.length} got={kv.get "rxlen"}"])
      ++ (if kv.get "rxdec" == toString c then [] else [s!"clause=code_enc(regex.c) want={c} got={kv.get "rxdec"}"])
      ++ (if kv.get "put" == bytesHex e then [] else [s!"clause=put_enc want={bytesHex e} got={kv.get "put"}"])
      ++ (let w := if memTab c Gen.zwchars then 0 else if memTab c Gen.dwchars then 2 else 1
          if kv.get "wid" == toString w then [] else [s!"clause=wid_is_table want={w} got={kv.get "wid"}"])
    { diffs := d, specfails := sf, nontrivial := c ≥ 0x80 }

/-- stream `str`: a string given as code points and as bytes -/
def judgeStr (kv : KV) : Verdict :=
  let cps := hexList (kv.get "cps")
  let s := hexBytes (kv.get "hex")
  if encStr cps ≠ s then { bad := some "hex is not the encoding of cps" } else
  let n := cps.length
  let ks := List.range (n + 2)
  let mSlen := ucSlen s
  let mChop := ucChop s
  let mChr := ks.map (fun k => match ucChr s k with | some i => (i : Int) | none => -1)
  let mOff := mChop.map (fun o => ucOff s o)
  let mNext := mChop.map (fun o => ucNext (s.drop o))
  let mPrev := mChop.map (fun o => ucPrev (s.take o).reverse)
  let pairs := ks.flatMap (fun b => ks.filterMap (fun e => if b ≤ e && e ≤ n then some (b, e) else none))
  let mSub := pairs.map (fun (b, e) => bytesHex (ucSub s b e))
  let d := cmp "slen" (kv.get "slen") (toString mSlen)
    ++ cmp "chop" (kv.get "chop") (showNats mChop)
    ++ cmp "chr" (kv.get "chr") (showInts mChr)
    ++ cmp "off" (kv.get "off") (showNats mOff)
    ++ cmp "next" (kv.get "next") (showNats mNext)
    ++ cmp "prev" (kv.get "prev") (showNats mPrev)
    ++ cmp "sub" (kv.get "sub") (",".intercalate mSub)
  -- spec side (statements of slen_spec, chop_spec, chr_spec, off_chr_roundtrip, next/prev_spec, sub_spec)
  let bo := (List.range (n + 1)).map (byteOff cps)
  let wantChr : List Int := ks.map (fun k => if k ≤ n then (byteOff cps k : Int) else -1)
  let wantNext := (List.range (n + 1)).map (fun k => byteOff cps (k + 1) - byteOff cps k)
  let wantPrev := (List.range (n + 1)).map (fun k => byteOff cps k - byteOff cps (k - 1))
  let wantSub := pairs.map (fun (b, e) => bytesHex (encStr ((cps.take e).drop b)))
  let chk (cl : String) (got want : String) := if got == want then [] else [s!"clause={cl} want={want} got={got}"]
  let sf := chk "slen_spec" (kv.get "slen") (toString n)
    ++ chk "chop_spec" (kv.get "chop") (showNats bo)
    ++ chk "chr_spec" (kv.get "chr") (showInts wantChr)
    ++ chk "off_chr_roundtrip" (kv.get "off") (showNats (List.range (n + 1)))
    ++ chk "next_spec" (kv.get "next") (showNats wantNext)
    ++ chk "prev_spec" (kv.get "prev") (showNats wantPrev)
    ++ chk "sub_spec" (kv.get "sub") (",".intercalate wantSub)
  { diffs := d, specfails := sf, nontrivial := cps.any (· ≥ 0x80) && n ≥ 2 }

end Neatvi.Drive.C16
