import NeatviVerif.Drive.Common
import NeatviVerif.Model.Ren
import NeatviVerif.Spec.Layout
namespace Neatvi.Drive.RenD
open Neatvi Neatvi.Uc Neatvi.Spec Neatvi.Drive Neatvi.Ren

/-- the logged `rset_find` calls as a lookup table -/
def parseRx (s : String) : List ((Nat × Bytes × Nat) × Option (Nat × List Int)) :=
  if s == "-" then [] else
  (s.splitOn ";").filterMap fun ent =>
    match ent.splitOn ":" with
    | [w, flg, hex, found, subs] =>
      let f := intOf found
      some ((natOf w, hexBytes hex, natOf flg), if f < 0 then none else some (f.toNat, intList subs))
    | _ => none

def mkOracle (tab : List ((Nat × Bytes × Nat) × Option (Nat × List Int))) : Dir.Oracle :=
  fun w s flg => (tab.lookup (w, s, flg)).join

/-- did the model ask the oracle something the implementation never asked? -/
def oracleMiss (tab : List ((Nat × Bytes × Nat) × Option (Nat × List Int))) (w : Nat) (s : Bytes) (flg : Nat) : Bool :=
  (tab.lookup (w, s, flg)).isNone

structure RenCase where
  s : Bytes
  o : Opts
  shape : Bool
  n : Nat
  orc : Dir.Oracle

def showOL (l : Option (List Nat)) : String := match l with | some x => showNats x | none => "trap"

def judge (mode : Nat) (kv : KV) : Verdict :=
  let s := hexBytes (kv.get "line")
  let o : Opts := { xorder := natOf (kv.get "order"), xlim := intOf (kv.get "lim"), xtd := intOf (kv.get "td") }
  let tab := parseRx (kv.get "rx")
  let orc := mkOracle tab
  let n := ucSlen s
  let cps := decodeStr s.length s
  if encStr cps ≠ s then { bad := some "line is not valid UTF-8" } else
  -- model
  let mCtx := Dir.dirContext orc o.xtd s
  let mOrd := Dir.dirReorder orc o.xtd s (List.range n)
  let mPos := renPosition orc o s
  let posL := mPos.getD []
  let total := posL.getD n 0
  let ps := List.range (total + 2)
  let pz := List.range (total + 1)
  let mRpos := (List.range (n + 1)).map (renPosT posL n)
  let mRoff := ps.map (fun (p : Nat) => renOffT posL n (Int.ofNat p))
  let mNextR := pz.map (fun (p : Nat) => renNextT s posL n (Int.ofNat p) 1)
  let mNextL := pz.map (fun (p : Nat) => renNextT s posL n (Int.ofNat p) (-1))
  let mCursor := ps.map (fun (p : Nat) => renCursorT s posL n (Int.ofNat p))
  let mNoeol := (List.range (n + 3)).map (fun (i : Nat) => renNoeol s (Int.ofNat i - 1))
  let chs := chrs s
  let codes := chs.map (fun c => (ucCode c).getD 0)
  let doShape := kv.get "shape" != "0"
  let mTr := (List.range chs.length).map (fun k =>
    match renPlaceholder (chs.getD k []) with
    | some (d, _) => bytesHex d
    | none => if doShape then (match ucShapeAt codes k with | some c => bytesHex (ucPut c) | none => "0") else "0")
  let implTr := if n == 0 then [] else (kv.get "tr").splitOn ","
  let trDiff := if mTr == implTr then [] else [s!"tr impl={kv.get "tr"} model={",".intercalate mTr}"]
  -- spec (C18 shaping): a translated letter is itself, a configured placeholder, or a presentation form of its own row
  let shapeBad := (List.range chs.length).filterMap (fun k =>
    let c := cps.getD k 0
    let out := implTr.getD k "0"
    let ph := (Gen.placeholders.find? (fun p => dec1 p.1 == c)).map (fun p => bytesHex p.2.1)
    let row := Gen.achars.find? (fun r => r.1 == c)
    let forms := match row with
      | some r => ([r.1, r.2.2.1, r.2.2.2.1, r.2.2.2.2].filter (· != 0)).map (fun x => bytesHex (enc x))
      | none => []
    if out == "0" || some out == ph || out == "efbfbd" || out == bytesHex (enc c) || forms.contains out then none
    else some s!"clause=shape_same_letter char={k} cp={c} out={out}")
  let d := cmp "n" (kv.get "n") (toString n)
    ++ cmp "ctx" (kv.get "ctx") (toString mCtx)
    ++ cmp "ord" (kv.get "ord") (showOL mOrd)
    ++ cmp "pos" (kv.get "pos") (showOL mPos)
    ++ cmp "wid" (kv.get "wid") (toString total)
    ++ cmp "rpos" (kv.get "rpos") (showNats mRpos)
    ++ cmp "roff" (kv.get "roff") (showNats mRoff)
    ++ cmp "nextr" (kv.get "nextr") (showInts mNextR)
    ++ cmp "nextl" (kv.get "nextl") (showInts mNextL)
    ++ cmp "cursor" (kv.get "cursor") (showInts mCursor)
    ++ cmp "noeol" (kv.get "noeol") (showInts mNoeol)
    ++ trDiff
  -- spec predicates on the implementation's values
  let iPos := natList (kv.get "pos")
  let iOrd := natList (kv.get "ord")
  let iRpos := natList (kv.get "rpos")
  let iRoff := natList (kv.get "roff")
  let iNextR := intList (kv.get "nextr")
  let iNextL := intList (kv.get "nextl")
  let sf17 :=
    (if isTiling cps iPos then [] else [s!"clause=tiling pos={kv.get "pos"}"])
    ++ ((List.range n).filterMap fun i =>
        let w := cellWidth (cps.getD i 0) (iPos.getD i 0)
        if w == 0 then none
        else if iRoff.getD (iRpos.getD i 0) 999999 == i then none
        else some s!"clause=off_pos_roundtrip char={i} col={iRpos.getD i 0} back={iRoff.getD (iRpos.getD i 0) 999999}")
    ++ ((List.range n).filterMap fun i =>
        -- moving right from char i lands on the char displayed immediately to the right, or fails at the end / newline
        let pi := iPos.getD i 0
        let right := ((List.range n).filter (fun j => iPos.getD j 0 > pi)).foldl (fun (b : Option Nat) j =>
          match b with | none => some j | some k => if iPos.getD j 0 < iPos.getD k 0 then some j else some k) none
        let want : Int := match right with
          | some j => if cps.getD j 0 == 10 then -1 else (iPos.getD j 0 : Int)
          | none => -1
        if iNextR.getD pi (-7) == want then none else some s!"clause=next_spec(right) char={i} want={want} got={iNextR.getD pi (-7)}")
    ++ ((List.range n).filterMap fun i =>
        let pi := iPos.getD i 0
        let left := ((List.range n).filter (fun j => iPos.getD j 0 < pi)).foldl (fun (b : Option Nat) j =>
          match b with | none => some j | some k => if iPos.getD j 0 > iPos.getD k 0 then some j else some k) none
        let want : Int := match left with
          | some j => if cps.getD j 0 == 10 then -1 else (iPos.getD j 0 : Int)
          | none => -1
        if iNextL.getD pi (-7) == want then none else some s!"clause=next_spec(left) char={i} want={want} got={iNextL.getD pi (-7)}")
  let hasNl := cps.getLast? == some 10
  let sf18 :=
    (if isPerm iOrd n then [] else [s!"clause=fix_perm ord={kv.get "ord"}"])
    ++ (if hasNl && iOrd.getD (n - 1) 0 != n - 1 then [s!"clause=terminator_last ord={kv.get "ord"}"] else [])
    ++ (if (tab.filter (fun e => e.1.1 != 2)).all (fun e => e.2.isNone) && iOrd != List.range n
        then [s!"clause=no_match_identity ord={kv.get "ord"}"] else [])
    ++ shapeBad
    ++ (let body := if hasNl then cps.dropLast else cps
        let plain := !(body.contains 92) && !(body.contains 36)
        let ctxI := intOf (kv.get "ctx")
        if !plain then [] else
        let runs := if ctxI > 0 then rtlRuns body else latinRuns body
        let want := reverseRuns body.length runs ++ (if hasNl then [n - 1] else [])
        if iOrd == want then [] else
          let maxrun := runs.foldl (fun m r => max m (r.2 - r.1)) 0
          [s!"clause={if ctxI > 0 then "ltr_runs_reversed" else "rtl_runs_reversed"} maxrun={maxrun} want={showNats want} got={kv.get "ord"}"])
  let nontriv := if mode == 17 then cps.any (fun c => c ≥ 0x80 || c == 9) else iOrd != List.range n
  { diffs := d, specfails := if mode == 17 then sf17 else sf18, nontrivial := nontriv,
    tags := (if iOrd != List.range n then ["reordered"] else []) ++ (if cps.contains 9 then ["tab"] else []) }

/-- does a letter join to the next / to the previous one, read off the table (reference) -/
def joinsNext (c : Nat) : Bool := match Gen.achars.find? (fun r => r.1 == c) with
  | some r => r.2.2.1 != 0 || r.2.2.2.1 != 0 | none => false
def joinsPrev (c : Nat) : Bool := match Gen.achars.find? (fun r => r.1 == c) with
  | some r => r.2.2.2.2 != 0 || r.2.2.2.1 != 0 | none => false

/-- stream `shape`: every letter in every joining context -/
def judgeShape (kv : KV) : Verdict :=
  match hexNat (kv.get "cur"), hexNat (kv.get "prev"), hexNat (kv.get "next"), hexNat (kv.get "out") with
  | some cur, some prev, some next, some out =>
    let m := ucCshape cur prev next
    let d := cmp "out" (toString out) (toString m)
    let row := Gen.achars.find? (fun r => r.1 == cur)
    let sf := match row with
      | none => if out == cur then [] else [s!"clause=shape_other want={cur} got={out}"]
      | some r =>
        let jp := joinsNext prev && joinsPrev cur
        let jn := joinsNext cur && joinsPrev next
        let form := if jp && jn then r.2.2.2.1 else if jp then r.2.2.2.2 else if jn then r.2.2.1 else r.1
        let want := if form != 0 then form else cur
        if out == want then [] else [s!"clause=shape_same_letter want={want} got={out}"]
    { diffs := d, specfails := sf, nontrivial := row.isSome }
  | _, _, _, _ => { bad := some "shape fields" }

end Neatvi.Drive.RenD
