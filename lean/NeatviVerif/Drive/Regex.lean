import NeatviVerif.Drive.Common
import NeatviVerif.Model.Rset
import NeatviVerif.Spec.RegexSem
import NeatviVerif.Spec.Layout
namespace Neatvi.Drive.RegexD
open Neatvi Neatvi.Uc Neatvi.Regex Neatvi.Rset Neatvi.Spec Neatvi.Drive

def akCode : AK → Nat
  | .chr => 0 | .beg => 94 | .end_ => 36 | .any => 46 | .brk => 91 | .wbeg => 60 | .wend => 62

def showInst : Inst → String
  | .atom a => s!"a{akCode a.k}:{bytesHex a.s}"
  | .fork a b => s!"f{a}:{b}"
  | .jump a => s!"j{a}"
  | .mark m => s!"m{m}"
  | .mtch => "q"

def showProg (p : List Inst) : String := if p.isEmpty then "-" else ",".intercalate (p.map showInst)

/-- is a byte string valid UTF-8 (re-encoding its reference decoding gives it back)? -/
def validUtf8 (s : Bytes) : Bool := encStr (decodeStr s.length s) == s

/-- character boundaries of a valid UTF-8 string -/
def boundaries (s : Bytes) : List Nat :=
  let cps := decodeStr s.length s
  (List.range (cps.length + 1)).map (byteOff cps)

/-- nodes with inverted or wrapped bounds, or too many groups, are outside the reference semantics -/
def treeOk : RNode → Bool
  | .nul => true
  | .atom _ mn mx => mn ≥ 0 && (mx < 0 || mn ≤ mx)
  | .cat a b => treeOk a && treeOk b
  | .alt a b => treeOk a && treeOk b
  | .grp a g mn mx => g < 32 && mn ≥ 0 && (mx < 0 || mn ≤ mx) && treeOk a

def showGrps (l : List Int) : String := showInts l

/-- the groups an `rset_find`-style caller sees: `n` pairs starting at tree group `base` -/
def grpsOf (marks : Marks) (base cnt n : Nat) : List Int :=
  (List.range n).flatMap (fun i => if i < cnt + 1 then [marks.getD (2 * (base + i)) (-1), marks.getD (2 * (base + i) + 1) (-1)] else [-1, -1])

/-- stream `rx`: one pattern, one line.  mode 10 / 11 / 12 selects the property's clauses. -/
def judgeRx (mode : Nat) (kv : KV) : Verdict :=
  let pat := hexBytes (kv.get "pat")
  let line := hexBytes (kv.get "line")
  let flg := natOf (kv.get "flg")
  let n := natOf (kv.get "n")
  let icase := flg &&& RE_ICASE != 0
  let nd := Gen.NDEPT; let ng := Gen.NGRPS
  -- model: compile
  let wrapped := [40, 40] ++ pat ++ [41, 41]
  let rflg := 1 ||| (if icase then REG_ICASE else 0)
  let comp := regcomp wrapped rflg
  let (mComp, mAlloc, mN, mProg) := match comp with
    | none => ("trap", "trap", "trap", "trap")
    | some none => ("1", "?", "-1", "-")
    | some (some p) => ("0", toString p.alloc, toString p.code.length, showProg p.code)
  let implAllocCmp := if mComp == "1" then [] else cmp "alloc" (kv.get "alloc") mAlloc
  -- model: rset
  let rs := Rset.make [some pat] flg
  let (mSet, mGrps, mCuts) := match rs with
    | none => ("trap", "trap", "trap")
    | some none => ("null", "-", "0")
    | some (some r) => match Rset.find r line n flg nd ng with
      | none => ("trap", "trap", "trap")
      | some (s, g, c) => (toString s, if s ≥ 0 then showGrps g else "-", toString c)
  -- model: rstr
  let rr := rstrMake pat flg
  let (mFast, mRstr, mRgrps) := match rr with
    | none => ("trap", "trap", "trap")
    | some none => ("0", "null", "-")
    | some (some r) =>
      let fast := r.str.isSome
      match rstrFind r line n flg nd ng with
      | none => (b2s fast, "trap", "trap")
      | some (s, g, _) =>
        (b2s fast, toString s, if s ≥ 0 then showGrps g else "-")
  let d := cmp "comp" (kv.get "comp") mComp ++ implAllocCmp ++ cmp "pn" (kv.get "pn") mN ++ cmp "prog" (kv.get "prog") mProg
    ++ cmp "set" (kv.get "set") mSet ++ cmp "grps" (kv.get "grps") mGrps ++ cmp "cuts" (kv.get "cuts") mCuts
    ++ cmp "fast" (kv.get "fast") mFast ++ cmp "rstr" (kv.get "rstr") mRstr ++ cmp "rgrps" (kv.get "rgrps") mRgrps
  -- implementation values
  let iComp := kv.get "comp"
  let iSet := kv.get "set"
  let iGrps := intList (kv.get "grps")
  let iCuts := natOf (kv.get "cuts")
  let iFast := kv.get "fast" == "1"
  let iRstr := kv.get "rstr"
  let iRgrps := intList (kv.get "rgrps")
  let len : Int := line.length
  let lineValid := validUtf8 line && !line.contains 0
  let patValid := validUtf8 pat
  let bnds := boundaries line
  let inRange (so eo : Int) : Bool := 0 ≤ so && so ≤ eo && eo ≤ len
  let onBnd (x : Int) : Bool := x < 0 || bnds.contains x.toNat
  -- C11 clauses
  let sf11 :=
    (if iComp == "0" && intOf (kv.get "pn") > intOf (kv.get "alloc") then [s!"clause=program_fits n={kv.get "pn"} alloc={kv.get "alloc"}"] else [])
    ++ (if iSet != "null" && intOf iSet ≥ 0 && !inRange (iGrps.getD 0 (-9)) (iGrps.getD 1 (-9)) then [s!"clause=offsets_in_range so={iGrps.getD 0 (-9)} eo={iGrps.getD 1 (-9)} len={len}"] else [])
    ++ (if iRstr != "null" && intOf iRstr ≥ 0 && !inRange (iRgrps.getD 0 (-9)) (iRgrps.getD 1 (-9)) then [s!"clause=offsets_in_range(rstr) so={iRgrps.getD 0 (-9)} eo={iRgrps.getD 1 (-9)} len={len}"] else [])
    ++ (if lineValid && iSet != "null" && intOf iSet ≥ 0 && !(onBnd (iGrps.getD 0 0) && onBnd (iGrps.getD 1 0)) then [s!"clause=offsets_on_boundaries so={iGrps.getD 0 0} eo={iGrps.getD 1 0}"] else [])
    -- the fast path is only ever handed buffer lines (and their suffixes), which `lbuf_replace` always ends with a newline
    ++ (if lineValid && line.getLast? == some 10 && iRstr != "null" && intOf iRstr ≥ 0 && !(onBnd (iRgrps.getD 0 0) && onBnd (iRgrps.getD 1 0)) then [s!"clause=offsets_on_boundaries(rstr) patvalid={patValid} so={iRgrps.getD 0 0} eo={iRgrps.getD 1 0}"] else [])
  -- C10 clauses, judged by the ordered reference semantics on the model's parse tree
  -- the reference applies to patterns that are well-formed on their own: their parse consumes the whole
  -- pattern and the wrapped pattern parses to exactly two groups around it
  let tree : Option RNode := match parseAlt (parseFuel pat) pat, parse wrapped with
    | some (some t0, []), some (some t) => if t == RNode.grp (RNode.grp t0 0 1 1) 0 1 1 then some (grpnum t 1).1 else none
    | _, _ => none
  let eflg := REG_NEWLINE ||| (if flg &&& RE_NOTBOL != 0 then REG_NOTBOL else 0) ||| (if flg &&& RE_NOTEOL != 0 then REG_NOTEOL else 0) ||| rflg
  let sf10 := match tree with
    | none => []
    | some t =>
      if !treeOk t || iComp != "0" || iSet == "null" then [] else
      let cnt := Rset.groupCount pat
      let nm := 2 * ng
      let fm := RegexSem.firstMatch t line eflg nm
      let found := intOf iSet ≥ 0
      if found then
        let so := (iGrps.getD 0 (-1)).toNat
        let eo := (iGrps.getD 1 (-1)).toNat
        let all := RegexSem.results ⟨line, eflg⟩ t (so, List.replicate nm (-1))
        let mine := all.filter (fun r => grpsOf r.2 2 cnt n == iGrps)
        (if mine.isEmpty then [s!"clause=vm_sound no parse of the pattern yields span {so},{eo} with groups {kv.get "grps"}"] else [])
        ++ (if iCuts == 0 then
              (match fm with
               | none => ["clause=vm_sound reference finds no match at all"]
               | some (st, r) =>
                 (if st != so then [s!"clause=leftmost want_start={st} got={so}"] else [])
                 ++ (if st == so && grpsOf r.2 2 cnt n != iGrps then [s!"clause=greedy_left_biased want={showGrps (grpsOf r.2 2 cnt n)} got={kv.get "grps"}"] else []))
            else [])
      else
        (if iCuts == 0 then
          (match fm with
           | some (st, r) => [s!"clause=no_match_missed reference matches at {st} ending {r.1}"]
           | none => [])
         else [])
  -- C12 clauses
  let stripped :=
    let p1 := if pat.headD 0 == 94 then pat.drop 1 else pat
    let p2 := if p1.headD 0 == 92 && p1.getD 1 0 == 60 then p1.drop 2 else p1
    let r1 := p2.reverse
    let r2 := if r1.headD 0 == 36 then r1.drop 1 else r1
    let r3 := if r2.headD 0 == 62 && r2.getD 1 0 == 92 then r2.drop 2 else r2
    r3.reverse
  let sf12 :=
    (if iFast && stripped.any (fun c => Gen.ratomSpecial.contains c) then [s!"clause=simple_has_no_operator literal={bytesHex stripped}"] else [])
    ++ (if iFast && iSet != "null" && iCuts == 0 && line.getLast? == some 10 then
          (let eFound : Bool := intOf iSet ≥ 0
           let fFound : Bool := iRstr != "null" && intOf iRstr ≥ 0
           if eFound != fFound then [s!"clause=fast_equals_engine engine_found={eFound} fast_found={fFound} engine_at_eos={decide (eFound && iGrps.getD 0 (-1) == len)}"]
           else if eFound && (iGrps.take 2 != iRgrps.take 2) then [s!"clause=fast_equals_engine engine={showGrps (iGrps.take 2)} fast={showGrps (iRgrps.take 2)}"]
           else [])
        else [])
    ++ (if iFast && iRstr != "null" && intOf iRstr ≥ 0 && (iRgrps.drop 2).any (fun x => x != -1) then [s!"clause=fast_groups_unset rgrps={kv.get "rgrps"}"] else [])
  let sf := if mode == 10 then sf10 else if mode == 11 then sf11 else sf12
  { diffs := d, specfails := sf.take 2,
    nontrivial := (if mode == 12 then iFast else iComp == "0") && iSet != "null" && intOf iSet ≥ 0,
    tags := (if iCuts > 0 then ["cut"] else []) ++ (if iFast then ["fast"] else []) ++ (if iComp != "0" then ["rejected"] else [])
      ++ (if iSet != "null" && intOf iSet ≥ 0 then ["found"] else []) }

/-- stream `rset`: a set of patterns; C10's "reported index is the alternative that matched" -/
def judgeRset (kv : KV) : Verdict :=
  let pats := ((kv.get "pats").splitOn ";").map (fun h => if h == "N" then none else some (hexBytes h))
  let line := hexBytes (kv.get "line")
  let flg := natOf (kv.get "flg")
  let n := natOf (kv.get "n")
  let nd := Gen.NDEPT; let ng := Gen.NGRPS
  let rs := Rset.make pats flg
  let (mSet, mGrps, mCuts) := match rs with
    | none => ("trap", "trap", "trap")
    | some none => ("null", "-", "0")
    | some (some r) => match Rset.find r line n flg nd ng with
      | none => ("trap", "trap", "trap")
      | some (s, g, c) => (toString s, if s ≥ 0 then showGrps g else "-", toString c)
  let d := cmp "set" (kv.get "set") mSet ++ cmp "grps" (kv.get "grps") mGrps ++ cmp "cuts" (kv.get "cuts") mCuts
  -- spec: the reported alternative, matched on its own at the reported start, yields the reported span
  let iSet := kv.get "set"
  let iGrps := intList (kv.get "grps")
  let sf := if iSet == "null" || intOf iSet < 0 || natOf (kv.get "cuts") > 0 then [] else
    let k := (intOf iSet).toNat
    match pats.getD k none with
    | none => [s!"clause=rset_index alternative {k} is a NULL pattern"]
    | some p =>
      let icase := flg &&& RE_ICASE != 0
      let rflg := 1 ||| (if icase then REG_ICASE else 0)
      let eflg := REG_NEWLINE ||| (if flg &&& RE_NOTBOL != 0 then REG_NOTBOL else 0) ||| (if flg &&& RE_NOTEOL != 0 then REG_NOTEOL else 0) ||| rflg
      match parse ([40] ++ p ++ [41]) with
      | some (some t) =>
        let t' := (grpnum t 1).1
        if !treeOk t' then [] else
        let so := (iGrps.getD 0 (-1)).toNat
        let all := RegexSem.results ⟨line, eflg⟩ t' (so, List.replicate (2 * ng) (-1))
        let cnt := Rset.groupCount p
        if all.any (fun r => grpsOf r.2 1 cnt n == iGrps) then [] else
          [s!"clause=rset_index alternative {k} alone has no parse with groups {kv.get "grps"} at {so}"]
      | _ => [s!"clause=rset_index alternative {k} does not compile on its own"]
  { diffs := d, specfails := sf, nontrivial := iSet != "null" && intOf iSet > 0 }

end Neatvi.Drive.RegexD
