import NeatviVerif.Drive.Ex
/-! Reference for the global command (C15): mark every line of the range, then repeatedly take the
*first line of the buffer that still carries a mark* (whatever the command list did to the line
numbers), clear its mark, and run the command list on it when it matches at that time.  Marks travel
with their lines (theorem `glob_bits_travel`), lines inserted by the commands carry none.  The
sub-commands are run by the model of ex.c. -/
namespace Neatvi.Drive.ExGlob
open Neatvi Neatvi.Lbuf Neatvi.Ex Neatvi.Drive Neatvi.Rset

def refBit : Nat := 7

def refGlob (ed : Ed) (loc cmd arg : Bytes) : Option (Int × Ed × Nat) :=
  let loc := if loc.isEmpty && ed.xgdep == 0 then [37] else loc
  match exRegion ed loc with
  | none => none
  | some ((rc, b, e), ed) =>
    if rc != 0 then some (1, ed, 0) else
    let neg := hasBang cmd || cmd.headD 0 == 118
    let (pat, s) := reRead arg
    let ed := match pat with | some p => if !p.isEmpty then ed.kwdSet (some p) 1 else ed | none => ed
    if ed.xkwddir == 0 then some (1, ed, 0) else
    match ed.mkRe ed.xkwd with
    | none => none
    | some none => some (1, ed, 0)
    | some (some re) =>
      let ed := { ed with xgdep := ed.xgdep + 1 }
      let ed := (List.range (e - b).toNat).foldl (fun (ed : Ed) k =>
        match ed.lb with | some lb => ed.setLb (globSet lb (b.toNat + k) refBit) | none => ed) ed
      let rec visit : Nat → Ed → Nat → Option (Ed × Nat)
        | 0, ed, n => some (ed, n)
        | g + 1, ed, n =>
          match ed.lb with
          | none => some (ed, n)
          | some lb =>
            match (List.range lb.lines.length).find? (fun i => (lb.glob.getD i 0 &&& (1 <<< refBit)) != 0) with
            | none => some (ed, n)
            | some i =>
              let ed := ed.setLb (globGet lb i refBit).2
              match rstrFind re (lb.lines.getD i []) 16 0 ND NG with
              | none => none
              | some (res, _, _) =>
                if (res < 0) == neg then
                  match exExec 64 { ed with xrow := i } s with
                  | none => none
                  | some (r, ed) => if r != 0 then some (ed, n + 1) else visit g ed (n + 1)
                else visit g ed n
      match visit (4 * ed.len.toNat + 64) ed 0 with
      | none => none
      | some (ed, n) =>
        let ed := match ed.lb with
          | some lb => ed.setLb ((List.range lb.lines.length).foldl (fun lb k => (globGet lb k refBit).2) lb)
          | none => ed
        some (0, { ed with xgdep := ed.xgdep - 1 }, n)

/-- the scan discipline of `ec_glob` itself (resume at `MIN(i, xrow)`), instrumented: does an execution ever
leave a still-marked line *before* the resume index?  Such a line is never visited. -/
def markedBeforeResume (ed : Ed) (loc cmd arg : Bytes) : Bool :=
  let loc := if loc.isEmpty && ed.xgdep == 0 then [37] else loc
  match exRegion ed loc with
  | none => false
  | some ((rc, b, e), ed) =>
    if rc != 0 then false else
    let neg := hasBang cmd || cmd.headD 0 == 118
    let (pat, s) := reRead arg
    let ed := match pat with | some p => if !p.isEmpty then ed.kwdSet (some p) 1 else ed | none => ed
    if ed.xkwddir == (0 : Int) then false else
    match ed.mkRe ed.xkwd with
    | some (some re) =>
      let dep := ed.xgdep + 1
      let ed := { ed with xgdep := dep }
      let ed := (List.range (e - (b + 1)).toNat).foldl (fun (ed : Ed) k =>
        match ed.lb with | some lb => ed.setLb (globSet lb (b.toNat + 1 + k) dep) | none => ed) ed
      let markedBefore (ed : Ed) (i : Int) : Bool := match ed.lb with
        | some lb => (List.range (min i.toNat lb.lines.length)).any (fun k => (lb.glob.getD k 0 &&& (1 <<< dep)) != 0)
        | none => false
      let rec scan : Nat → Ed → Int → Bool
        | 0, _, _ => false
        | g + 1, ed, i =>
          if i ≥ ed.len || i < 0 then false else
          match ed.line i with
          | none => false
          | some ln =>
            match rstrFind re ln 16 0 ND NG with
            | none => false
            | some (res, _, _) =>
              let stepres : Option (Ed × Int) :=
                if (res < 0) == neg then
                  (match exExec 64 { ed with xrow := i } s with
                   | none => none
                   | some (r, ed) => if r != 0 then none else some (ed, min i ed.xrow))
                else some (ed, i)
              match stepres with
              | none => false
              | some (ed, i) =>
                if markedBefore ed i then true else
                let rec adv : Nat → Ed → Int → Ed × Int
                  | 0, ed, i => (ed, i)
                  | h + 1, ed, i =>
                    if i ≥ ed.len || i < 0 then (ed, i) else
                    match ed.lb with
                    | none => (ed, i)
                    | some lb =>
                      let (m, lb) := globGet lb i.toNat dep
                      let ed := ed.setLb lb
                      if m then (ed, i) else adv h ed (i + 1)
                let (ed, i) := adv (ed.len.toNat + 1) ed i
                scan g ed i
      scan (4 * (ed.len.toNat + 4) * (ed.len.toNat + 4) + 64) ed b
    | _ => false

end Neatvi.Drive.ExGlob
