import NeatviVerif.Drive.Common
import NeatviVerif.Drive.Ex
import NeatviVerif.Model.ViCmd
import NeatviVerif.Model.Screen
/-! Correspondence for the vi command loop: `drive_vi` dumps the editor state at every command boundary;
the model is run on the same file and keys and the two sequences of boundary states are compared. -/
namespace Neatvi.Drive.ViD
open Neatvi Neatvi.Lbuf Neatvi.Ex Neatvi.Vi Neatvi.Drive

/-- the observable state at a command boundary -/
structure Bd where
  kpos : Nat
  xrow : Int
  xoff : Int
  xtop : Int
  xleft : Int
  len : Nat
  dirty : Bool
  text : Bytes
  regs : String
  marks : String
deriving BEq

def Bd.show (b : Bd) : String :=
  s!"{b.kpos}|{b.xrow}|{b.xoff}|{b.xtop}|{b.xleft}|{b.len}|{b2s b.dirty}|{bytesHex b.text}|{b.regs}|{b.marks}"

def regKeys : List Nat := (List.range 128).filter (fun i => i != 59 && i != 35 && i != 94 && i != 34 &&
    (i == 0 || Ex.isAlphaC i || Ex.isDigitC i || i == 47 || i == 46 || i == 58))

def bdOf (s : VS) (nkeys : Nat) : Bd :=
  let lb := s.ed.lb.getD {}
  let regs := ",".intercalate (regKeys.filterMap (fun i =>
    match s.ed.regs.getRaw i with
    | (some x, l) => some s!"{i}={l}={bytesHex x}"
    | (none, _) => none))
  let marks := ".".intercalate ((List.range 27).map (fun i =>
    let p := lb.mark.getD i (-1)
    if p < 0 then "-1:-1" else s!"{p}:{lb.markOff.getD i 0}"))
  { kpos := nkeys - s.typed.length, xrow := s.ed.xrow, xoff := s.ed.xoff, xtop := s.ed.xtop, xleft := s.ed.xleft,
    len := lb.lines.length, dirty := ExD.dirtyPeek { lb with useq := lb.useq + 1 }, text := lb.lines.flatten,
    regs := regs, marks := marks }

inductive End where
  | quit (kpos : Nat)
  | eof
  | trap
  | fuel

structure Run where
  bds : List Bd
  states : List VS
  fin : End
  unmodelledAt : Option Nat     -- index of the first boundary after an unmodelled command

/-- run the model on a file and keys -/
def runModel (file : Option Bytes) (keys : Bytes) (rows cols : Int) : Option Run :=
  let ed0 : Ed := match file with
    | some d => { ({} : Ed).putFile ⟨strOf "fa", d, 1001⟩ with clock := 1001 }
    | none => {}
  match exInit ed0 [strOf "fa"] with
  | none => none
  | some (_, ed) =>
    let s0 := viInit ed keys (rows - 1) cols
    let n := keys.length
    let rec loop : Nat → VS → List Bd → List VS → Option Nat → Run
      | 0, _, bds, sts, um => { bds := bds.reverse, states := sts.reverse, fin := End.fuel, unmodelledAt := um }
      | f + 1, s, bds, sts, um =>
        let bds := bdOf s n :: bds
        let sts := s :: sts
        match viStep s with
        | Res.ok _ s' =>
          let um := if um.isNone && s'.unmodelled then some bds.length else um
          if s'.ed.xquit then { bds := bds.reverse, states := sts.reverse, fin := End.quit (n - s'.typed.length), unmodelledAt := um }
          else loop f s' bds sts um
        | Res.eof => { bds := bds.reverse, states := sts.reverse, fin := End.eof, unmodelledAt := um }
        | Res.trap => { bds := bds.reverse, states := sts.reverse, fin := End.trap, unmodelledAt := um }
    some (loop (2 * n + 400) s0 [] [] none)

/-- a boundary record of the implementation -/
structure ImplBd where
  mark : String
  bd : Bd
  path : String
  cursor : String
  screen : String
  repaint : String
  bad : String
  ops : String := ""

def parseImpl (res : String) : List ImplBd :=
  (res.splitOn "/").filterMap (fun rcd =>
    let f := rcd.splitOn "|"
    let mk := f.getD 0 ""
    if f.isEmpty then none else
    let bd : Bd :=
      if mk == "Q" then { kpos := natOf (f.getD 1 "0"), xrow := 0, xoff := 0, xtop := 0, xleft := 0, len := 0, dirty := false, text := [], regs := "", marks := "" }
      else { kpos := natOf (f.getD 1 ""), xrow := intOf (f.getD 2 ""), xoff := intOf (f.getD 3 ""), xtop := intOf (f.getD 4 ""),
             xleft := intOf (f.getD 5 ""), len := natOf (f.getD 6 ""), dirty := f.getD 7 "" == "1", text := hexBytes (f.getD 8 ""),
             regs := f.getD 9 "", marks := f.getD 10 "" }
    let r : ImplBd := { mark := mk, bd := bd, path := f.getD 11 "", cursor := f.getD 12 "", screen := f.getD 13 "", repaint := f.getD 14 "", bad := f.getD 15 "", ops := f.getD 16 "" }
    some r)

def fieldNames : List String := ["kpos", "xrow", "xoff", "xtop", "xleft", "len", "dirty", "text", "regs", "marks"]

def diffBd (i : Nat) (a b : Bd) : List String :=
  let x := (a.show).splitOn "|"
  let y := (b.show).splitOn "|"
  match (List.range 10).find? (fun k => x.getD k "" != y.getD k "") with
  | some k => [s!"boundary#{i} {fieldNames.getD k "?"} impl={((x.getD k "").take 120).toString} model={((y.getD k "").take 120).toString}"]
  | none => []

structure Case where
  file : Option Bytes
  keys : Bytes
  rows : Int
  cols : Int
  impl : List ImplBd
  crashed : Bool

def parseCase (kv : KV) : Case :=
  { file := if kv.get "file" == "A" then none else some (hexBytes (kv.get "file")),
    keys := hexBytes (kv.get "keys"), rows := intOf (kv.get "rows"), cols := intOf (kv.get "cols"),
    impl := parseImpl (kv.get "res"), crashed := kv.has "CHILD" || kv.get "crash" == "1" }

/-- compare the boundary sequences -/
def correspond (c : Case) (m : Run) : List String :=
  let implB := c.impl.filter (·.mark == "B")
  let fuelOut := match m.fin with | End.fuel => true | _ => false
  let limit := match m.unmodelledAt with | some k => k | none => if fuelOut then m.bds.length else max implB.length m.bds.length
  let rec go : Nat → Nat → List String
    | 0, _ => []
    | f + 1, i =>
      if i ≥ limit then [] else
      match implB[i]?, m.bds[i]? with
      | some a, some b => (match diffBd i a.bd b with | [] => go f (i + 1) | d => d)
      | some _, none => [s!"boundary#{i} impl has more boundaries than the model ({implB.length} vs {m.bds.length})"]
      | none, some _ => [s!"boundary#{i} model has more boundaries than impl ({m.bds.length} vs {implB.length})"]
      | none, none => []
  let d := go (limit + 1) 0
  if !d.isEmpty then d else
  if m.unmodelledAt.isSome then [] else
  -- the end of the run
  let implEnd := match c.impl.getLast? with | some r => r.mark | none => "?"
  match m.fin with
  | End.quit k => if implEnd == "Q" then (if (c.impl.getLast?.map (·.bd.kpos)) == some k then [] else [s!"quit kpos impl={(c.impl.getLast?.map (·.bd.kpos)).getD 0} model={k}"]) else [s!"end impl={implEnd} model=Q"]
  | End.eof => if implEnd == "E" then [] else [s!"end impl={implEnd} model=E"]
  | End.trap => if c.crashed then [] else ["model traps but the implementation ran on"]
  | End.fuel => []

def judge (_mode : Nat) (kv : KV) : Verdict :=
  let c := parseCase kv
  match runModel c.file c.keys c.rows c.cols with
  | none => { bad := some "model cannot load the file" }
  | some m =>
    let trap := match m.fin with | End.trap => true | _ => false
    let d := if c.crashed && !trap && m.unmodelledAt.isNone then ["impl crashed but the model does not trap"]
             else if c.crashed then [] else correspond c m
    { diffs := d, nontrivial := m.bds.length ≥ 2,
      tags := (match m.fin with | End.fuel => ["fuel"] | _ => []) ++ (if m.unmodelledAt.isSome then ["unmodelled"] else []) ++ (if trap then ["modeltrap"] else []) }

end Neatvi.Drive.ViD
