import NeatviVerif.Drive.ExSpec
import NeatviVerif.Drive.ExGlob
/-!
# The `ex` stream: model comparison plus the property-specific reference judgement
-/
namespace Neatvi.Drive.ExJ
open Neatvi Neatvi.Drive Neatvi.Drive.ExSpec Neatvi.Spec

/-- how a script line is consumed: a command line with the text block(s) it reads, or a directive -/
inductive Item where
  | cmd (ln : Bytes) (txt : Bytes)
  | dir (ln : Bytes)

/-- the text-block lines a command line reads through `ex_read` (for a/i/c and `rs` without inline text) -/
def consume (ln : Bytes) (rest : List Bytes) : Bytes × List Bytes :=
  let rec go : Nat → Bytes → List Bytes → Bytes → Bytes × List Bytes
    | 0, _, rest, acc => (acc, rest)
    | f + 1, ln, rest, acc =>
      if ln.isEmpty then (acc, rest) else
      let (_, ln) := Ex.exLoc ln
      let (cmd, ln) := Ex.exCmd ln
      let abbr := match Ex.exIdx cmd with | some (a, _) => a | none => byt "unknown"
      let (_, ln) := Ex.exArg ln abbr
      let ed : Ex.Ed := { input := rest }
      let ((txt, ln), ed) := Ex.exTxt ed ln abbr
      let used := rest.length - ed.input.length
      go f ln ed.input (if used > 0 then acc ++ txt.getD [] else acc)
  go (ln.length + 1) ln rest []

def segment : Nat → List Bytes → List Item
  | 0, _ => []
  | f + 1, script =>
    match script with
    | [] => []
    | ln :: rest =>
      if ln.take 2 == [64, 64] then Item.dir ln :: segment f rest
      else let (txt, rest') := consume ln rest; Item.cmd ln txt :: segment f rest'

/-! ### C02, C03, C20 on buffer/file scripts -/
structure FS where
  touched : List Bytes := []      -- paths modified behind the editor's back since it last read/wrote them
  faultArmed : List (Nat × Nat) := []
  over : List (Bytes × Option Bytes) := []   -- file contents set by directives since the last dumped state

def fileOf (st : Step) (p : Bytes) : Option Bytes := (st.files.find? (fun f => f.1 == str p)).bind (·.2)
def curBuf (st : Step) : Option BufInfo := st.bufs.find? (·.slot == 0)
def bufById (st : Step) (id : Int) : Option BufInfo := st.bufs.find? (·.id == id)

def hasBangS (cmd : String) : Bool := cmd.contains '!'

structure JB where
  ghosts : List Ghost := []
  fs : FS := {}
  wa : Bool := false
  aw : Bool := false
  errs : List String := []

def ghostOf (j : JB) (id : Int) : Option Ghost := j.ghosts.find? (·.id == id)
def setGhost (j : JB) (g : Ghost) : JB := { j with ghosts := g :: j.ghosts.filter (·.id != g.id) }

/-- refresh the ghost records from a dumped state (text/row/dirty/hist of every buffer) keeping `disk` -/
def refresh (j : JB) (st : Step) : JB :=
  st.bufs.foldl (fun j b =>
    let old := ghostOf j b.id
    setGhost j { id := b.id, disk := old.bind (·.disk), text := b.text, row := if b.slot == 0 then st.xrow else b.row,
                 dirty := b.dirty, histU := b.histU, histN := b.histN, savedAt := old.bind (·.savedAt) }) j

def judgeBufStep (mode : Nat) (j : JB) (prev0 next : Step) (ln txt : Bytes) : JB :=
  let _ := txt
  let known := (Ex.exIdx (splitCmd ln).2.1).isSome
  let single := isSingle ln && known
  let (loc, cmdB, arg) := splitCmd ln
  let cmd := str cmdB
  let base := cmd.replace "!" ""
  -- `:b ~` renumbers the buffers (no switch): the judge follows the buffers, slot by slot, to their new numbers
  let renum := single && base == "b" && arg.headD 0 == 126 && prev0.bufs.length == next.bufs.length
  let newId (id : Int) : Int :=
    if !renum then id else
    match prev0.bufs.find? (·.id == id) with
    | some a => (match next.bufs.find? (·.slot == a.slot) with | some b => b.id | none => id)
    | none => id
  let prev : Step := if renum then { prev0 with bufs := prev0.bufs.map (fun a => { a with id := newId a.id }) } else prev0
  let j : JB := if renum then { j with ghosts := j.ghosts.map (fun g => { g with id := newId g.id }) } else j
  let pc := curBuf prev
  let nc := curBuf next
  -- `:b !` deletes the current buffer: an explicit discard, like `q!`
  let bang := hasBangS cmd || (base == "b" && arg.headD 0 == 33)
  let mut_errs : List String := []
  let e02a : List String := []
  -- ---------- guards (C02) and switching (C20)
  let anyDirtyTruth := prev.bufs.any (fun b => match (ghostOf j b.id).bind (·.disk) with | some d => b.text != d | none => false)
  let curDirtyTruth := match pc with
    | some b => (match (ghostOf j b.id).bind (·.disk) with | some d => b.text != d | none => false)
    | none => false
  let e02b := if mode != 2 || !single || j.wa || j.aw then [] else
    (if base == "q" && !bang && anyDirtyTruth && next.quit then
      [s!"clause=guards quit accepted while a buffer differs from its file ({str ln})"] else [])
    ++ (if (base == "e" || base == "b" || base == "ew") && !bang && !arg.isEmpty && curDirtyTruth &&
          (match pc, nc with | some a, some b => a.id != b.id | _, _ => false) then
      [s!"clause=guards {str ln} left a buffer whose text differs from its file"] else [])
  -- ---------- C20: buffers that are not current before or after keep everything
  let e20 := if mode != 20 then [] else
    (next.bufs.filterMap (fun b =>
      match bufById prev b.id with
      | none => none
      | some a =>
        let wasCur := a.slot == 0; let isCur := b.slot == 0
        if (!wasCur && !isCur) then
          (if a.text != b.text || a.dirty != b.dirty || a.histU != b.histU || a.histN != b.histN || a.row != b.row then
            some s!"clause=switch_preserves buffer {b.id} (not current) changed by {str ln}" else none)
        else if single && (base == "e" || base == "b" || base == "ew") && wasCur != isCur then
          -- the buffer left keeps text, dirty state and history; its row is the cursor at the switch;
          -- the buffer entered comes back with its stored text and row
          (if a.text != b.text || a.dirty != b.dirty || a.histU != b.histU || a.histN != b.histN then
            some s!"clause=switch_preserves buffer {b.id} changed while switching ({str ln})"
           else if wasCur && b.row != prev.xrow then some s!"clause=switch_preserves left buffer {b.id} row={b.row} cursor was {prev.xrow}"
           else if isCur && next.xrow != a.row && base != "e" then some s!"clause=switch_preserves entered buffer {b.id} at row {next.xrow}, stored {a.row}"
           else none)
        else none))
    ++ (if single && base == "b" && next.rc == 0 && !arg.isEmpty then
          (match takeNum arg, nc with
           | some (k, _), some b => if b.id == (k : Int) then [] else [s!"clause=b_number {str ln} reached buffer {b.id}"]
           | _, _ => [])
        else [])
    ++ (if single && base == "e" && next.rc == 0 && !arg.isEmpty && !arg.contains 35 && !arg.contains 37 && !arg.contains 43 then
          (match nc with
           | some b => if b.path == arg then [] else [s!"clause=find_by_path {str ln} reached path {str b.path}"]
           | none => [])
        else [])
    ++ (if single && base == "q" && !bang && next.rc == 0 && !next.quit then
          -- quit refused: the current buffer must be a dirty one
          (match nc with
           | some b => if b.dirty then [] else [s!"clause=quit_switches_to_dirty quit refused but the current buffer {b.id} is clean"]
           | none => [])
        else [])
  -- ---------- C03: writes
  -- `:w !cmd` pipes the text to a command: it writes no file and saves nothing
  let isPipe := arg.headD 0 == 33
  let isWrite := (base == "w" || base == "wq" || base == "x" || base == "xa") && !isPipe
  let e02pipe := if mode == 2 && single && base == "w" && isPipe then
      (match pc, pc.bind (fun p => bufById next p.id) with
       | some p, some b => if p.dirty && !b.dirty then
           [s!"clause=pipe_write_saves_nothing {str ln} marked buffer {b.id} clean"] else
           if p.path != b.path then [s!"clause=pipe_write_saves_nothing {str ln} renamed the buffer to {str b.path}"] else []
       | some p, none => [s!"clause=pipe_write_saves_nothing {str ln} lost buffer {p.id}"]
       | _, _ => [])
    else []
  let e03 := if mode != 3 || !single || !isWrite then [] else
    match pc with
    | none => []
    | some cb =>
      let target := if arg.isEmpty then cb.path else arg
      let own := target == cb.path
      let existed := (fileOf prev target).isSome
      let newer := j.fs.touched.contains target
      let before := match j.fs.over.find? (·.1 == target) with | some o => o.2 | none => fileOf prev target
      let existed := before.isSome
      let regionOk := loc.isEmpty || (match refRegion (RefSt.ofText cb.text) prev.xrow true loc with
        | some (some r, _, s) => validRegion s r | _ => false)
      let after := fileOf next target
      let errFault := j.fs.faultArmed.any (fun f => f.2 == 101) && next.fired > 0
      let onlyShort := !j.fs.faultArmed.isEmpty && j.fs.faultArmed.all (fun f => f.2 != 101)
      let plines := linesOf cb.text
      let written : Bytes :=
        if loc.isEmpty || base != "w" then cb.text else
        (match refRegion (RefSt.ofText cb.text) prev.xrow true loc with
         | some (some (b, e), _, _) => (((plines.drop b.toNat).take (e - b + 1).toNat)).flatten
         | _ => cb.text)
      let skipX := base == "x" && !cb.dirty
      if skipX then [] else
      (if !bang && !own && existed && base == "w" && after != before then
        [s!"clause=guard_foreign {str ln} replaced the existing file {str target} that is not the file being edited"] else [])
      ++ (if !bang && own && newer && existed && after != before && base != "xa" then
        [s!"clause=guard_newer {str ln} replaced {str target} although it changed after the editor read it"] else [])
      ++ (if errFault && base == "w" && next.rc == 0 then [s!"clause=fail_surfaces {str ln}: a system call failed but the command reported success"] else [])
      ++ (if errFault && base != "w" && next.quit then [s!"clause=fail_surfaces {str ln}: a system call failed but the editor quit"] else [])
      ++ (if errFault && cb.dirty && after != some cb.text && (match nc with | some b => b.id == cb.id && !b.dirty | none => false) then
            [s!"clause=fail_surfaces {str ln}: the write failed but the buffer is marked clean"] else [])
      ++ (if onlyShort && regionOk && !j.fs.faultArmed.isEmpty && base == "w" && !(existed && !own && !bang) && !(newer && !bang) && next.rc != 0 then
            [s!"clause=short_writes_complete {str ln}: only short counts were injected but the command failed"] else [])
      ++ (if base == "w" && next.rc == 0 && (str next.msg).contains "[w]" && after != some written then
            [s!"clause=success_exact {str ln}: reported success but the file holds {bytesHex (after.getD [])} instead of {bytesHex written}"] else [])
      ++ (if base != "w" && next.quit && own && cb.dirty && after != some cb.text && base != "xa" then
            [s!"clause=success_exact {str ln}: quit after writing but the file differs from the buffer"] else [])
  -- ---------- bookkeeping of the ghosts
  let j := { j with errs := j.errs ++ mut_errs ++ e02a ++ e02b ++ e02pipe ++ e20.take 2 ++ e03 }
  let j := if single && base == "se" then
      (let a := str arg
       { j with wa := if a == "wa" then true else if a == "nowa" then false else j.wa,
                aw := if a == "aw" then true else if a == "noaw" then false else j.aw })
    else j
  -- disk knowledge: a successful (re)read or write of the own path
  let j := refresh j next
  let j := match nc with
    | none => j
    | some b =>
      let g := (ghostOf j b.id).getD { id := b.id, disk := none, text := b.text, row := next.xrow, dirty := b.dirty, histU := b.histU, histN := b.histN, savedAt := none }
      let msg := str next.msg
      -- a line of several commands one of which is an edit command: the buffer was loaded when it is new or
      -- carries a fresh time stamp
      let lineLoads := !single && ((str ln).splitOn "|").any (fun sg =>
          let (_, c, _) := splitCmd (byt sg)
          let c := (str c).replace "!" ""
          c == "e" || c == "ew") &&
        (match bufById prev b.id with | none => true | some pb => pb.mtime != b.mtime)
      if ((base == "e" || base == "ew") && next.rc == 0 && (msg.contains "[r]" || (bufById prev b.id).isNone)) || lineLoads then
        -- the buffer was (re)loaded from its file, or created for a file that does not exist
        -- what the file holds now is what was read (no write happened in a load step); the dumped file
        -- content is used so that further commands on the same line do not blur the picture
        let rd := match fileOf next b.path with
          | some d => (if d.isEmpty || d.getLast? == some 10 then d else d ++ [10])
          | none => if msg.contains "[r]" then b.text else []
        let j := setGhost j { g with disk := some (if single then (if msg.contains "[r]" then b.text else []) else rd), savedAt := some b.histU }
        { j with fs := { j.fs with touched := j.fs.touched.filter (· != b.path) } }
      else j
  -- a successful write concerns the buffer that was current when the command started
  let j := match pc.bind (fun p => bufById next p.id) with
    | none => j
    | some b =>
      let g := (ghostOf j b.id).getD { id := b.id, disk := none, text := b.text, row := b.row, dirty := b.dirty, histU := b.histU, histN := b.histN, savedAt := none }
      let msg := str next.msg
      -- a command line of several commands: one of them may be a write of the own file; the dumped file
      -- content after the line is what the editor last wrote
      let segs := (str ln).splitOn "|"
      let lineHasWrite := !single && segs.any (fun sg =>
        let (_, c, a) := splitCmd (byt sg)
        let c := (str c).replace "!" ""
        (c == "w" || c == "wq" || c == "x" || c == "xa") && a.headD 0 != 33)
      -- what the file held just before the command (harness directives applied)
      let beforeOwn := match j.fs.over.find? (·.1 == b.path) with | some o => o.2 | none => fileOf prev b.path
      let ownWrite := segs.any (fun sg =>
        let (_, c, a) := splitCmd (byt sg)
        let c0 := (str c).replace "!" ""
        (c0 == "w" || c0 == "wq" || c0 == "x" || c0 == "xa") && a.headD 0 != 33 && (a.isEmpty || a == b.path))
      if lineHasWrite && msg.contains "[w]" && (fileOf next b.path != beforeOwn || ownWrite) then
        let j := if fileOf next b.path != beforeOwn then
            setGhost j { g with disk := some ((fileOf next b.path).getD b.text), savedAt := some b.histU }
          else j
        { j with fs := { j.fs with touched := j.fs.touched.filter (· != b.path) } }
      else
      if isWrite && (msg.contains "[w]") then
        let target := if arg.isEmpty || base != "w" then b.path else arg
        if target == b.path then
          let wr := (fileOf next target).getD b.text
          let j := setGhost j { g with disk := some wr, savedAt := some b.histU }
          { j with fs := { j.fs with touched := j.fs.touched.filter (· != b.path) } }
        else j
      else j
  -- ---------- C02: after the bookkeeping, the clean flag must be sound for every buffer
  let e02late := if mode != 2 then [] else
    next.bufs.filterMap (fun b =>
      match (ghostOf j b.id).bind (·.disk) with
      | some d => if !b.dirty && b.text != d then
          some s!"clause=clean_sound buffer={b.id} reports clean but text={bytesHex b.text} disk={bytesHex d} after {str ln}" else none
      | none => none)
  -- a buffer reported once is not judged again until it is loaded or saved anew
  let j := if e02late.isEmpty then j else
    next.bufs.foldl (fun j b => match ghostOf j b.id with
      | some g => (match g.disk with
        | some d => if !b.dirty && b.text != d then setGhost j { g with disk := none } else j
        | none => j)
      | none => j) j
  { j with errs := j.errs ++ e02late.take 1, fs := { j.fs with faultArmed := [], over := [] } }

def applyDirective (j : JB) (ln : Bytes) : JB :=
  let ws := ((str ln).splitOn " ").filter (· ≠ "")
  match ws with
  | ["@@touch", a] => { j with fs := { j.fs with touched := byt a :: j.fs.touched } }
  | ["@@writefile", a, d] => { j with fs := { j.fs with touched := byt a :: j.fs.touched, over := (byt a, some (hexBytes d)) :: j.fs.over } }
  -- the file gets the time stamp 0: whatever happened to it before, it no longer looks newer than anything
  -- (the time stamp is the only evidence of a foreign change the editor can have)
  | ["@@epoch", a] => { j with fs := { j.fs with touched := j.fs.touched.filter (· != byt a) } }
  | ["@@rm", a] => { j with fs := { j.fs with touched := j.fs.touched.filter (· != byt a), over := (byt a, none) :: j.fs.over } }
  | ["@@fault", a] => { j with fs := { j.fs with faultArmed := (a.splitOn ",").map (fun t =>
        match t.splitOn ":" with
        | [i, k] => (natOf i, (k.toList.headD 'e').toNat)
        | _ => (0, 101)) } }
  | _ => j

/-! ### C04 at the editor level: one undo step per command, per buffer -/
structure UZ where
  id : Int
  past : List Bytes := []
  future : List Bytes := []
  ok : Bool := true          -- false = the reference lost track (multi-command undo lines)

structure J04 where
  zs : List UZ := []
  errs : List String := []

def uzOf (j : J04) (id : Int) : UZ := (j.zs.find? (·.id == id)).getD { id := id }
def setUz (j : J04) (z : UZ) : J04 := { j with zs := z :: j.zs.filter (·.id != z.id) }

def judge04Step (j : J04) (prev0 next : Step) (ln : Bytes) : J04 :=
  let single := isSingle ln
  let cmd := cmdName ln
  -- `:b ~` renumbers the buffers: the histories follow them slot by slot; a deleted buffer takes its history along
  let renum := single && (cmd.replace "!" "") == "b" && ((splitCmd ln).2.2).headD 0 == 126 && prev0.bufs.length == next.bufs.length
  let newId (id : Int) : Int :=
    if !renum then id else
    match prev0.bufs.find? (·.id == id) with
    | some a => (match next.bufs.find? (·.slot == a.slot) with | some b => b.id | none => id)
    | none => id
  let prev : Step := if renum then { prev0 with bufs := prev0.bufs.map (fun a => { a with id := newId a.id }) } else prev0
  let j : J04 := if renum then { j with zs := j.zs.map (fun z => { z with id := newId z.id }) } else j
  let j : J04 := { j with zs := j.zs.filter (fun z => prev.bufs.any (·.id == z.id)) }
  let mentionsUndo := (str ln).contains "u" || (str ln).contains "redo"
  -- a (re)load in the middle of a command line clears the history at a text the judge does not see
  let mentionsLoad := ((str ln).splitOn "|").any (fun sg =>
    let c := (cmdName (byt sg)).replace "!" ""
    c == "e" || c == "ew")
  -- a write in the middle of a command line ends an undo step there (lbuf_saved bumps the sequence, which
  -- is what keeps the dirty flag sound): such lines, and lines with u / redo / e inside, are not judged
  let mentionsWrite := ((str ln).splitOn "|").any (fun sg =>
    let c := (cmdName (byt sg)).replace "!" ""
    c == "w" || c == "wq" || c == "x" || c == "xa")
  let opaque_ := !single && (mentionsUndo || mentionsLoad || mentionsWrite)
  next.bufs.foldl (fun j b =>
    if opaque_ then setUz j { (uzOf j b.id) with ok := false } else
    match bufById prev b.id with
    | none => setUz j { id := b.id, ok := single }      -- created by this line; edits after a mid-line load are not seen
    | some a =>
      let z := uzOf j b.id
      let isCur := b.slot == 0 || a.slot == 0
      if single && cmd == "u" && isCur && a.slot == 0 then
        if !z.ok then j else
        (match z.past with
         | [] =>
           let j := if a.text == b.text then j else { j with errs := j.errs ++ [s!"clause=undo_at_bottom_fails_unchanged u changed buffer {b.id} although no command is left to undo"] }
           j
         | p :: ps =>
           let j := if b.text == p then j else
             { j with errs := j.errs ++ [s!"clause=undo_exact after {str ln}: buffer {b.id} want={bytesHex p} got={bytesHex b.text}"] }
           setUz j { z with past := ps, future := a.text :: z.future })
      else if single && cmd == "redo" && a.slot == 0 then
        if !z.ok then j else
        (match z.future with
         | [] =>
           if a.text == b.text then j else { j with errs := j.errs ++ [s!"clause=redo_at_top_fails_unchanged redo changed buffer {b.id}"] }
         | f :: fs =>
           let j := if b.text == f then j else
             { j with errs := j.errs ++ [s!"clause=redo_exact after {str ln}: buffer {b.id} want={bytesHex f} got={bytesHex b.text}"] }
           setUz j { z with past := a.text :: z.past, future := fs })
      else if a.text != b.text || a.histU != b.histU || a.histN != b.histN then
        if !single && (mentionsUndo || mentionsLoad) then setUz j { z with ok := false }
        else if b.histN == 0 && b.histU == 0 then setUz j { id := b.id }      -- history cleared (file opened)
        else setUz j { z with past := a.text :: z.past, future := [] }
      else j) j

/-! ### C15: the global command against the mark-then-visit reference -/
/-- walk the script; for every line that is a single `g`/`v` command compare the implementation's
result with the reference run from the model state before it, and a directly following `u` with the
text before the global -/
def judge15 (items : List Item) (rest : List String) (eds : List Ex.Ed) (st0 : Step) : List String × Nat :=
  let n := items.length
  let rec go : Nat → Nat → Step → Option Bytes → List String → Nat → List String × Nat
    | 0, _, _, _, errs, v => (errs, v)
    | f + 1, i, prev, pend, errs, v =>
      if i ≥ n then (errs, v) else
      match items[i]?, rest[i]?, eds[i]? with
      | some (Item.dir _), _, _ => go f (i + 1) prev pend errs v
      | some (Item.cmd ln _), some r, some ed =>
        (match parseStep r with
         | none => (errs, v)
         | some next =>
           let (loc, cmd, arg) := splitCmd ln
           let c := str cmd
           -- the reference starts from the model's state before the command: usable when it holds the text the
           -- implementation had (the two may already have parted, or part at this very command)
           if isSingle ln && (c == "g" || c == "v" || c == "g!") && ((ed.lb.map (fun lb => lb.lines.flatten)).getD []) == prev.text then
             match ExGlob.refGlob { ed with out := [], msg := [], input := ed.input.drop 1 } loc cmd arg with
             | none => go f (i + 1) next none errs v
             | some (_, edr, visits) =>
               let want := (edr.lb.map (fun lb => lb.lines.flatten)).getD []
               let errs := if want == next.text then errs else
                 errs ++ [s!"clause=visits_each_marked_line_once cause={if ExGlob.markedBeforeResume { ed with out := [], msg := [], input := ed.input.drop 1 } loc cmd arg then "marked_line_before_resume_index" else "other"} cmd={str ln} before={bytesHex prev.text} want={bytesHex want} got={bytesHex next.text}"]
               go f (i + 1) next (if next.text != prev.text then some prev.text else none) errs (v + visits)
           else if isSingle ln && c == "u" then
             let errs := match pend with
               | some t => if next.text == t then errs else
                   errs ++ [s!"clause=global_is_one_undo_step after u want={bytesHex t} got={bytesHex next.text}"]
               | none => errs
             go f (i + 1) next none errs v
           else go f (i + 1) next none errs v)
      | _, _, _ => (errs, v)
  go (n + 1) 0 st0 none [] 0

/-! ### the stream judge -/
def judge (mode : Nat) (kv : KV) : Verdict :=
  let base := ExD.judge 0 kv
  let script := if kv.get "script" == "-" then [] else ((kv.get "script").splitOn ",").map hexBytes
  -- alignment of script lines with dumped steps: the model's run tells which lines were read as text blocks
  -- (a register executed by `@` may read them); without an agreeing model run fall back to a syntactic split
  let files := ExD.parseFiles (kv.get "files")
  let opens := if kv.get "open" == "-" then [] else ((kv.get "open").splitOn ",").map Ex.strOf
  let mrun := ExD.runModel files opens script
  let items := if base.diffs.isEmpty && !mrun.items.isEmpty then
      mrun.items.map (fun it => if it.1 then Item.dir it.2.1 else Item.cmd it.2.1 ((it.2.2.filter (· != [46])).flatMap (fun l => l ++ [10])))
    else segment (script.length + 1) script
  let steps := ((kv.get "res").splitOn "/")
  if kv.get "crash" == "1" then base else
  match steps with
  | [] => base
  | s0 :: rest =>
    match parseStep s0 with
    | none => { base with bad := some "unparsable first step" }
    | some st0 =>
      let icase := true
      -- walk items and steps together
      let init06 : J06 := { st := RefSt.ofText st0.text }
      let initB : JB := refresh ({} : JB) st0
      let initB := match curBuf st0 with
        | some b => setGhost initB { id := b.id, disk := some (if (str st0.msg).contains "[r]" then b.text else []), text := b.text,
                                     row := st0.xrow, dirty := b.dirty, histU := b.histU, histN := b.histN, savedAt := some b.histU }
        | none => initB
      let noSe := items.all (fun it => match it with | Item.cmd ln _ => !(cmdName ln).startsWith "se" | _ => true)
      let (_, j06, e14, jb, _, j04) := (items.zip rest).foldl
        (fun (acc : Step × J06 × List String × JB × Bytes × J04) (x : Item × String) =>
          let (prev, j06, e14, jb, lastPat, j04) := acc
          match x.1 with
          | Item.dir ln => (prev, j06, e14, applyDirective jb ln, lastPat, j04)
          | Item.cmd ln txt =>
            match parseStep x.2 with
            | none => acc
            | some next =>
              let j06' := if mode == 6 then judge06Step j06 prev next ln txt icase else j06
              let (e, lp) := if mode == 14 then judge14Step prev next ln icase lastPat
                             else if mode == 16 then
                               -- the substitute reference reads patterns and lines as code points: an operator binds to
                               -- the preceding *character*, a match starts and ends on characters (scripts that
                               -- change `ic` are judged for validity only)
                               let (e14', lp) := if noSe then judge14Step prev next ln icase lastPat else ([], lastPat)
                               -- word boundaries judged on the suffix are the recorded finding of C13 / C14, not a matter of
                               -- character arithmetic
                               (judge16Step prev next ln txt ++ e14'.filter (fun e => !(e.splitOn "cause=match_judged_on_suffix").length ≥ 2), lp)
                             else ([], lastPat)
              let jb' := if mode == 2 || mode == 3 || mode == 20 then judgeBufStep mode jb prev next ln txt else jb
              let j04' := if mode == 4 then judge04Step j04 prev next ln else j04
              (next, j06', e14 ++ e, jb', lp, j04'))
        (st0, init06, [], initB, [], ({} : J04))
      let (e15, visits) := if mode == 15 then judge15 items rest mrun.eds st0 else ([], 0)
      let sf := if mode == 6 then j06.errs else if mode == 14 || mode == 16 then e14 else if mode == 4 then j04.errs else if mode == 15 then e15 else jb.errs
      { base with specfails := (sf.take 3).map (fun s => (s.take 500).toString),
                  tags := base.tags ++ (if visits ≥ 2 then ["multivisit"] else []) }

end Neatvi.Drive.ExJ
