import NeatviVerif.Drive.ViSpec
/-! Reference judgement of the vi editing commands (C08): the affected region is the span between the
cursor and the motion target (exclusive, inclusive or line-wise), registers receive exactly that text. -/
namespace Neatvi.Drive.ViSpec08
open Neatvi Neatvi.Drive Neatvi.Drive.ViD Neatvi.Drive.ViSpec Neatvi.Spec Neatvi.Spec.Motion

inductive Kind where
  | excl | incl | line
deriving BEq

abbrev RegMap := List (Nat × Nat × List Nat)      -- register → (lnmode, code points)

def parseRegs (s : String) : RegMap :=
  if s == "" || s == "-" then [] else
  (s.splitOn ",").filterMap (fun t =>
    match t.splitOn "=" with
    | [i, l, h] => let bs := hexBytes h; some (natOf i, natOf l, Spec.decodeStr bs.length bs)
    | _ => none)

def regGet (m : RegMap) (c : Nat) : Option (Nat × List Nat) := (m.find? (·.1 == c)).map (·.2)
def regSet (m : RegMap) (c : Nat) (ln : Nat) (t : List Nat) : RegMap := (c, ln, t) :: m.filter (·.1 != c)

/-- the register law: a line-wise or multi-line text put into the unnamed or a letter register first shifts
"1.."8 to "2.."9 and lands in "1; an upper-case name appends to the lower-case register -/
def regPut (m : RegMap) (c : Nat) (t : List Nat) (ln : Nat) : RegMap :=
  let letter := (65 ≤ c && c ≤ 90) || (97 ≤ c && c ≤ 122)
  let m := if (ln != 0 || t.contains 10) && (c == 0 || letter) then
      let shifted := (List.range 8).reverse.foldl (fun (acc : RegMap) i =>
        match regGet m (49 + i) with
        | some (l, x) => regSet acc (49 + i + 1) l x
        | none => acc) m
      regSet shifted 49 ln t
    else m
  if 65 ≤ c && c ≤ 90 then
    match regGet m (c + 32) with
    | some (_, old) => regSet m (c + 32) ln (old ++ t)
    | none => regSet m (c + 32) ln t
  else regSet m c ln t

/-- the registers the judgement compares (the recorded command, the last ex line and the search pattern aside) -/
def regsView (m : RegMap) : List (Nat × Nat × List Nat) :=
  let keys := (m.map (·.1)).filter (fun c => c != 46 && c != 58 && c != 47)
  let keys := keys.eraseDups
  let sorted := (List.range 256).filter (fun c => keys.contains c)
  sorted.filterMap (fun c => (regGet m c).map (fun v => (c, v.1, v.2)))

structure Op where
  reg : Nat := 0            -- 0 = unnamed
  cnt1 : Option Nat := none
  cmd : Nat := 0
  cnt2 : Option Nat := none
  mv : Nat := 0
  arg : Option Nat := none
  text : List Nat := []     -- typed text of an insert

def takeDigits (ks : Bytes) : Option Nat × Bytes :=
  if (ks.headD 0) ≥ 49 && (ks.headD 0) ≤ 57 then
    let d := ks.takeWhile (fun c => 48 ≤ c && c ≤ 57)
    (some (d.foldl (fun n x => n * 10 + (x - 48)) 0), ks.drop d.length)
  else (none, ks)

/-- parse the keys of one editing command of the judged grammar -/
def parseOp (ks : Bytes) : Option Op :=
  let (reg, ks) := if ks.headD 0 == 34 && ks.length ≥ 2 && ks.getD 1 0 != 92 then (ks.getD 1 0, ks.drop 2) else (0, ks)
  let (c1, ks) := takeDigits ks
  -- a register after the count
  let (reg, ks) := if reg == 0 && ks.headD 0 == 34 && ks.length ≥ 2 && ks.getD 1 0 != 92 then (ks.getD 1 0, ks.drop 2) else (reg, ks)
  let reg := if reg == 34 then 0 else reg
  match ks with
  | [] => none
  | cmd :: r =>
    if cmd == 100 || cmd == 121 then
      let (c2, r) := takeDigits r
      match r with
      | [] => none
      | mv :: r2 =>
        if mv == 102 || mv == 70 || mv == 116 || mv == 84 then
          let cps := Spec.decodeStr r2.length r2
          if cps.length == 1 && r2.headD 0 ≥ 32 && r2.headD 0 != 127 then some { reg, cnt1 := c1, cmd, cnt2 := c2, mv, arg := cps.head? } else none
        else if r2.isEmpty then some { reg, cnt1 := c1, cmd, cnt2 := c2, mv } else none
    else if (cmd == 120 || cmd == 88 || cmd == 68 || cmd == 89 || cmd == 112 || cmd == 80 || cmd == 74 || cmd == 126) && r.isEmpty then
      some { reg, cnt1 := c1, cmd }
    else if cmd == 114 then
      let cps := Spec.decodeStr r.length r
      if cps.length == 1 && r.headD 0 ≥ 32 && r.headD 0 != 127 then some { reg, cnt1 := c1, cmd, arg := cps.head? } else none
    else if (cmd == 105 || cmd == 97 || cmd == 73 || cmd == 65) && r.getLast? == some 27 && (r.dropLast).all (fun c => c ≥ 32 && c != 127) then
      some { reg, cnt1 := c1, cmd, text := Spec.decodeStr (r.length - 1) r.dropLast }
    else none

/-- the target of a motion used by an operator: (kind, row, col) with col possibly the newline position;
`none` = not judged, `some none` = the motion fails -/
def opTarget (b : Buf) (row col : Nat) (xtop xrows : Int) (mv : Nat) (arg : Option Nat) (n : Nat) (has : Bool) (charlast : Option (Nat × Nat) := none) : Option (Option (Kind × Nat × Nat)) :=
  let l := b.getD row []
  let nb (r : Nat) : Nat := let l := b.getD r []; match (List.range l.length).find? (fun k => !isBlank (l.getD k 0)) with | some k => k | none => l.length
  let ln (r : Int) : Option (Option (Kind × Nat × Nat)) := some (some (Kind.line, clampRow b r, 0))
  if mv == 104 || mv == 127 || mv == 8 then (if plainLine l then some (some (Kind.excl, row, col - min n col)) else none)
  else if mv == 32 then some (some (Kind.excl, row, min (col + n) l.length))
  else if mv == 108 then (if plainLine l then some (some (Kind.excl, row, min (col + n) (lastCol l))) else none)
  else if mv == 119 || mv == 87 then let p := wordFwdRaw (mv == 87) b ⟨row, col⟩ n; some (some (Kind.excl, p.row, p.col))
  else if mv == 98 || mv == 66 then let p := wordBackRaw (mv == 66) b ⟨row, col⟩ n; some (some (Kind.excl, p.row, p.col))
  else if mv == 101 || mv == 69 then let p := wordEndFwdRaw (mv == 69) b ⟨row, col⟩ n; some (some (Kind.incl, p.row, p.col))
  else if mv == 48 then some (some (Kind.excl, row, 0))
  else if mv == 94 then some (some (Kind.excl, row, nb row))
  else if mv == 36 then some (some (Kind.excl, row, l.length))
  else if mv == 124 then (if plainLine l then some (some (Kind.excl, row, min (colToChar l ((n : Int) - 1)) l.length)) else none)
  else if mv == 102 || mv == 116 then
    match arg with
    | none => none
    | some ch => some ((findChar l col ch true (mv == 116) n).map (fun k => (Kind.incl, row, k)))
  else if mv == 70 || mv == 84 then
    match arg with
    | none => none
    | some ch => some ((findChar l col ch false (mv == 84) n).map (fun k => (Kind.excl, row, k)))
  else if mv == 59 || mv == 44 then
    -- the last find repeated, in its own direction (;) or reversed (,): inclusive when it goes forward
    match charlast with
    | none => some none
    | some (cmd, ch) =>
      let fwd := (cmd == 102 || cmd == 116) == (mv == 59)
      some ((findChar l col ch fwd (cmd == 116 || cmd == 84) n).map (fun k => (if fwd then Kind.incl else Kind.excl, row, k)))
  else if mv == 106 || mv == 43 || mv == 10 then ln ((row : Int) + n)
  else if mv == 107 || mv == 45 then ln ((row : Int) - n)
  else if mv == 95 then ln ((row : Int) + n - 1)
  else if mv == 71 then ln (if has then (n : Int) - 1 else (b.length : Int) - 1)
  else if mv == 72 then ln (xtop + n - 1)
  else if mv == 76 then ln (xtop + xrows - 1 - n + 1)
  else if mv == 77 then ln (xtop + xrows / 2)
  else if mv == 37 && !has then some ((pairOf b ⟨row, col⟩).map (fun p => (Kind.incl, p.row, p.col)))
  else if mv == 125 then some (some (Kind.excl, Motion.iter (fun r => some (paraFwd b r)) n row, 0))
  else if mv == 123 then some (some (Kind.excl, Motion.iter (fun r => some (paraBack b r)) n row, 0))
  else none

def joinLines (b : Buf) : List Nat := b.flatMap (fun l => l ++ [10])
def splitLines (t : List Nat) : Buf :=
  let rec go : Nat → List Nat → List Nat → Buf → Buf
    | 0, _, _, acc => acc
    | f + 1, s, cur, acc =>
      match s with
      | [] => if cur.isEmpty then acc else acc ++ [cur]
      | c :: r => if c == 10 then go f r [] (acc ++ [cur]) else go f r (cur ++ [c]) acc
  go (t.length + 1) t [] []

/-- flat index of (row, col) -/
def flatIdx (b : Buf) (row col : Nat) : Nat := ((b.take row).foldl (fun a l => a + l.length + 1) 0) + col

structure Exp where
  text : Option Buf := none
  cur : Option (Nat × Nat) := none
  regs : Option RegMap := none

def restPos (b : Buf) (r c : Nat) : Nat × Nat :=
  if b.isEmpty then (0, 0) else
  let r := min r (b.length - 1)
  (r, min c (lastCol (b.getD r [])))

def nbOf (b : Buf) (r : Nat) : Nat :=
  let l := b.getD r []; match (List.range l.length).find? (fun k => !isBlank (l.getD k 0)) with | some k => k | none => lastCol l

def toggleCase (c : Nat) : Nat := if 97 ≤ c && c ≤ 122 then c - 32 else if 65 ≤ c && c ≤ 90 then c + 32 else c

/-- what the reference expects after the command (`none` = no judgement) -/
def expect08 (b : Buf) (regs : RegMap) (row col : Nat) (xtop xrows : Int) (o : Op) (charlast : Option (Nat × Nat) := none) : Option Exp :=
  let n1 := o.cnt1.getD 1; let n1 := if n1 == 0 then 1 else n1
  let l := b.getD row []
  let same : Exp := { text := some b, cur := some (row, col), regs := some regs }
  if b.isEmpty then none else
  -- aliases
  let (cmd, mv, arg, n, has, dbl) : Nat × Nat × Option Nat × Nat × Bool × Bool :=
    if o.cmd == 120 then (100, 32, none, n1, o.cnt1.isSome, false)
    else if o.cmd == 88 then (100, 8, none, n1, o.cnt1.isSome, false)
    else if o.cmd == 68 then (100, 36, none, n1, o.cnt1.isSome, false)
    else if o.cmd == 89 then (121, 121, none, n1, o.cnt1.isSome, true)
    else
      let n2 := o.cnt2.getD 1; let n2 := if n2 == 0 then 1 else n2
      (o.cmd, o.mv, o.arg, n1 * n2, o.cnt1.isSome || o.cnt2.isSome, o.mv == o.cmd)
  if cmd == 100 || cmd == 121 then
    let tgt : Option (Option (Kind × Nat × Nat)) :=
      if dbl then some (some (Kind.line, clampRow b ((row : Int) + n - 1), 0))
      else opTarget b row col xtop xrows mv arg n has charlast
    match tgt with
    | none => none
    | some none => some same
    | some (some (Kind.line, r2, _)) =>
      let r1 := min row r2; let r2 := max row r2
      let txt := joinLines ((b.drop r1).take (r2 - r1 + 1))
      let regs' := regPut regs o.reg txt 1
      if cmd == 121 then some { text := some b, cur := some (restPos b r1 col), regs := some regs' }
      else
        let b' := b.take r1 ++ b.drop (r2 + 1)
        let r := if b'.isEmpty then 0 else min r1 (b'.length - 1)
        some { text := some b', cur := some (if b'.isEmpty then (0, 0) else (r, nbOf b' r)), regs := some regs' }
    | some (some (k, r2, c2)) =>
      let i1 := flatIdx b row col; let i2 := flatIdx b r2 c2
      let (s, e) := if i1 ≤ i2 then (i1, i2) else (i2, i1)
      let (sr, sc) := if i1 ≤ i2 then (row, col) else (r2, c2)
      let flatT := joinLines b
      -- an inclusive span takes the end character too, but never a newline
      let e := if k == Kind.incl && flatT.getD e 10 != 10 then e + 1 else e
      if s == e then none else       -- an empty span: not judged
      let txt := (flatT.drop s).take (e - s)
      let regs' := regPut regs o.reg txt 0
      if cmd == 121 then some { text := some b, cur := some (restPos b sr sc), regs := some regs' }
      else
        let b' := splitLines (flatT.take s ++ flatT.drop e)
        some { text := some b', cur := some (restPos b' sr sc), regs := some regs' }
  else if o.cmd == 112 || o.cmd == 80 then
    -- the computed registers: "# the line number, "^ the column, "; the current line
    let digits (k : Nat) : List Nat := (toString k).toList.map (·.toNat)
    let src : Option (Nat × List Nat) :=
      if o.reg == 35 then some (0, digits (row + 1))
      else if o.reg == 94 then some (0, digits (col + 1))
      else regGet regs o.reg
    -- "; (the current line without its newline, flagged line-wise) is an ex-level convenience: not judged
    if o.reg == 59 then none else
    match src with
    | none => some same
    | some (lnm, t) =>
      if t.isEmpty then some same else
      let rep := (List.replicate n1 t).flatten
      if lnm != 0 then
        let at_ := if o.cmd == 112 then row + 1 else row
        let b' := b.take at_ ++ splitLines rep ++ b.drop at_
        some { text := some b', cur := some (at_, nbOf b' at_), regs := some regs }
      else
        let at_ := if l.isEmpty then 0 else if o.cmd == 112 then col + 1 else col
        let l' := l.take at_ ++ rep ++ l.drop at_
        let b' := b.take row ++ splitLines (l' ++ [10]) ++ b.drop (row + 1)
        some { text := some b', cur := if rep.contains 10 then none else some (row, at_ + rep.length - 1), regs := some regs }
  else if o.cmd == 74 then
    let cnt := if n1 ≤ 1 then 2 else n1
    if row + cnt > b.length then some same else
    let parts := (b.drop row).take cnt
    let rec go : List Line → Line → Nat → Line × Nat
      | [], acc, off => (acc, off)
      | p :: ps, acc, _ =>
        let p := p.dropWhile isBlank
        let sp := if acc.isEmpty then 0 else if acc.getLast? == some 32 || p.head? == some 41 then 0 else if acc.getLast? == some 46 then 2 else 1
        go ps (acc ++ List.replicate sp 32 ++ p) acc.length
    let (joined, off) := go (parts.drop 1) (parts.headD []) 0
    let b' := b.take row ++ [joined] ++ b.drop (row + cnt)
    some { text := some b', cur := some (restPos b' row off), regs := some regs }
  else if o.cmd == 126 then
    let e := min (col + n1) l.length
    let l' := l.take col ++ ((l.drop col).take (e - col)).map toggleCase ++ l.drop e
    let b' := b.take row ++ [l'] ++ b.drop (row + 1)
    some { text := some b', cur := some (restPos b' row e), regs := some regs }
  else if o.cmd == 114 then
    match o.arg with
    | none => none
    | some ch =>
      if l.isEmpty || col + n1 > l.length then some same else
      let l' := l.take col ++ List.replicate n1 ch ++ l.drop (col + n1)
      some { text := some (b.take row ++ [l'] ++ b.drop (row + 1)), cur := some (row, col + n1 - 1), regs := some regs }
  else if o.cmd == 105 || o.cmd == 97 || o.cmd == 73 || o.cmd == 65 then
    if o.text.isEmpty then none else
    let at_ := if l.isEmpty then 0 else if o.cmd == 105 then col else if o.cmd == 97 then col + 1 else if o.cmd == 73 then nbOf b row else l.length
    -- leading blanks typed at the start of a line interact with auto-indent: not judged
    if at_ == 0 && isBlank (o.text.headD 0) then none else
    if o.cmd == 73 && l.all isBlank then none else
    let l' := l.take at_ ++ o.text ++ l.drop at_
    some { text := some (b.take row ++ [l'] ++ b.drop (row + 1)), cur := some (row, at_ + o.text.length - 1), regs := some regs }
  else none

structure J08 where
  errs : List String := []
  judged : Nat := 0
  charlast : Option (Nat × Nat) := none     -- the last f F t T (command, code point), whoever used it

def showBuf (b : Buf) : String := bytesHex (Spec.encStr (joinLines b))

/-- the find a command segment contains (as a plain motion or under an operator) -/
def findOf (ks : Bytes) : Option (Nat × Nat) :=
  match parseOp ks with
  | some o => if o.mv == 102 || o.mv == 70 || o.mv == 116 || o.mv == 84 then o.arg.map (fun ch => (o.mv, ch)) else none
  | none =>
    match ViSpec.parseCmd ks with
    | some c => if c.mv == 102 || c.mv == 70 || c.mv == 116 || c.mv == 84 then c.arg.map (fun ch => (c.mv, ch)) else none
    | none => none

def judge08Step (j0 : J08) (a b : Bd) (ks : Bytes) (xrows : Int) : J08 :=
  -- remember the find for later ; and , (an unparsable segment with f F t T in it makes it unknown: judged as failing → skip)
  let j := match findOf ks with
    | some f => { j0 with charlast := some f }
    | none => if ks.any (fun c => c == 102 || c == 70 || c == 116 || c == 84) && (parseOp ks).isNone && (ViSpec.parseCmd ks).isNone then { j0 with charlast := none } else j0
  match parseOp ks with
  | none => j
  | some o =>
    if (o.mv == 59 || o.mv == 44) && j0.charlast.isNone then j else
    let buf := bufOf a.text
    let regs := parseRegs a.regs
    match expect08 buf regs a.xrow.toNat a.xoff.toNat a.xtop xrows o j0.charlast with
    | none => j
    | some e =>
      let gotB := bufOf b.text
      let errs := j.errs
      let errs := match e.text with
        | some t => if t == gotB then errs else errs ++ [s!"clause=affected_span_is_cursor_to_target keys={bytesHex ks} from={a.xrow},{a.xoff} before={bytesHex a.text} want={showBuf t} got={bytesHex b.text}"]
        | none => errs
      let errs := match e.cur with
        | some c => if e.text.isSome && e.text != some gotB then errs else
            if c == (b.xrow.toNat, b.xoff.toNat) then errs else errs ++ [s!"clause=cursor_after_command keys={bytesHex ks} from={a.xrow},{a.xoff} before={bytesHex a.text} want={c.1},{c.2} got={b.xrow},{b.xoff}"]
        | none => errs
      let errs := match e.regs with
        | some r => if regsView r == regsView (parseRegs b.regs) then errs else
            errs ++ [s!"clause=registers_hold_the_span keys={bytesHex ks} from={a.xrow},{a.xoff} before={bytesHex a.text} regs-before={a.regs} got={b.regs}"]
        | none => errs
      { j with errs := errs, judged := j.judged + 1 }

def judge08 (c : Case) : List String × Nat :=
  let bs := c.impl.filter (·.mark == "B")
  let rec go : Nat → Nat → J08 → J08
    | 0, _, j => j
    | f + 1, i, j =>
      match bs[i]?, bs[i + 1]? with
      | some a, some b => go f (i + 1) (judge08Step j a.bd b.bd ((c.keys.drop a.bd.kpos).take (b.bd.kpos - a.bd.kpos)) (c.rows - 1))
      | _, _ => j
  let j := go (bs.length + 1) 0 {}
  (j.errs, j.judged)

def judge (kv : KV) : Verdict :=
  let base := ViD.judge 0 kv
  let c := parseCase kv
  if c.crashed then base else
  let (errs, n) := judge08 c
  { base with specfails := (errs.take 3).map (fun s => (s.take 600).toString), tags := base.tags ++ (List.replicate n "judged") }

end Neatvi.Drive.ViSpec08
