import NeatviVerif.Drive.Common
import NeatviVerif.Model.ExCmd
namespace Neatvi.Drive.ExD
open Neatvi Neatvi.Lbuf Neatvi.Ex Neatvi.Drive

/-- dirty flag without the bump (as the probe peeks it) -/
def dirtyPeek (lb : Lb) : Bool := lb.unsaved || seqAt lb != lb.useqZero

def showStep (rc : Int) (ed : Ed) (fnames : List Bytes) : String :=
  let text := match ed.lb with | some lb => bytesHex lb.lines.flatten | none => "-"
  let bufs := ",".intercalate ((List.range ed.bufs.length).filterMap (fun i =>
    match ed.bufs.getD i none with
    | none => none
    | some b => some s!"{i}:{b.id}:{bytesHex b.path}:{b2s (dirtyPeek b.lb)}:{b.row}:{b.lb.lines.length}:{b.mtime}:{b.lb.histU}.{b.lb.hist.length}:{bytesHex b.lb.lines.flatten}"))
  let regKeys := (List.range 128).filter (fun i => i != 59 && i != 35 && i != 94 && i != 34 &&
    (i == 0 || Ex.isAlphaC i || Ex.isDigitC i || i == 47 || i == 37 || i == 58))
  let regs := ",".intercalate (regKeys.filterMap (fun i =>
    match ed.regs.getRaw i with
    | (some x, l) => some s!"{i}={l}={bytesHex x}"
    | (none, _) => none))
  let files := ",".intercalate (fnames.map (fun n =>
    match ed.findFile n with
    | some f => s!"{String.ofList (n.map (fun c => Char.ofNat c))}={bytesHex f.data}"
    | none => s!"{String.ofList (n.map (fun c => Char.ofNat c))}=A"))
  let marks := match ed.lb with
    | some lb => ".".intercalate ((lb.mark.take 27).map toString)
    | none => ""
  s!"{rc}|{ed.xrow}|{ed.xoff}|{if ed.xquit then 1 else 0}|{ed.len}|{text}|{bytesHex ed.out}|{bytesHex ed.msg}|{bufs}|{regs}|{files}|{marks}|{bytesHex ed.xkwd}.{ed.xkwddir}|{ed.fired}"

def parseFiles (s : String) : List (Bytes × Option Bytes) :=
  if s == "-" then [] else
  (s.splitOn ",").map (fun t =>
    match t.splitOn "=" with
    | [n, d] => (Ex.strOf n, if d == "A" then none else some (hexBytes d))
    | _ => ([], none))

/-- apply a harness directive to the model environment -/
def directive (ed : Ed) (ln : Bytes) : Ed :=
  let s := String.ofList (ln.map (fun c => Char.ofNat c))
  let ws := (s.splitOn " ").filter (· ≠ "")
  match ws with
  | ["@@touch", a] =>
    let p := Ex.strOf a
    (match ed.findFile p with
     | some f => { ed.putFile { f with mtime := ed.clock + 1 } with clock := ed.clock + 1 }
     | none => { ed with clock := ed.clock + 1 })
  | ["@@epoch", a] =>
    let p := Ex.strOf a
    (match ed.findFile p with
     | some f => ed.putFile { f with mtime := 0 }
     | none => ed)
  | ["@@writefile", a, b] =>
    { ed.putFile ⟨Ex.strOf a, hexBytes b, ed.clock + 1⟩ with clock := ed.clock + 1 }
  | ["@@rm", a] => { ed with files := ed.files.filter (fun f => f.path != Ex.strOf a) }
  | ["@@fault", a] =>
    { ed with faults := (a.splitOn ",").map (fun t =>
        match t.splitOn ":" with
        | [i, k] => (natOf i, (k.toList.headD 'e').toNat)
        | [i] => (natOf i, 101)
        | _ => (999999, 0)) }
  | _ => ed

structure RunOut where
  steps : List String
  trapped : Bool
  unmodelled : Bool
  /-- per main-loop line: (is directive, the line, the text-block lines it consumed) -/
  items : List (Bool × Bytes × List Bytes) := []
  /-- the model state before each item -/
  eds : List Ed := []

/-- run the whole script through the model -/
def runModel (files : List (Bytes × Option Bytes)) (opens : List Bytes) (script : List Bytes) : RunOut :=
  let fnames := files.map (·.1)
  let ed0 : Ed := files.foldl (fun (ed : Ed) f =>
    match f.2 with
    | some d => { ed.putFile ⟨f.1, d, ed.clock + 1⟩ with clock := ed.clock + 1 }
    | none => ed) ({} : Ed)
  match exInit ed0 opens with
  | none => { steps := ["trap"], trapped := true, unmodelled := false }
  | some (rc, ed) =>
    let first := showStep rc ed fnames
    let rec loop : Nat → Ed → List String → List (Bool × Bytes × List Bytes) → List Ed → RunOut
      | 0, _, acc, its, eds => { steps := acc, trapped := false, unmodelled := false, items := its, eds := eds }
      | f + 1, ed, acc, its, eds =>
        if ed.xquit then { steps := acc, trapped := false, unmodelled := ed.unmodelled, items := its, eds := eds } else
        match ed.input with
        | [] => { steps := acc, trapped := false, unmodelled := ed.unmodelled, items := its, eds := eds }
        | ln :: rest =>
          if ln.take 2 == [64, 64] then loop f (directive { ed with input := rest } ln) (acc ++ ["D"]) (its ++ [(true, ln, [])]) (eds ++ [ed])
          else
            match exStep ed with
            | none => { steps := acc ++ ["trap"], trapped := true, unmodelled := ed.unmodelled, items := its, eds := eds }
            | some (rc, ed') =>
              let used := rest.take (rest.length - ed'.input.length)
              loop f ed' (acc ++ [showStep rc ed' fnames]) (its ++ [(false, ln, used)]) (eds ++ [ed])
    loop (script.length + 2) { ed with input := script, out := [], msg := [] } [first] [] []

def fieldNames : List String := ["rc", "xrow", "xoff", "quit", "len", "text", "out", "msg", "bufs", "regs", "files", "marks", "kwd", "fired"]

def firstDiff (impl model : List String) : List String :=
  match (List.range (max impl.length model.length)).find? (fun i => impl.getD i "" != model.getD i "") with
  | none => []
  | some i =>
    let a := (impl.getD i "").splitOn "|"
    let b := (model.getD i "").splitOn "|"
    match (List.range (max a.length b.length)).find? (fun k => a.getD k "" != b.getD k "") with
    | some k => [s!"step#{i} {fieldNames.getD k "?"} impl={((a.getD k "").take 160).toString} model={((b.getD k "").take 160).toString}"]
    | none => [s!"step#{i} differs"]

/-- a file command whose path the virtual file system of the harness does not describe (directories,
names longer than the real file system accepts): such scripts are not compared -/
def foreignPath (ln : Bytes) : Bool :=
  let (_, rest) := exLoc ln
  let (cmd, rest) := exCmd rest
  let c := cmd.filter (· != 33)
  (c == strOf "w" || c == strOf "wq" || c == strOf "x" || c == strOf "e" || c == strOf "ew" || c == strOf "r" || c == strOf "xa" || c == strOf "wa"
    || c == strOf "write" || c == strOf "xit" || c == strOf "edit" || c == strOf "read")
    && (rest.contains 47 || rest.length > 200 || (rest.dropWhile isSpaceC).any (fun ch => !(isAlphaC ch || isDigitC ch || ch == 32 || ch == 35 || ch == 37)))

def judge (_mode : Nat) (kv : KV) : Verdict :=
  let files := parseFiles (kv.get "files")
  let opens := if kv.get "open" == "-" then [] else ((kv.get "open").splitOn ",").map Ex.strOf
  let script := if kv.get "script" == "-" then [] else ((kv.get "script").splitOn ",").map hexBytes
  -- the last field (how many scheduled faults fired) is coverage information, not an observable
  let strip (s : String) : String := "|".intercalate ((s.splitOn "|").take 13)
  let impl := ((kv.get "res").splitOn "/").map strip
  let m0 := runModel files opens script
  let m := { m0 with steps := m0.steps.map strip }
  let _ := m.items
  let crashed := kv.get "crash" == "1"
  let foreign := script.any (fun l => foreignPath l || (l.any (· == 124) && l.any (· == 47) && (l.any (· == 119) || l.any (· == 101))))
  let m := if foreign then { m with unmodelled := true } else m
  let d := if m.unmodelled then []
    else if crashed then (if m.trapped then [] else ["impl crashed but the model does not trap"])
    else firstDiff impl m.steps
  { diffs := d, specfails := [], nontrivial := script.length ≥ 2,
    tags := (if m.unmodelled then ["unmodelled"] else []) ++ (if m.trapped then ["modeltrap"] else []) }

end Neatvi.Drive.ExD
