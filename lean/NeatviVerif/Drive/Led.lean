import NeatviVerif.Drive.Common
import NeatviVerif.Model.Render
import NeatviVerif.Model.Vi
import NeatviVerif.Spec.Layout
/-! Correspondence and reference judgement for `led_render` (stream `led`). -/
namespace Neatvi.Drive.LedD
open Neatvi Neatvi.Drive Neatvi.Uc

/-- reference for plain left-to-right lines: column `c` of the window shows the character whose cell range
contains `c` (once, at its first cell; a character cut by a window edge is not shown), blanks elsewhere -/
def refRow (cps : List Nat) (cbeg cend : Int) : Option (List (Option Nat)) :=
  -- only lines of printable ASCII, tabs and wide CJK characters, ending in the newline
  if !(cps.all (fun c => (32 ≤ c && c < 127) || c == 9 || c == 10 || (0x4e00 ≤ c && c < 0x9fff))) then none else
  let starts := (List.range (cps.length + 1)).map (fun k => (cps.take k).foldl (fun p c => p + Spec.cellWidth c p) 0)
  let w := (cend - cbeg).toNat
  some ((List.range w).map (fun (k : Nat) =>
    let col : Int := cbeg + (k : Int)
    (List.range cps.length).find? (fun i =>
      let b : Int := starts.getD i 0; let e : Int := starts.getD (i + 1) 0
      b ≤ col && col < e && b ≥ cbeg && e ≤ cend)))

def judge (kv : KV) : Verdict :=
  let s := hexBytes (kv.get "line")
  let left := intOf (kv.get "left"); let cols := intOf (kv.get "cols")
  let o : Ren.Opts := { xorder := natOf (kv.get "order"), xlim := intOf (kv.get "lim"), xtd := intOf (kv.get "td") }
  let shape := kv.get "shape" != "0"
  let impl := kv.get "out"
  let m := Render.renderRow Vi.dirOracle o shape s left (left + cols)
  let d := match m with
    | some b => cmp "out" impl (bytesHex b)
    | none => if kv.get "crash" == "1" then [] else ["model traps"]
  -- reference: what the window must show
  let cps := Spec.decodeStr s.length s
  let ltr := Dir.dirContext Vi.dirOracle o.xtd s ≥ 0
  let sf : List String := match (if ltr then refRow cps left (left + cols) else none), m with
    | some cells, some _ =>
      -- decode the implementation's text into cells: one entry per character emitted, blanks for tabs / newline
      let outB := hexBytes impl
      let outC := Spec.decodeStr outB.length outB
      -- expected text: from the first column to the last occupied one
      let lastOcc := ((List.range cells.length).filter (fun k => (cells.getD k none).isSome)).getLast?.getD 0
      let rec build : Nat → Nat → List Nat → List Nat
        | 0, _, acc => acc
        | f + 1, k, acc =>
          if k > lastOcc || k ≥ cells.length then acc else
          match cells.getD k none with
          | none => build f (k + 1) (acc ++ [32])
          | some i =>
            let c := cps.getD i 32
            let span := ((List.range (cells.length - k)).takeWhile (fun d => cells.getD (k + d) none == some i)).length
            if c == 9 || c == 10 then build f (k + span) (acc ++ List.replicate span 32)
            else build f (k + span) (acc ++ [c])
      let want := if cells.all (·.isNone) then [] else build (cells.length + 2) 0 []
      -- the row is followed by "erase to end of line": trailing blanks do not change what is shown
      let strip (l : List Nat) : List Nat := (l.reverse.dropWhile (· == 32)).reverse
      if strip want == strip outC then [] else [s!"clause=row_shows_window_of_line left={left} cols={cols} want={bytesHex (Spec.encStr want)} got={impl}"]
    | _, _ => []
  let judged := ltr && (refRow cps left (left + cols)).isSome && m.isSome
  { diffs := d, specfails := sf, nontrivial := s.length > 1 && left + cols > 0,
    tags := (if judged then ["window_reference_applied"] else []) ++ (if !ltr then ["rtl_context"] else []) }

end Neatvi.Drive.LedD
