import Lean
/-!
Audit: `lake env lean --run Audit.lean NeatviVerif.Props.C16 Neatvi.Props.C16`
prints one line per declaration of the property namespace:
  THEOREM <name> axioms=<comma list>
  OTHER <kind> <name>
and a final `AUDIT theorems=<n> clean=<m>`; a theorem is clean when its axioms are within
{propext, Classical.choice, Quot.sound}.
-/
open Lean

def allowed : List Name := [``propext, ``Classical.choice, ``Quot.sound]

def isInternal (n : Name) : Bool :=
  n.isInternal || n.components.any (fun c => let s := c.toString; s.startsWith "_" || s.startsWith "match_" || s.startsWith "proof_" || s.startsWith "eq_")

def main (args : List String) : IO UInt32 := do
  initSearchPath (← findSysroot)
  let mod := args[0]!.toName
  let ns := args[1]!.toName
  let env ← importModules #[{module := mod}] {}
  let some midx := env.getModuleIdx? mod | do IO.println "AUDIT-ERROR module not found"; return 2
  let mut thms : Array Name := #[]
  let mut others : Array (String × Name) := #[]
  for (n, ci) in env.constants.map₁.toList do
    if ns.isPrefixOf n && env.getModuleIdxFor? n == some midx && !isInternal n then
      match ci with
      | .thmInfo _ => thms := thms.push n
      | .defnInfo _ => others := others.push ("def", n)
      | .axiomInfo _ => others := others.push ("axiom", n)
      | .opaqueInfo _ => others := others.push ("opaque", n)
      | _ => others := others.push ("other", n)
  let mut clean := 0
  let sorted := thms.qsort (fun a b => a.toString < b.toString)
  for n in sorted do
    let (axs, _) ← (Lean.collectAxioms n : CoreM (Array Name)).toIO
      { fileName := "<audit>", fileMap := default } { env := env }
    let bad := axs.filter (fun a => !allowed.contains a)
    if bad.isEmpty then clean := clean + 1
    IO.println s!"THEOREM {n} axioms={",".intercalate (axs.toList.map toString)}"
  for (k, n) in others do
    IO.println s!"OTHER {k} {n}"
  IO.println s!"AUDIT theorems={sorted.size} clean={clean}"
  return 0
