import NeatviVerif.Model.Bytes
import NeatviVerif.Model.Uc
import NeatviVerif.Spec.Utf8
import NeatviVerif.Lemmas.UcBits
