import NeatviVerif.Drive.Common
import NeatviVerif.Drive.C16
import NeatviVerif.Drive.Ren
import NeatviVerif.Drive.Lbuf
import NeatviVerif.Drive.Regex
import NeatviVerif.Drive.Ex
import NeatviVerif.Drive.ExJudge
import NeatviVerif.Drive.Vi
import NeatviVerif.Drive.ViSpec
import NeatviVerif.Drive.ViSpec08
import NeatviVerif.Drive.Led
/-!
Line-protocol driver.  Reads case lines (input + the implementation's observables, as printed by
the C harnesses) on stdin; for every line recomputes the model's observables and evaluates the
spec predicates of the property theorems on the implementation's values.  Prints
  DIFF <line-no> <stream> <field impl=.. model=..> | <original line>
  SPECFAIL <line-no> <stream> <clause=..> | <original line>
  BADCASE ...
  SUMMARY stream=<s> cases=.. diff=.. specfail=.. nontrivial=.. badcase=..
-/
open Neatvi Neatvi.Drive

def judge (stream : String) (kv : KV) : Option Verdict :=
  match stream with
  | "cp" => some (C16.judgeCp kv)
  | "str" => some (C16.judgeStr kv)
  | "ren17" => some (RenD.judge 17 kv)
  | "ren18" => some (RenD.judge 18 kv)
  | "shape" => some (RenD.judgeShape kv)
  | "rx10" => some (RegexD.judgeRx 10 kv)
  | "rx11" => some (RegexD.judgeRx 11 kv)
  | "rx12" => some (RegexD.judgeRx 12 kv)
  | "rset" => some (RegexD.judgeRset kv)
  | "ex" => some (ExD.judge 0 kv)
  | "ex04" => some (ExJ.judge 4 kv)
  | "ex06" => some (ExJ.judge 6 kv)
  | "ex14" => some (ExJ.judge 14 kv)
  | "ex15" => some (ExJ.judge 15 kv)
  | "ex02" => some (ExJ.judge 2 kv)
  | "ex01" => some (ExJ.judge 3 kv)
  | "ex03" => some (ExJ.judge 3 kv)
  | "ex20" => some (ExJ.judge 20 kv)
  | "ex16" => some (ExJ.judge 16 kv)
  | "vi" => some (ViSpec.judge 0 kv)
  | "vi05" => some (ViSpec.judge 5 kv)
  | "vi07" => some (ViSpec.judge 7 kv)
  | "vi13" => some (ViSpec.judge 13 kv)
  | "vi19" => some (ViSpec.judge 19 kv)
  | "vi16" => some (ViSpec.judge 16 kv)
  | "vi04" => some (ViSpec.judge 4 kv)
  | "vi20" => some (ViSpec.judge 20 kv)
  | "vi09" => some (ViSpec.judge09 kv)
  | "vi08" => some (ViSpec08.judge kv)
  | "lops04" => some (LbufD.judgeLops 4 kv)
  | "lops02" => some (LbufD.judgeLops 2 kv)
  | "rdwr01" => some (LbufD.judgeRdwr 1 kv)
  | "rdwr03" => some (LbufD.judgeRdwr 3 kv)
  | "led" => some (LedD.judge kv)
  | _ => none

partial def loop (h : IO.FS.Stream) (limit : Nat) (ln : Nat) (accs : List (String × Acc)) : IO (List (String × Acc)) := do
  let line ← h.getLine
  if line.isEmpty then return accs
  let (stream, kv) := parseLine line
  if stream == "" || stream.startsWith "#" then loop h limit (ln + 1) accs else
  let acc := (accs.lookup stream).getD {}
  -- a case on which the implementation crashed: only judges that model traps look at it
  if kv.get "crash" == "1" && !(stream.startsWith "ex") then
    loop h limit (ln + 1) ((stream, acc.bump "crashline") :: accs.filter (·.1 ≠ stream))
  else
  match judge stream kv with
  | none =>
    IO.println s!"BADCASE {ln} unknown-stream | {line.trimAscii.toString}"
    let acc := { acc with badcase := acc.badcase + 1 }
    loop h limit (ln + 1) ((stream, acc) :: accs.filter (·.1 ≠ stream))
  | some v =>
    let mut acc := { acc with cases := acc.cases + 1 }
    if v.nontrivial then acc := { acc with nontrivial := acc.nontrivial + 1 }
    for t in v.tags do acc := acc.bump t
    if let some b := v.bad then
      acc := { acc with badcase := acc.badcase + 1 }
      IO.println s!"BADCASE {ln} {b} | {line.trimAscii.toString}"
    if !v.diffs.isEmpty then
      acc := { acc with diff := acc.diff + 1 }
      if acc.printed < limit then
        acc := { acc with printed := acc.printed + 1 }
        IO.println s!"DIFF {ln} {stream} {"; ".intercalate v.diffs} | {line.trimAscii.toString}"
    if !v.specfails.isEmpty then
      acc := { acc with specfail := acc.specfail + 1 }
      if acc.printed < limit then
        acc := { acc with printed := acc.printed + 1 }
        IO.println s!"SPECFAIL {ln} {stream} {"; ".intercalate v.specfails} | {line.trimAscii.toString}"
    loop h limit (ln + 1) ((stream, acc) :: accs.filter (·.1 ≠ stream))

def main (args : List String) : IO UInt32 := do
  let limit := (args.head? >>= String.toNat?).getD 50
  let accs ← loop (← IO.getStdin) limit 1 []
  for (s, a) in accs.reverse do
    let ex := " ".intercalate (a.extra.map fun (k, v) => s!"{k}={v}")
    IO.println s!"SUMMARY stream={s} cases={a.cases} diff={a.diff} specfail={a.specfail} nontrivial={a.nontrivial} badcase={a.badcase} {ex}"
  return 0
