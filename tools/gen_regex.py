"""generators for the regex streams (`rx`, `rset`)"""
import itertools
from vlib import Rng, hexs

META = [c.encode() for c in "ab.*+?|()[]^$\\<>{}1,"]
LINE_ALPHA = [b"a", b"b", b"-"]

def rx(pat, line, flg=0, n=4):
    return "rx pat=%s line=%s flg=%d n=%d" % (hexs(pat), hexs(line), flg, n)

def small_lines(maxlen, alpha=LINE_ALPHA, nl=True):
    out = []
    for k in range(0, maxlen + 1):
        for t in itertools.product(alpha, repeat=k):
            out.append(b"".join(t) + (b"\n" if nl else b""))
    return out

def exhaustive_patterns(maxlen, alpha=META):
    for k in range(1, maxlen + 1):
        for t in itertools.product(alpha, repeat=k):
            yield b"".join(t)

def exhaustive_cases(patlen, linelen, flags=(0,), line_subset=None):
    lines = small_lines(linelen)
    if line_subset: lines = [l for i, l in enumerate(lines) if i % line_subset == 0] + [b"ab\n", b"a\n", b"\n"]
    for p in exhaustive_patterns(patlen):
        for l in lines:
            for f in flags:
                yield rx(p, l, f)

# ---- random ERE grammar
LITS = ["a", "b", "c", "ab", "A", "é", "€", "x", "_", "-", " ", "1"]
CLASSES = ["[ab]", "[^a]", "[a-c]", "[[:alpha:]]", "[[:digit:]_]", "[]a]", "[^]a]", "[a-]", "[é-ü]", "[[:upper:][:digit:]]", "[^[:space:]]", "[[:punct:]]", "[A-Z]"]

def gen_re(rng, depth=0):
    r = rng.below(20 if depth < 3 else 8)
    if r < 5: return rng.choice(LITS)
    if r < 6: return "."
    if r < 8: return rng.choice(CLASSES)
    if r < 10:
        base = gen_atom(rng, depth + 1)
        return base + rng.choice(["*", "+", "?", "{2}", "{1,2}", "{0,1}", "{2,}", "{0,}", "*", "?"])
    if r < 13: return gen_re(rng, depth + 1) + gen_re(rng, depth + 1)
    if r < 15: return gen_re(rng, depth + 1) + "|" + gen_re(rng, depth + 1)
    if r < 17: return "(" + gen_re(rng, depth + 1) + ")"
    if r < 18: return rng.choice(["^", "$", "\\<", "\\>"])
    return rng.choice(["\\.", "\\*", "\\(", "\\\\"])

def gen_atom(rng, depth):
    r = rng.below(6)
    if r < 3: return rng.choice(["a", "b", "é", ".", "-"])
    if r < 4: return rng.choice(CLASSES)
    return "(" + gen_re(rng, depth + 1) + ")"

LINE_POOL = ["a", "b", "c", "A", "B", "é", "€", " ", "-", "_", "1", "x", "ab", "\t", ".", "*", "("]

def gen_line(rng, maxlen=10):
    n = rng.below(maxlen + 1)
    return "".join(rng.choice(LINE_POOL) for _ in range(n)) + ("\n" if rng.below(10) else "")

# patterns whose first atom accepts the code points U+0080..U+00BF, against lines whose multi-byte characters have
# exactly those values as continuation bytes (a match must not start inside a character); and multi-byte
# characters that are not the first of their literal run, followed by a postfix operator
CONT_PATS = ["[«»]", "[¡-¿]", "[^é]", "[^a]", "[^ë]", "«+", "©", "[©«]", "[\u0080-\u00bf]", "[^a-z]", "¬", "[¬­]", "»*b", "(«|»)", "[^ ]", "­?x",
             "aé*", "café?", "ü€+", "xé{2}", "bß+", "aé*b", "éé*", "a€?", ".é*", "(aé)*", "xë|ë", "ab©*"]
CONT_LINES = ["Noël", "naïve û", "«ok»", "ë", "aë", "é©", "€", "a€b", "û«", "ü€€€", "aééé b", "caf x", "café", "xéé", "bßß", "a", "©", "ë«", "日本", "ab©©"]
def cont_byte_cases(rng, count):
    out = []
    for _ in range(count):
        p = rng.choice(CONT_PATS)
        l = rng.choice(CONT_LINES) + rng.choice(["", " ", rng.choice(CONT_LINES)]) + "\n"
        out.append(rx(p.encode(), l.encode(), rng.choice([0, 0, 1, 1, 2, 4]), rng.choice([1, 3, 4])))
    return out

def random_cases(rng, count):
    out = cont_byte_cases(rng, max(60, count // 8))
    for _ in range(count):
        p = gen_re(rng)
        if rng.below(6) == 0:
            p = rng.choice(["^", "\\<", ""]) + p + rng.choice(["$", "\\>", ""])
        for _ in range(3):
            out.append(rx(p.encode(), gen_line(rng).encode(), rng.choice([0, 0, 0, 1, 2, 4, 6, 1]), rng.choice([1, 3, 4, 6])))
    return out

def malformed_cases(rng, count):
    """random byte strings 1..255 (invalid UTF-8, unbalanced constructs, big/inverted bounds)"""
    out = []
    specials = [b"a{3,0}", b"a{5,2}", b"a{129}", b"a{128}", b"a{0,128}", b"a{1,129}", b"(a){4294967295}", b"a{4294967297}", b"a{,}", b"a{", b"a{1", b"a{1,",
                b"[", b"[a", b"[^", b"[[:alpha:", b"(", b"((", b")", b"a)", b"(a", b"\\", b"a\\", b"*", b"+a", b"a**", b"a*+", b"a|", b"|a", b"||", b"()", b"()*", b"(|)",
                b"\xc3", b"a\xc3", b"\xc0\x80", b"\xc0\x80.", b"x\xc0\x80", b"\xe2\x82", b"\xf0", b"\xf0\x9f", b"[\xc3]", b"[a-\xc3]", b"\xff", b"a\xe2", b"(" * 40 + b"a" + b")" * 40, b"(a)" * 40]
    # nested bounded repetitions: the program size is the product of the counts (beyond int with five levels of {128})
    def nest(k, rep): return b"(" * k + b"a" + (rep + b")") * k
    specials += [nest(3, b"{128}"), nest(4, b"{128}"), nest(5, b"{128}"), nest(6, b"{128}"), nest(10, b"{128}"), nest(30, b"{128}"), nest(5, b"{64,128}"),
                 nest(4, b"{100,}"), nest(2, b"{128}") + b"{60}", nest(2, b"{128}") + b"{3}", b"(a{128}|b{128}){128}", nest(3, b"{0,128}"), nest(2, b"{2}"), b"(a{1,2}){1,2}",
                 b"((a{128}){128}){8}", b"((a{128}){128}){7}", b"((a{128}){64}){16}", b"((ab){128}){100}"]
    lines = [b"a\n", b"aaa\n", b"\xc3\xa9\n", b"ab\n", b"\n", b"a", b"", b"aaaaaaaaaaaaaaaaaaaaaaaa\n"]
    for s in specials:
        for l in lines:
            out.append(rx(s, l, 0)); out.append(rx(s, l, 1))
    for _ in range(count):
        n = 1 + rng.below(rng.choice([3, 8, 64]))
        bs = bytes([1 + rng.below(255) for _ in range(n)]) if rng.below(2) else bytes([rng.choice(b"ab.*+?|()[]^$\\<>{}1,:=-\xc3\xa9\xe2") for _ in range(n)])
        out.append(rx(bs, rng.choice(lines), rng.below(2)))
    return out

def fast_grid(rng, litlen, linelen, flags=(0, 1, 2, 4, 6)):
    """C12: {^?}{\\<?}lit{\\>?}{$?} with literals over {a B - é} and lines over the same"""
    out = []
    alpha = [b"a", b"B", b"-", "é".encode()]
    lits = [b""] + [b"".join(t) for k in range(1, litlen + 1) for t in itertools.product(alpha, repeat=k)]
    lines = small_lines(linelen, [b"a", b"b", b"B", b"-", "é".encode()][: 4 if linelen > 3 else 5])
    for pre in (b"", b"^"):
        for wb in (b"", b"\\<"):
            for lit in lits:
                for we in (b"", b"\\>"):
                    for post in (b"", b"$"):
                        p = pre + wb + lit + we + post
                        if not p: continue
                        for l in lines:
                            f = flags[rng.below(len(flags))] if len(lines) > 100 else None
                            for fl in ([f] if f is not None else flags):
                                out.append(rx(p, l, fl, 3))
    return out

def class_cases():
    """every named class x every byte, and a few bracket shapes x every byte"""
    out = []
    names = ["alnum", "alpha", "blank", "digit", "lower", "print", "punct", "space", "upper", "word", "xdigit", "bogus"]
    for nm in names:
        for pat in ("[[:%s:]]" % nm, "[^[:%s:]]" % nm):
            for b in range(1, 128):
                for f in (0, 1):
                    out.append(rx(pat.encode(), bytes([b, 10]), f, 1))
    for pat in ("[a-f]", "[^a-f]", "[]-a]", "[A-Z_]", "."):
        for b in range(1, 256):
            ch = bytes([b]) if b < 128 else chr(b).encode("utf-8")     # U+0080..U+00FF as valid two-byte characters
            for f in (0, 1):
                out.append(rx(pat.encode(), ch + b"\n", f, 1))
    return out

def rset_cases(rng, count):
    out = []
    for _ in range(count):
        k = 1 + rng.below(4)
        pats = []
        for _ in range(k):
            pats.append("N" if rng.below(6) == 0 else hexs(gen_re(rng, 2).encode()))
        out.append("rset pats=%s line=%s flg=%d n=%d" % (";".join(pats), hexs(gen_line(rng).encode()), rng.choice([0, 0, 1, 2, 4]), 3))
    return out
