"""case generators for the vi-level stream (`vi file=<hex> rows= cols= screen= keys=<hex>`)"""
from vlib import hexs

WORDS = [b"foo", b"bar", b"baz_1", b"x", b"hello", b"world", b"a.b", b"(q)", b"{z}", b"[k]", b"if", b"end", b"42", b"--", b"a,b;c",
         "été".encode(), "中文".encode(), "سلام".encode(), "naïve".encode(), b"Foo", b"BAR", b"...", b"f(x)", b"e.g."]
INDENTS = [b"", b"", b"", b" ", b"  ", b"\t", b"\t\t", b" \t"]

def gen_line(rng, maxw=7):
    n = rng.below(maxw + 1)
    if n == 0 and rng.below(3): return b""
    parts = [rng.pick(WORDS) for _ in range(n)]
    sep = rng.pick([b" ", b" ", b"  ", b"\t"])
    return rng.pick(INDENTS) + sep.join(parts) + (b" " if rng.below(12) == 0 else b"")

def gen_file(rng, maxlines=12, long=False):
    k = rng.below(10)
    if k == 0: return None                      # file does not exist
    if k == 1: return b""
    n = 1 + rng.below(maxlines)
    if long: n = 30 + rng.below(60)
    lines = [gen_line(rng) for _ in range(n)]
    if rng.below(6) == 0:
        i = rng.below(n); lines[i] = b" ".join(rng.pick(WORDS) for _ in range(20 + rng.below(40)))   # a wide line
    data = b"\n".join(lines) + b"\n"
    if rng.below(25) == 0: data = data[:-1]     # no final newline
    return data

def cnt(rng):
    k = rng.below(10)
    if k < 6: return b""
    if k < 9: return str(1 + rng.below(5)).encode()
    return str(rng.pick([0, 7, 10, 12, 25, 99, 101, 300])).encode().lstrip(b"0")

CHARS = [b"a", b"o", b"x", b" ", b".", b"(", b")", b"b", b"f", b"z", b"_", "é".encode(), "中".encode(), "ل".encode(), b"\t", b",", b"1"]
PATS = [b"foo", b"ba.", b"o", b"^x", b"d$", b"[a-c]", b"\\<b", b"a\\>", b"x*", b"hello world", b"(", b"\\(", b"", "é".encode(), b"zz9", b"^$", b"^", b"$", b".", b"wor|ba", b"(a)(b)?", b"o+"]

def motion(rng):
    k = rng.below(42)
    c = cnt(rng)
    simple = [b"h", b"l", b"j", b"k", b"w", b"b", b"e", b"W", b"B", b"E", b"0", b"^", b"$", b"|", b"G", b"H", b"L", b"M", b"+", b"-", b"_",
              b"\n", b"{", b"}", b"%", b";", b",", b" ", b"\x7f", b"\x08", b"n", b"N"]
    if k < len(simple):
        m = simple[k]
        if m == b"0": return m
        return c + m
    k -= len(simple)
    if k == 0: return c + rng.pick([b"f", b"F", b"t", b"T"]) + rng.pick(CHARS)
    if k == 1:   # a find followed by its repeats in both directions
        return rng.pick([b"0", b"$", b""]) + c + rng.pick([b"f", b"F", b"t", b"T"]) + rng.pick(CHARS[:8]) + b"".join(cnt(rng) + rng.pick([b";", b","]) for _ in range(1 + rng.below(3)))
    if k == 2: return rng.pick([b"`", b"'"]) + rng.pick([b"a", b"b", b"'", b"`", b"z", b"[", b"]", b"^"])
    if k == 3: return c + rng.pick([b"/", b"?"]) + rng.pick(PATS) + rng.pick([b"\n", b"\n", b"\n", b"\x1b"])
    if k == 4: return c + b"/" + rng.pick(PATS) + b"/" + rng.pick([b"1", b"-1", b"+2", b"0", b"9"]) + b"\n"
    if k == 5: return c + b"\x01"
    if k == 6: return c + rng.pick([b"w", b"e", b"b", b"j", b"k", b"l", b"h"])
    if k == 7: return b"m" + rng.pick([b"a", b"b", b"z"])
    if k == 8: return c + rng.pick([b"\x04", b"\x15", b"\x06", b"\x02", b"\x05", b"\x19"])
    return c + rng.pick([b"z\n", b"z.", b"z-", b"G", b"gz"])

TEXTS = [b"abc", b"x y", b"", b" ", b"foo(bar)", "é中".encode(), b"one\ntwo", b"\tq", b"a\x08b", b"ab\x17c", b"zz\x15y", b"k.", b"1\n2\n3", b"  in",
         b"\x14t", b"\x04d", b"w\x16\x1bv", b"\n", b"q\n\n",
         # ^W / ^H / ^U after trailing blanks, over several words and over multi-byte text
         b"foo bar \x17X", b"alpha beta  \x17", b"one two\t\x17Z", b"x y \x17\x17q", "é中 ß \x17w".encode(), b"a.b  \x17c", b"ab  \x08\x08\x08c", b"k (q) \x17\x17",
         # ^K digraphs and ^R registers followed by multi-byte characters, ^Ra / ^R"
         "\x0b中x".encode(), "\x12éy".encode(), "\x0ba中".encode(), b"\x0be:", b"\x12a", b"\x12\"", "\x12€\x0b€€".encode(), b"\x0b\x0b"]

def reg(rng):
    k = rng.below(8)
    if k < 5: return b""
    return b'"' + rng.pick([b"a", b"b", b"A", b"1", b"2", b"z", b'"'])

def edit(rng):
    k = rng.below(30)
    c = cnt(rng)
    r = reg(rng)
    esc = rng.pick([b"\x1b", b"\x1b", b"\x1b", b"\x03"])
    if k == 0: return r + c + b"x"
    if k == 1: return r + c + b"X"
    if k == 2: return r + c + b"dd"
    if k == 3: return r + c + b"d" + motion(rng)
    if k == 4: return r + b"D"
    if k == 5: return r + c + b"c" + motion(rng) + rng.pick(TEXTS) + esc
    if k == 6: return c + rng.pick([b"i", b"a", b"I", b"A", b"o", b"O"]) + rng.pick(TEXTS) + esc
    if k == 7: return r + c + rng.pick([b"p", b"P"])
    if k == 8: return c + b"J"
    if k == 9: return c + b"r" + rng.pick(CHARS + [b"\n"])
    if k == 10: return c + b"~"
    if k == 11: return r + c + b"yy"
    if k == 12: return r + c + b"y" + motion(rng)
    if k == 13: return c + b"u"
    if k == 14: return c + b"\x12"
    if k == 15: return c + b"."
    if k == 16: return c + rng.pick([b">", b"<"]) + rng.pick([b">", b"<", b"j", b"k", b"}", b"G"])
    if k == 17: return c + b"g" + rng.pick([b"u", b"U", b"~"]) + motion(rng)
    if k == 18: return r + c + rng.pick([b"s", b"S", b"C"]) + rng.pick(TEXTS) + esc
    if k == 19: return r + b"Y"
    if k == 20: return b":" + rng.pick([b"s/o/0/", b"s/a/&&/g", b"1d", b"$d", b"1,2m$", b"%s/ba./X/", b"2", b"1,$y a", b"pu a", b"1,2co0", b"u", b"redo",
                                        b"k q", b"'qd", b".,+1d", b"g/o/d", b"s/\\(a\\)/[\\1]/", b"1,3p", b"=", b"\x1b", b"", b"se ic", b"se noic", b"se noai", b"se ai", b"w"]) + b"\n"
    if k == 21: return b"@" + rng.pick([b"a", b"b", b"@", b"z", b":"])
    if k == 22: return b"u" * (1 + rng.below(4))
    if k == 23: return b"\x12" * (1 + rng.below(3))
    if k == 24: return c + b"dw"
    if k == 25: return c + b"cw" + rng.pick(TEXTS) + esc
    if k == 26: return r + b"yw"
    if k == 27: return b"\x07"
    if k == 28: return r + c + b"d" + c + rng.pick([b"w", b"e", b"b", b"$", b"0", b"j", b"k", b"G", b"}", b"fa", b"tb", b"%"])
    return c + rng.pick([b"i", b"a", b"o"]) + rng.pick(TEXTS) + b"\n" + rng.pick(TEXTS) + esc

def case(file, keys, rows=24, cols=80, screen=0):
    return "vi file=%s rows=%d cols=%d screen=%d keys=%s" % ("A" if file is None else (hexs(file) if file else "-"), rows, cols, screen, hexs(keys) if keys else "-")

def geometry(rng):
    k = rng.below(6)
    if k < 3: return 24, 80
    if k == 3: return 6 + rng.below(6), 80
    if k == 4: return 24, 12 + rng.below(20)
    return 5 + rng.below(8), 10 + rng.below(30)

def motion_cases(rng, n, maxkeys=10):
    """cursor motions only (C07): the text must stay unchanged"""
    out = []
    for i in range(n):
        f = gen_file(rng, long=(rng.below(5) == 0))
        rows, cols = geometry(rng)
        ks = b"".join(motion(rng) for _ in range(1 + rng.below(maxkeys)))
        out.append(case(f, ks, rows, cols))
    return out

def u8_motion_cases(rng, n):
    """C16: character-wise motions over lines dense in multi-byte characters (2-, 3- and 4-byte, wide, combining):
    stepping to the previous character undoes stepping to the next, f/t/F/T/;/, count characters, not bytes"""
    import gen_ex
    out = []
    tg = ["x", "a", "é", "中", "€", "𝄞", "ß", " ", "b"]
    for i in range(n):
        f = ("\n".join((gen_ex.u8_line(rng) + rng.choice(tg) + gen_ex.u8_line(rng)) for _ in range(1 + rng.below(4))) + "\n").encode()
        parts = []
        for _ in range(1 + rng.below(8)):
            k = rng.below(10)
            c = rng.pick([b"", b"", b"2", b"3"])
            if k < 5: parts.append(c + rng.pick([b"f", b"t", b"F", b"T"]) + rng.choice(tg).encode())
            elif k < 7: parts.append(c + rng.pick([b";", b",", b";", b","]))
            else: parts.append(c + rng.pick([b"l", b"h", b"w", b"b", b"e", b"$", b"0", b"^", b"j", b"k", b" ", b"\x7f", b"|"]))
        out.append(case(f, b"".join(parts), 24, 80))
    return out

def edit_cases(rng, n, maxcmds=8, screen=0):
    """mixed motions and editing commands"""
    out = []
    for i in range(n):
        f = gen_file(rng, long=(rng.below(8) == 0))
        rows, cols = geometry(rng)
        parts = []
        for _ in range(1 + rng.below(maxcmds)):
            parts.append(motion(rng) if rng.below(5) < 2 else edit(rng))
        out.append(case(f, b"".join(parts), rows, cols, screen))
    return out

def u8_edit_cases(rng, n):
    """C16: character-wise commands and :s lines over lines dense in multi-byte characters"""
    import gen_ex
    out = []
    for i in range(n):
        f = ("\n".join(gen_ex.u8_line(rng) for _ in range(1 + rng.below(4))) + "\n").encode()
        parts = []
        for _ in range(1 + rng.below(7)):
            k = rng.below(10)
            if k < 3: parts.append(motion(rng))
            elif k < 7: parts.append(edit(rng))
            elif k == 7:
                # character-wise yank / delete of multi-byte text, put, then a cursor-relative command
                parts.append(rng.pick([b"0", b"", b"l", b"w"]) + rng.pick([b"2x", b"3x", b"yl", b"y2l", b"dw", b"yw", b"d3l"]) + rng.pick([b"", b"0", b"l", b"w"]) +
                             rng.pick([b"p", b"P", b"2p", b"3P"]) + rng.pick([b"rX", b"x", b"~", b"iZ\x1b", b"dl"]))
            else:
                parts.append((":%ss/%s/%s/%s\n" % (rng.choice(["", "%"]), rng.choice(gen_ex.U8_PATS), rng.choice(gen_ex.U8_REPS), rng.choice(["", "g"]))).encode())
        ks = b"".join(parts)
        if b"\x16" in ks: ks = ks.replace(b"\x16", b"")
        out.append(case(f, ks, 24, 80))
    return out

U8 = ["é", "ß", "中", "文", "ل", "ا", "م", "\u0301", "\u200c", "𝄞", "a", "Z", "ｗ"]
def junk_keys(rng, n):
    """arbitrary keys whose text is valid UTF-8: ASCII incl. control characters, and whole multi-byte characters"""
    out = b""
    for _ in range(n):
        k = rng.below(10)
        if k < 5: out += bytes([rng.pick(b"dcyxp.u@\"123 hjklwbe$0^GfFtT;,/?nN\n\x1b:iaoOIAJr~<>{}%'`m\x12\x04\x15|_-+HML\x01\x06\x02\x05\x19zgZsSCDXYPR")])
        elif k < 8: out += bytes([rng.below(128)])
        else: out += rng.pick(U8).encode()
    return out

def junk_cases(rng, n):
    """nonsensical and truncated key streams over valid UTF-8 text (C05)"""
    out = []
    for i in range(n):
        if i % 25 == 0:
            # pushback beyond the 4096-byte input buffer: a long change repeated with . and @ (count x length
            # around and beyond 4096)
            f = gen_file(rng)
            body = b"abcdefghijklmnopqrstuvwxyz0123456789 ABCDEFGHIJKLMNOPQRSTUVWXYZ."[:20 + rng.below(44)]
            ch = rng.pick([b"o", b"O", b"o"]) + body + b"\x1b"      # a new line each time: lines stay short
            n = len(ch)
            cnts = [4096 // n - 1, 4096 // n, 4096 // n + 1, 4096 // n + 2, 2 * (4096 // n) + 3, 4096, 1]
            big = str(rng.pick(cnts)).encode()
            ks = rng.pick([ch + big + b".", ch + big + b"." + b"3.", b"Oo" + body + b"\x16\x1b\x1b^\"qy$" + big + b"@q", ch + b"2." + big + b"."])
            out.append(case(f, ks, 24, 80)); continue
        if i % 25 == 13:
            # counts of nine to twenty digits (beyond int), single and doubled, with commands whose work does not
            # grow with the count
            f = gen_file(rng)
            def big():
                k = rng.below(6)
                if k == 0: return str(rng.pick([2147483647, 2147483648, 4294967295, 4294967296, 4294967297, 999999999, 1000000000])).encode()
                return bytes(rng.pick(b"123456789") for _ in range(1)) + bytes(rng.pick(b"0123456789") for _ in range(8 + rng.below(12)))
            cheap = [b"x", b"X", b"G", b"|", b"l", b"h", b"j", b"k", b"w", b"b", b"e", b"W", b"B", b"E", b"$", b"_", b"+", b"-", b"H", b"L", b"M", b"~", b"rZ", b"J", b">>", b"<<",
                     b"dd", b"yy", b"D", b"\x05", b"\x19", b"\x06", b"\x02", b"\x04", b"\x15", b"fo", b"to", b"Fo", b";", b",", b"n", b"%", b"z\n", b"z.", b"dw", b"yj", b"dl", b"g~w", b">j", b"d$", b"c$x\x1b", b"sx\x1b"]
            parts = []
            for _ in range(1 + rng.below(5)):
                c = rng.pick(cheap)
                if rng.below(3) == 0 and len(c) == 2 and c[:1] in b"dyc>g": parts.append(big() + c[:1] + big() + c[1:])
                else: parts.append(big() + c)
                if rng.below(3) == 0: parts.append(motion(rng))
            out.append(case(f, b"".join(parts), 24, 80)); continue
        if i % 25 == 7:
            # fixed-size buffers of the insert-mode line editor: indentation that accumulates over several typed
            # lines (the 128-byte auto-indent array), ^T / ^D runs, very long typed lines
            f = gen_file(rng)
            blanks = lambda: (rng.pick([b" ", b" ", b"\t"]) * rng.pick([60, 64, 100, 126, 127, 128, 130, 200]))
            parts = [rng.pick([b"o", b"O", b"A", b"i", b"cc", b"S"])]
            for _ in range(2 + rng.below(3)):
                parts.append(rng.pick([blanks(), blanks(), b"\x14" * rng.pick([8, 16, 17, 40]), b""]) + rng.pick([b"a", b"b c", b"", "é".encode()]) + b"\n")
            parts.append(rng.pick([b"z", b"\x04\x04z", b"x" * rng.pick([100, 500, 1100])]) + b"\x1b")
            out.append(case(f, b"".join(parts), 24, 80)); continue
        if i % 25 == 19:
            # positions that outlive the text they pointed into: a mark remembered at a column of a line that is then
            # shortened, used with an operator (`x); a NUL key between an operator and its motion on a long line above
            # a short one
            f = b"hello world, a long line here\nb\nc d\n\nlast one is longer again\n"
            if rng.below(2):
                ks = rng.pick([b"", b"j", b"G", b"4j"]) + rng.pick([b"$", b"$h", b"5l", b"w"]) + b"m" + rng.pick([b"a", b"b", b"z"])[:1]
                mk = ks[-1:]
                ks += rng.pick([b"0D", b"0dw", b"0d$", b"xxxx0D", b":s/.*//\n", b"0Cx\x1b", b"dd", b"ddk", b"0d2w"])
                ks += rng.pick([b"d", b"y", b"c", b"g~", b">", b"\"qd", b"!", b""]) + b"`" + mk + rng.pick([b"", b"z\x1b", b"tr a-z A-Z\n"])
                ks += rng.pick([b"", b"`" + mk + b"x", b"u", b"'" + mk])
            else:
                ks = rng.pick([b"$", b"$", b"10l", b"G$k", b""]) + rng.pick([b"d", b"y", b"c", b"g~", b">", b"", b"2d"]) + rng.pick([b"2", b"", b"3", b"1"]) + b"\x00" + \
                     rng.pick([b"l", b" ", b"h", b"\x7f", b"w", b"e", b"$", b"fo", b"/b\n", b"j", b"x"]) + rng.pick([b"", b"z\x1b", b"u"])
            out.append(case(f, ks, 24, 80)); continue
        f = gen_file(rng, long=(rng.below(10) == 0))
        m = rng.below(4)
        if m < 2: ks = junk_keys(rng, 1 + rng.below(50))
        else:
            ks = b"".join((motion(rng) if rng.below(2) else edit(rng)) for _ in range(1 + rng.below(12)))
            if m == 3:
                cut = rng.below(len(ks) + 1)
                while cut > 0 and cut < len(ks) and (ks[cut] & 0xC0) == 0x80: cut -= 1     # not inside a multi-byte character
                ks = ks[:cut] + junk_keys(rng, rng.below(8)) + ks[cut:]
        rows, cols = geometry(rng)
        if rng.below(8) == 0: rows, cols = 2 + rng.below(4), 2 + rng.below(8)
        out.append(case(f, ks, rows, cols))
    return out

SPATS = [b"foo", b"ba.", b"o", b"^x", b"d$", b"[a-c]", b"\\<b", b"a\\>", b"\\<a", b"x*", b"hello world", b"\\(", b"", "é".encode(), b"zz9", b"^$", b"^", b"$", b".",
         b"wor|ba", b"(a)(b)?", b"o+", b"\\<", b"\\>", b"[[:space:]]b", b"l\\>", b"\\<if\\>", b"e.g", b"\\.", "文".encode(), "ل".encode(), b"F", b"BAR", b" +", b"\t", b"^ ", b"^\t*", b"k\\]", b"\\<e"]

def search_cases(rng, n, maxcmds=8):
    """sequences of / ? n N ^A (with counts and line offsets) mixed with a few motions (C13)"""
    out = []
    for i in range(n):
        f = gen_file(rng, long=(rng.below(6) == 0))
        rows, cols = geometry(rng)
        parts = []
        if i % 20 == 11:
            # how the pattern is cut out of the typed text: escaped delimiters, escaped backslashes before the
            # closing delimiter, a closing delimiter followed by an offset
            f = b"start\na/b x?y\na\\b\na/b\n\\ end\\\na?b\n"
            for _ in range(1 + rng.below(4)):
                d = rng.pick([b"/", b"?"])
                pat = rng.pick([b"a\\\\", b"\\\\", b"a\\" + d, b"a\\" + d + b"b", b"\\\\\\" + d, b"x\\?y", b"a\\\\b", b"end\\\\", b"a", b"\\\\ end"])
                parts.append(rng.pick([b"1G", b"G", b"", b"3G"]) + d + pat + rng.pick([d, d, b"", d + b"1", d + b"-1"]) + b"\n")
                if rng.below(2): parts.append(rng.pick([b"n", b"N"]))
            out.append(case(f, b"".join(parts), rows, cols)); continue
        if i % 20 == 3:
            # patterns that match the empty string, scanned backward over lines that start with or hold multi-byte characters
            f = "abc\nété\nxyz\n中文 été\n€\n\nß end\n".encode()
            pat = rng.pick([b"^", b"\\<", b"x*", b"a?", "é*".encode(), b"$", b"\\>", b"[a-z]*", b"(b|)"])
            d = rng.pick([b"/", b"?", b"?"])
            parts = [rng.pick([b"G", b"1G", b"2G$", b"4G", b"5G", b"3G"]), d + pat + b"\n"]
            for _ in range(1 + rng.below(4)):
                parts.append(rng.pick([b"", b"", b"2", b"3"]) + rng.pick([b"N", b"N", b"n", d + b"\n"]))
            parts.append(b"iX\x1b")
            out.append(case(f, b"".join(parts), rows, cols)); continue
        if i % 20 == 7:
            # matches that touch or overlap: a counted n / N / ^A must equal the same key typed that many times
            f = "ab.abab..ab\néé.éééé.éé x\naaaa aa a\nabab abab\nxx\n".encode()
            pat = rng.pick([b"ab", "éé".encode(), b"aa", b"a", b"abab", "é".encode(), b"b"])
            d = rng.pick([b"/", b"/", b"?"])
            parts = [rng.pick([b"1G", b"2G", b"3G", b"G", b"4G$"]), d + pat + b"\n"]
            for _ in range(1 + rng.below(5)):
                parts.append(rng.pick([b"", b"", b"2", b"3", b"4"]) + rng.pick([b"n", b"n", b"N", b"N", b"\x01", d + b"\n"]))
                if rng.below(4) == 0: parts.append(rng.pick([b"0", b"$", b"l", b"h", b"j", b"k", b"w"]))
            out.append(case(f, b"".join(parts), rows, cols)); continue
        for _ in range(1 + rng.below(maxcmds)):
            k = rng.below(12)
            c = cnt(rng) if rng.below(4) == 0 else b""
            if k < 4:
                d = rng.pick([b"/", b"?"])
                pat = rng.pick(SPATS)
                if rng.below(3) == 0 and f:
                    ws = [w for w in f.split() if w and b"/" not in w and b"?" not in w and b"\\" not in w and b"[" not in w and b"(" not in w and b"*" not in w and b"." not in w and b"{" not in w]
                    if ws: pat = rng.pick(ws)[:1 + rng.below(4)]
                    try: pat.decode()
                    except UnicodeDecodeError: pat = b"o"
                pat = pat.replace(d, b"\\" + d)
                off = rng.pick([b"", b"", b"", b"", d + b"1", d + b"-1", d + b"+2", d + b"0", d])
                parts.append(c + d + pat + off + b"\n")
            elif k < 7: parts.append(c + rng.pick([b"n", b"N"]))
            elif k == 7: parts.append(c + b"\x01")
            else: parts.append(rng.pick([b"j", b"k", b"w", b"b", b"$", b"0", b"G", b"1G", b"l", b"h", b"3l", b"e"]))
        out.append(case(f, b"".join(parts), rows, cols))
    return out

CHANGES = [b"x", b"3x", b"X", b"dd", b"2dd", b"dw", b"d2w", b"2dw", b"de", b"d$", b"D", b"cwNEW\x1b", b"c2wa b\x1b", b"ccline\x1b", b"ifoo \x1b", b"abar\x1b", b"Aend\x1b", b"I> \x1b",
           b"onew line\x1b", b"Oabove\x1b", b"ia\nb\x1b", "iéé中\x1b".encode(), b"p", b"P", b"2p", b"J", b"3J", b"rZ", b"2rq", b"~", b"4~", b">>", b"<<", b">j", b"sXY\x1b", b"Sall\x1b",
           b"Cend\x1b", b"\"add", b"\"ayw", b"\"ap", b"\"Add", b"yw", b"yy", b"Y", b"g~w", b"gUw", b"guu"[:2] + b"w", b"dfo", b"dtb", b"d/o\n", b"c/a\nZ\x1b", b"i\x16\x1bx\x1b", b"ia\x08b\x1b", b"i12\x17 3\x1b", b"d0", b"dG", b"dj", b"dk", b"d%", b"cl\x1b", b"r\n",
           # a NUL key inside the recorded change (a no-op while typing; the record must keep what follows it)
           b"ia\x00b\x1b", b"A\x00z\x1b", b"cwq\x00r\x1b", b"ox\x00\x00y\x1b"]

def repeat_cases(rng, n):
    """pairs (A, B): A uses '.' / 'N.' / '@r', B retypes the keys; both end with the same tail (C09)"""
    out = []
    for i in range(n):
        f = gen_file(rng)
        if f is None or len(f) < 4: f = b"foo bar baz\nhello (q) world\n  two  three\n\nlast line x\n"
        rows, cols = geometry(rng)
        safe = [b"j", b"w", b"l", b"0", b"$", b"k", b"2w", b"b", b"+", b"", b"3l", b"G", b"1G", b"e", b"W", b"}", b"fo", b"2j", b"^"]
        pre = b"".join(rng.pick(safe) for _ in range(rng.below(4)))
        mid = b"".join(rng.pick(safe) for _ in range(rng.below(3)))
        tail = rng.pick([b"", b"", b"u", b"j", b"p", b"\x07"])
        kind = rng.below(10)
        if i % 40 == 5:
            # a recorded change of several hundred to a few thousand keys (below the 4 KiB recording buffer)
            unit = rng.pick([b"z", b"word ", "é".encode(), "中x".encode(), b"ab"])
            body = unit * (rng.pick([300, 505, 509, 512, 600, 1000]) // len(unit) + 1)
            ch = rng.pick([b"i", b"a", b"A", b"o", b"cw"]) + body + b"\x1b"
            first = rng.pick([b"x", b"dd", b""])
            a = pre + first + ch + b"j0" + b"." + tail
            b = pre + first + ch + b"j0" + ch + tail
            out.append((case(f, a, rows, cols), case(f, b, rows, cols))); continue
        if kind < 6:
            ch = rng.pick(CHANGES)
            k = rng.pick([1, 1, 1, 2, 3])
            dot = (str(k).encode() if k > 1 or rng.below(4) == 0 else b"") + b"."
            a = pre + ch + mid + dot + tail
            b = pre + ch + mid + ch * k + tail
        elif kind < 8:
            # two repeats in a row
            ch = rng.pick(CHANGES)
            a = pre + ch + mid + b"." + mid + b"." + tail
            b = pre + ch + mid + ch + mid + ch + tail
        else:
            # macro: the register text is a line of the file, yanked into register q by "qy$ / "qyy
            macro = rng.pick([b"x", b"dw", b"ihi \x1b", b"A!\x1b", b"wx", b"2x", b"dd", b"rZl", b"~~", b"Jx", b"x.", b"A1\x1b.A2\x1b", b"dwwP", b"ia\x1b.l",
                              "Aéé\x1b0xx".encode(), "i中\x1bx".encode(), "r€lx".encode(), "A𝄞!\x1bhx".encode(), "fédw".encode(), "ié\x1b.x".encode()])
            text = macro.replace(b"\x1b", b"\x16\x1b")
            setup = b"O" + text + b"\x1b^\"qy$dd"
            k = rng.pick([1, 1, 2])
            a = pre + setup + mid + (str(k).encode() if k > 1 else b"") + b"@q" + tail
            b = pre + setup + mid + macro * k + tail
        out.append((case(f, a, rows, cols), case(f, b, rows, cols)))
    return out

def window_cases(rng, n):
    """two files, split windows (^Ws ^Wj ^Wk ^Wo ^Wc ^Wx), :e / :b between them, small edits and motions (C20)"""
    out = []
    for i in range(n):
        fa = gen_file(rng) or b"a1\na2\na3\n"
        fb = b"".join(b"b%d line\n" % k for k in range(1, 3 + rng.below(6)))
        rows, cols = geometry(rng)
        rows = max(rows, 8)
        parts = []
        for _ in range(3 + rng.below(10)):
            r = rng.below(14)
            if r < 6: parts.append(b"\x17" + rng.pick([b"s", b"s", b"j", b"k", b"o", b"c", b"x", b"j", b"o"]))
            elif r < 8: parts.append(rng.pick([b":e fb\n", b":e fa\n", b":e #\n", b":b 1\n", b":b 2\n", b":e! fb\n", b":e! fa\n"]))
            elif r < 11: parts.append(rng.pick([b"x", b"dd", b"ihi \x1b", b"Aend\x1b", b"p", b"J", b"u"]))
            else: parts.append(rng.pick([b"j", b"G", b"1G", b"w", b"$", b"k"]))
        c = case(fa, b"".join(parts), rows, cols)
        out.append(c.replace(" rows=", " file2=" + hexs(fb) + " rows=", 1))
    return out

def undo_cases(rng, n):
    """vi commands that change the text, motions between them, u and ^R; some with the ruler switched off or
    restricted (`:se noru`, `ru=0/2/4`: the ruler must not be what separates the undo steps) (C04)"""
    out = []
    ch = [b"x", b"3x", b"dd", b"dw", b"D", b"ifoo \x1b", b"abar\x1b", b"Aend\x1b", b"onew\x1b", b"Oabove\x1b", b"ia\nb\x1b", "iéé\x1b".encode(), b"p", b"P", b"J", b"rZ", b"~",
          b">>", b"<<", b"cwNEW\x1b", b"ccline\x1b", b"sX\x1b", b"yyp", b"ddp", b"2dd", b">j", b"3J", b"xp", b"g~w", b"dG", b"dk"]
    mv = [b"j", b"k", b"w", b"0", b"$", b"G", b"1G", b"l", b"b", b""]
    for i in range(n):
        f = gen_file(rng)
        if f is None or len(f) < 4: f = b"one two\nthree four\nfive\n  six\nseven\n"
        rows, cols = geometry(rng)
        parts = []
        if rng.below(3) == 0: parts.append(rng.pick([b":se noru\n", b":se ru=0\n", b":se ru=2\n", b":se ru=4\n", b":se ru=1\n"]))
        for _ in range(2 + rng.below(8)):
            r = rng.below(10)
            if r < 5: parts.append(rng.pick(mv) + rng.pick(ch))
            elif r < 8: parts.append(b"u" * (1 + rng.below(3)))
            elif r < 9: parts.append(b"\x12")
            else: parts.append(rng.pick(mv))
        parts.append(b"u" * rng.below(4))
        out.append(case(f, b"".join(parts), rows, cols))
    return out

def op_cases(rng, n, maxcmds=7):
    """operators with motions that mostly succeed, register prefixes, puts, joins, replaces, plain inserts (C08)"""
    out = []
    common = [b"a", b"o", b"e", b" ", b"b", b"f", b"l", b".", b"(", b")", b"x", "é".encode(), "中".encode(), b"\t", b"r", b"z"]
    movers = [b"w", b"b", b"e", b"W", b"B", b"E", b"h", b"l", b"j", b"k", b"0", b"^", b"$", b"G", b"+", b"-", b"_", b"%", b"{", b"}", b"H", b"M", b"L", b" ", b"\x7f", b"|"]
    for i in range(n):
        f = gen_file(rng, long=(rng.below(10) == 0))
        rows, cols = geometry(rng)
        parts = []
        if i % 15 == 6:
            # line-wise changes in both directions over lines of different indentation, auto-indent on and off:
            # the replacement takes the indentation of the first line of the region
            f = b"top\n\tone\n\t\t\ttwo\n  three\n\t four\nend\n"
            parts = [rng.pick([b":se ai\n", b":se ai\n", b":se noai\n", b""]), rng.pick([b"2G", b"3G", b"4G", b"5G", b"G"]),
                     rng.pick([b"c", b"2c", b"\"ac"]) + rng.pick([b"k", b"-", b"j", b"+", b"c", b"1G", b"G", b"{", b"}", b"2k", b"'a"]), rng.pick([b"xyz", b"a\nb", b" q", b""]) + b"\x1b",
                     rng.pick([b"", b"u", b".", b"j."])]
            out.append(case(f, b"".join(parts), rows, cols)); continue
        for _ in range(1 + rng.below(maxcmds)):
            k = rng.below(20)
            c = rng.pick([b"", b"", b"", b"2", b"3", b"5", b"12"])
            r = rng.pick([b"", b"", b"", b'"a', b'"b', b'"A', b'""', b'"1', b'"z', b'"B'])
            rp = rng.pick([r, r, r, b'"#', b'"^', b'";', b'"2', b'"9'])        # registers for puts
            if k < 4:      # position the cursor
                parts.append(rng.pick([b"", b"2", b"3"]) + rng.pick(movers))
            elif k < 9:
                op = rng.pick([b"d", b"d", b"y"])
                c2 = rng.pick([b"", b"", b"", b"2", b"3"])
                m = rng.pick(movers + [b"f", b"F", b"t", b"T", b"f", b"F", b";", b",", b";"] + [op])
                if m in (b"f", b"F", b"t", b"T"): m += rng.pick(common)
                parts.append(r + c + op + c2 + m)
            elif k < 11:
                if rng.below(3) == 0:      # an operator with % from either bracket
                    parts.append(rng.pick([b"f)", b"f(", b"f]", b"f[", b"f}", b"f{", b"$", b"0"]) + r + rng.pick([b"d", b"y"]) + b"%")
                else: parts.append(r + c + rng.pick([b"x", b"X", b"D", b"Y"]))
            elif k < 14: parts.append(rp + rng.pick([b"", b"", b"2", b"3"]) + rng.pick([b"p", b"P"]))
            elif k == 14: parts.append(rng.pick([b"", b"2", b"3", b"4"]) + b"J")
            elif k == 15: parts.append(rng.pick([b"", b"2", b"3"]) + b"r" + rng.pick(common[:12]))
            elif k == 16: parts.append(rng.pick([b"", b"2", b"5", b"40"]) + b"~")
            elif k == 17: parts.append(rng.pick([b"i", b"a", b"I", b"A"]) + rng.pick([b"abc", b"x y", b"foo(bar)", "é中".encode(), b"k.", b"Z"]) + b"\x1b")
            elif k == 18: parts.append(b"u")
            else: parts.append(rng.pick([b"\x12", b"u", b"."]))
        out.append(case(f, b"".join(parts), rows, cols))
    return out

def screen_cases(rng, n, maxcmds=9):
    """motions, scrolls, edits, undo/redo and ex commands with the emulated screen dumped at every boundary (C19)"""
    out = []
    scrolls = [b"\x04", b"\x15", b"\x06", b"\x02", b"\x05", b"\x19", b"z\n", b"z.", b"z-", b"G", b"1G", b"H", b"L", b"M", b"3\x05", b"2\x19", b"5j", b"5k", b"}", b"{", b"$", b"0", b"30|", b"w", b"10l"]
    for i in range(n):
        f = gen_file(rng, long=(rng.below(2) == 0))
        rows, cols = geometry(rng)
        if rng.below(3) == 0: rows = 4 + rng.below(6)
        parts = []
        if i % 10 == 8:
            # yanks that move the cursor (backward motions): the cursor cell and the column used by j / k must follow
            f = b"alpha beta gamma delta\n0123456789abcdefghij\nshort\n" + b"x" * 100 + b" end of a long line\nlast\n"
            parts = [rng.pick([b"", b"j", b"3j", b"G"]), rng.pick([b"$", b"$", b"10l", b"w", b"2w", b"$h"]), rng.pick([b"", b"ma0", b""]),
                     rng.pick([b"y", b"\"ay", b"2y"]) + rng.pick([b"b", b"B", b"h", b"0", b"^", b"Fa", b"Ta", b"3h", b"k", b"-", b"`a", b"?a\n", b"w", b"$"]),
                     rng.pick([b"", b"j", b"k", b"x", b"\x05", b"jx", b"p"])]
            out.append(case(f, b"".join(parts), rows, cols, screen=1)); continue
        if i % 10 == 4:
            # a change whose motion goes back over line boundaries while the typed text brings new lines:
            # the rows are inserted while the replacement is being typed
            f = b"".join(b"line%02d x\n" % k for k in range(1, 21 + rng.below(30)))
            parts = [rng.pick([b"6G", b"9G", b"3G", b"G", b"12G", b"\x04", b"L", b"M"]),
                     rng.pick([b"c", b"c", b"2c", b"\"ac"]) + rng.pick([b"k", b"-", b"{", b"1G", b"H", b"2k", b"3k", b"?line\n", b"j", b"}", b"G", b"L", b"+"]),
                     rng.pick([b"AAA\nBBB", b"\n", b"a\nb\nc\nd", b"x\n\ny", b"one", b"\n\n\n"]) + b"\x1b", rng.pick([b"", b"j", b"k", b"u", b"\x05"])]
            out.append(case(f, b"".join(parts), rows, cols, screen=1)); continue
        for _ in range(1 + rng.below(maxcmds)):
            k = rng.below(10)
            if k < 4: parts.append(rng.pick(scrolls))
            elif k < 6: parts.append(motion(rng))
            elif k < 9: parts.append(edit(rng))
            else: parts.append(rng.pick([b"u", b"\x12", b"dd", b"3dd", b"p", b"P", b"yyP", b"J", b"onew\x1b", b"Oup\x1b", b"5dd", b"dG", b":1,3d\n", b":$\n", b":1\n", b":2,3m0\n", b"\x0c"]))
        out.append(case(f, b"".join(parts), rows, cols, screen=1))
    return out
