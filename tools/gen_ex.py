"""generators for the `ex` stream: scripts of ex input lines run through the real ex_command()"""
from vlib import Rng, hexs

WORDS = ["one", "two", "three", "foo", "bar", "foo bar", "", "a", "x y z", "héllo", "日本", "  ind", "end.", "a/b", "m1", "m2", "aaa", "abab"]

def hx(s):
    return hexs(s.encode() if isinstance(s, str) else s)

def case(files, opens, lines):
    fs = ",".join("%s=%s" % (n, (hx(c) if c is not None else "A")) for n, c in files) or "-"
    return "ex files=%s open=%s script=%s" % (fs, ",".join(opens) or "-", ",".join(hx(l) for l in lines) or "-")

def rand_content(rng, maxlines=7):
    n = rng.below(maxlines + 1)
    s = "\n".join(rng.choice(WORDS) for _ in range(n))
    if n and rng.below(6) != 0: s += "\n"
    return s

def addr(rng, n):
    """one address"""
    r = rng.below(16)
    if r < 5: a = str(rng.below(n + 2))
    elif r < 7: a = "."
    elif r < 9: a = "$"
    elif r < 10: a = "'" + rng.choice("abx")
    elif r < 11: a = "/" + rng.choice(["foo", "o", "^a", "zz", "t.o", ""]) + "/"
    elif r < 12: a = "?" + rng.choice(["foo", "e$", "b"]) + "?"
    else: a = ""
    if rng.below(5) == 0:
        a += rng.choice(["+", "-", "+1", "-1", "+2", "-2", "++"])
    # numbers beyond int: they must be out of range, not wrap around to a small line number
    if rng.below(40) == 0:
        big = rng.choice(["2147483647", "2147483648", "4294967296", "4294967297", "4294967298", "99999999999", "18446744073709551617"])
        a = rng.choice([big, a + "+" + big, a + "-" + big, a + "+" + big + "-" + big, "1+" + big + "+" + big + "+" + big + "+" + big])
    return a

def region(rng, n):
    r = rng.below(12)
    if r < 4: return ""
    if r < 7: return addr(rng, n)
    if r < 9: return addr(rng, n) + "," + addr(rng, n)
    if r < 10: return addr(rng, n) + ";" + addr(rng, n)
    if r < 11: return "%"
    return addr(rng, n) + "," + addr(rng, n) + "," + addr(rng, n)

def text_block(rng):
    k = rng.below(4)
    return [rng.choice(WORDS) for _ in range(k)] + ["."]

def line_cmd(rng, n):
    """one command from the C06 set; returns the list of input lines it consumes"""
    r = rng.below(30)
    reg = rng.choice(["", "", " a", " b", " A", " x"])
    if r < 4: return [region(rng, n) + rng.choice(["a", "i", "c"])] + text_block(rng)
    if r < 7: return [region(rng, n) + "d" + reg]
    if r < 9: return [region(rng, n) + "y" + reg]
    if r < 12: return [region(rng, n) + "pu" + reg]
    if r < 14: return [region(rng, n) + "p"]
    if r < 15: return [region(rng, n) + "="]
    if r < 17: return [region(rng, n) + "k" + rng.choice("abx")]
    if r < 18: return [region(rng, n)]
    if r < 19: return ["rs " + rng.choice("abx")] + text_block(rng)
    if r < 20:
        if rng.below(3) == 0:   # filters and command reads through the closed shell of the harness
            sh = rng.choice(["cat", "tr a-z A-Z", "sed 1q", "true", "printf x", "nosuchcmd"])
            return [region(rng, n) + rng.choice(["!", "!", "r !"]) + sh]
        return [region(rng, n) + "r " + rng.choice(["fa", "fb", "nofile"])]
    if r < 22: return ["u"]
    if r < 23: return ["redo"]
    if r < 24: return [region(rng, n) + "@" + rng.choice("abx")]
    if r < 26: return [region(rng, n) + "s/" + rng.choice(["o", "a*", "^", "foo", "x*", "$", "\\(o\\)", "(o)(.)", "é", "."]) + "/" + rng.choice(["X", "", "[\\0]", "\\1\\2", "-", "\\\\", "é"]) + "/" + rng.choice(["", "g"])]
    if r < 27: return [rng.choice(["g", "v", "g!"]) + "/" + rng.choice(["o", "a", "^$", "m", "foo"]) + "/" + rng.choice(["d", "s/o/0/", "pu a", "-1d", "+1d", "k a", "p", "-2,-1d|+1", "d|d"])]
    if r < 28: return ["%p"]
    if r < 29: return [region(rng, n) + "d|" + region(rng, n) + "pu"]
    return ["se " + rng.choice(["ic", "noic"])]

def c06_pipe_cases(rng, count):
    """filters over ranges larger than a pipe buffer (64 KiB): the whole range must reach the command"""
    out = []
    for _ in range(count):
        n = rng.choice([2500, 3000, 6000])
        content = "".join("line %d of a large buffer for the pipe\n" % i for i in range(n))
        rg = rng.choice(["%", "2,$-1", "1,$", "100,$"])
        sh = rng.choice(["cat", "tr a-z A-Z", "cat", "tr a-z A-Z", "sed 1q"]) if len(out) >= 2 else ["cat", "tr a-z A-Z"][len(out)]
        out.append(case([("fa", content)], ["fa"], [rg + "!" + sh, "=", "$p", "1p", "u", "=", "q!"]))
    return out

def c06_cases(rng, count, maxcmds=8):
    out = c06_pipe_cases(rng, max(2, count // 300))
    for _ in range(count):
        files = [("fa", rand_content(rng)), ("fb", rand_content(rng, 3))]
        n = files[0][1].count("\n") + 1
        lines = []
        for _ in range(1 + rng.below(maxcmds)):
            lines += line_cmd(rng, n)
        lines += ["%p", "q!"]
        out.append(case(files, ["fa"], lines))
    return out

def file_cmd(rng, names):
    r = rng.below(45)
    f = rng.choice(names)
    if r < 6: return [rng.choice(["1d", "$d", "1a", "s/o/0/", "1,2d", "%s/a/b/g", "1pu", "2,3d"])] + (["new", "."] if False else [])
    if r < 8: return ["a", rng.choice(WORDS), "."]
    if r < 11: return ["u"]
    if r < 13: return ["redo"]
    if r < 17: return ["w"]
    if r < 19: return [rng.choice(["1,2w", "1w", "2,$w", "%w"])]
    if r < 21: return ["w " + f]
    if r < 22: return ["w! " + f]
    if r < 23: return ["1,2w " + f]
    if r < 26: return ["e " + f]
    if r < 27: return ["e! " + f]
    if r < 28: return ["e!"]
    if r < 29: return ["e #"]
    if r < 31: return ["b " + rng.choice(["1", "2", "3", "+", "-", "#", "%", "^", "9", "4294967297", "4294967298", "99999999999"])]
    if r < 32: return ["b"]
    if r < 33: return ["b " + rng.choice(["1", "2", "#"])]
    if r < 34: return ["q"]
    if r < 35: return ["x"]
    if r < 36: return [rng.choice(["wq", "xa", "q"])]
    if r < 37: return ["@@touch " + f] if rng.below(4) else ["@@epoch " + f]
    if r < 38: return ["@@writefile " + f + " " + hx(rng.choice(WORDS) + "\n")]
    if r < 39: return ["se " + rng.choice(["wa", "nowa", "aw", "noaw"])] if rng.below(3) == 0 else [rng.choice(["1d|e! " + f, "e! " + f + "|1d", "$d|b #", "e #|$d", "1d|e " + f])]
    if r < 40: return [rng.choice(["b!", "b !", "b !", "b ~"])] if rng.below(2) else [rng.choice(["w !cat", "w !true", "1w !cat", "w !tr a-z A-Z", "%w !sed 1q", "w !", "w !nosuch"])]
    # edits and whole / partial writes chained on one command line (one undo step, one sequence number)
    e = lambda: rng.choice(["1d", "$d", "s/o/0/", "1,2d", "%s/a/b/g", "1pu", "u", "redo", "1co$", "$m0"])
    w = lambda: rng.choice(["w", "w", "w", "1w", "%w", "w " + f, "w! " + f])
    k = rng.below(5)
    if k == 0: return [e() + "|" + w() + "|" + e()]
    if k == 1: return [w() + "|" + e()]
    if k == 2: return [e() + "|" + w()]
    if k == 3: return [e() + "|" + w() + "|" + e() + "|" + w() + "|" + e()]
    return [e() + "|" + e() + "|" + w() + "|u"]

def full_table_cases(rng, count):
    """the buffer list at and beyond its capacity (16): a modified buffer ages to the last slot, then quit / another open /
    switch by number; also with buffers deleted and re-opened in between (numbers of later buffers)"""
    out = []
    for _ in range(count):
        n = rng.choice([14, 15, 16, 16, 16, 17, 17, 18])
        names = ["f%d" % i for i in range(n)]
        files = [(nm, "text %s\nmore\n" % nm) for nm in names]
        dirty = rng.below(min(n, 4))                  # which of the first buffers gets modified
        lines = []
        for i, nm in enumerate(names):
            if i > 0: lines.append(("e! " if rng.below(3) == 0 or i == dirty + 1 else "e ") + nm)
            if i == dirty: lines.append(rng.choice(["1s/text/CHANGED/", "1d", "a\nnew\n."]).replace("\n", "\n"))
            if rng.below(12) == 0: lines.append(rng.choice(["b !", "b ~", "b 2", "b -", "se aw", "se wa"]))
        lines = [x for l in lines for x in l.split("\n")]
        lines += [rng.choice(["q", "q", "x", "wq", "e fresh", "b 1", "b"]), "b", rng.choice(["q", "b %d" % (1 + rng.below(n)), "e f0"]), "b", "q!"]
        out.append(case(files + [("fresh", "fresh\n")], [names[0]], lines))
    return out

def epoch_cases(rng, count):
    """files whose time stamp is 0 (the epoch): they exist, so a write without ! from another buffer must not
    replace them, although 0 is also what ec_write passes for 'not the file being edited'"""
    out = []
    for _ in range(count):
        files = [("f0", rand_content(rng, 4) or "x\n"), ("f1", "keep me\nsecond\n"), ("f2", None)]
        lines = ["@@epoch f1"]
        for _ in range(1 + rng.below(4)):
            lines.append(rng.choice(["w f1", "1w f1", "1,2w f1", "w f2", "w! f1", "e! f1", "w", "1d", "e! f0", "@@epoch f0", "w f1", "x", "wq"]))
        lines += ["q!"]
        out.append(case(files, ["f0"], lines))
    return out

def pipe_write_cases(rng, count):
    """`:w !cmd` pipes the text to a command: the buffer is not thereby saved, whether it has a name or not"""
    out = []
    for _ in range(count):
        unnamed = rng.below(2) == 0
        files = [("f0", rand_content(rng, 3) or "x\n"), ("f1", None)]
        lines = []
        if rng.below(3): lines += ["a", rng.choice(WORDS) or "t", "."]
        lines.append(rng.choice(["w !cat", "w !true", "%w !cat", "1,$w !cat", "w !tr a-z A-Z", "1w !cat", "w !", "w !cat|1d"]))
        lines += [rng.choice(["q", "q", "e f1", "b", "x", "w", "w !cat"]), "b", rng.choice(["q", "e f1", "w f1", "1d"]), "b", "q!"]
        out.append(case(files, [] if unnamed else ["f0"], lines))
    return out

def failed_write_cases(rng, count):
    """a write that fails part-way (error or short count from write / close) must leave the buffer dirty:
    the quit / edit / switch that follows is refused"""
    out = []
    for _ in range(count):
        data = rng.choice(["one\n", "l1\nl2\nl3\n", "".join("%07d\n" % i for i in range(520)), "a\n" + "B" * 5000 + "\nc\n"])
        pos = rng.below(5); kind = rng.choice(["e", "e", "e", "1", "7"])
        fault = "@@fault %d:%s" % (pos, kind) if rng.below(4) else "@@fault %d:%s,%d:e" % (pos, rng.choice(["1", "7"]), pos + 1)
        lines = ["1a", "edit", ".", fault, rng.choice(["w", "w", "w!", "wq", "x", "w other", "xa"]), rng.choice(["q", "q", "e other", "b", "x"]), "b", "w", "q", "q!"]
        out.append(case([("fa", data), ("other", None)], ["fa"], lines))     # (a buffer without a name cannot be written with a bare :w)
    return out

def nameless_cases(rng, count):
    """the buffer without a name (editor started without a file, or the last buffer deleted with `b !`): partial and
    whole writes that name it, undo back to the start of its history, `#` and `%` standing for it, switching away
    and back"""
    out = []
    for _ in range(count):
        files = [("f0", rand_content(rng, 3) or "x\n"), ("f1", None), ("f2", "two\nlines\n")]
        start_named = rng.below(3) == 0
        lines = ["b !"] if start_named else []
        if rng.below(3) == 0:
            # a partial write names the buffer and marks it "differs from its file"; undo back to the start of the
            # history must not make it look saved
            lines += ["a", "l1", "l2", "."] + [rng.choice(["1w f1", "2w f1", "1,1w f1", "1w! f1"])] + ["u"] * rng.choice([1, 1, 2, 3]) + [rng.choice(["b", "q", "e f0", "b", "redo"])]
        for _ in range(2 + rng.below(8)):
            lines += rng.choice([["a", rng.choice(WORDS) or "t", "."], ["a", "l1", "l2", "."], ["1w f1"], ["w f1"], ["1,2w f1"], ["w! f1"], ["u"], ["u"], ["redo"], ["e f0"], ["e f2"], ["e #"], ["e! #"], ["e %"],
                                 ["b"], ["b #"], ["b 1"], ["b !"], ["q"], ["1d"], ["s/o/0/"], ["w"], ["e! f0"], ["b -"]])
        lines += ["b", "q", "b", "q!"]
        out.append(case(files, ["f0"] if start_named else [], lines))
    return out

def buf_cases(rng, count, nfiles=3, maxcmds=14):
    out = full_table_cases(rng, max(3, count // 150)) + epoch_cases(rng, max(4, count // 100)) + pipe_write_cases(rng, max(8, count // 60)) + failed_write_cases(rng, max(20, count // 25)) + nameless_cases(rng, max(30, count // 20))
    for _ in range(count):
        k = 2 + rng.below(nfiles - 1) if nfiles > 2 else 2
        names = ["f%d" % i for i in range(k)]
        files = [(nm, rand_content(rng, 4) if rng.below(5) else None) for nm in names]
        lines = []
        for _ in range(2 + rng.below(maxcmds)):
            lines += file_cmd(rng, names)
        lines += ["q!"]
        out.append(case(files, [names[0]], lines))
    return out

def fault_grid(rng):
    """C03: every position in the open/write/close sequence of a write x fault kinds x size classes x commands"""
    out = []
    sizes = {
        "zero": "", "one": "l1\n", "sub": "".join("line %d\n" % i for i in range(60)),
        "batch": "".join("%07d\n" % i for i in range(512)),
        "multi": "".join("%07d\n" % i for i in range(1280)),
        "bigline": "a\n" + "B" * 5000 + "\nc\n",
    }
    for name, data in sizes.items():
        for cmd in (["w"], ["wq"], ["x"], ["xa"], ["w other"], ["1,$w"]):
            for pos in range(6):
                for kind in ("e", "1", "7"):
                    lines = ["1a", "edit", ".", "@@fault %d:%s" % (pos, kind)] + cmd + ["q", "w", "q"]
                    out.append(case([("fa", data), ("other", None)], ["fa"], lines))
            # a short count followed by an error on the retry, inside one batch and across batches
            for pos in range(1, 5):
                for kind in ("1", "7"):
                    lines = ["1a", "edit", ".", "@@fault %d:%s,%d:e" % (pos, kind, pos + 1)] + cmd + ["q", "w", "q"]
                    out.append(case([("fa", data), ("other", None)], ["fa"], lines))
            lines = ["1a", "edit", ".", "@@fault 1:1,2:1,3:e"] + cmd + ["q", "w", "q"]
            out.append(case([("fa", data), ("other", None)], ["fa"], lines))
    # target states: absent, own unchanged, own newer, own appeared, foreign
    for cmd in ("w", "w!", "wq", "x", "xa", "w fb", "w! fb", "1w fb"):
        for setup in ([], ["@@touch fa"], ["@@writefile fa 7a0a"], ["@@rm fa"], ["@@writefile fb 790a"], ["@@touch fb"]):
            for fa in ("one\ntwo\n", None):
                lines = ["$a", "edit", "."] + setup + [cmd, "q", "q!"]
                out.append(case([("fa", fa), ("fb", "other\n" if rng.below(2) else None)], ["fa"], lines))
    return out

SUB_PATS = ["a", "^a", "a$", "^", "$", "x*", "a*", "o", "(o)(o)", "(a)|(b)", "[ab]+", "é", "é*", ".", "\\<f", "o\\>", "^a*", "b*$", "(f)(o*)", "a|aa", "(a*)(b*)", "日", "  *", "\\.", "\\/", "a\\\n", "\\\n", "o*\\\n", "^\\\n", "\\<", "\\>", "\\<o*", "aé*", "éa+", "ééa?", "日本*", "oo{2}", "é{2}"]
SUB_REPS = ["X", "", "-", "[\\0]", "\\1", "\\2\\1", "<\\1|\\2>", "\\\\", "é", "\\n", "&", "\\9", "x\\0y\\0", "\\\n", "x\\\ny", "\\\n\\\n", "\\0\\\n"]
SUB_LINES = ["aaa", "ééa", "foo bar", "abab", "", "a", "baac", "日本語", "  x  y", "a.b/c", "foo", "aXa", "oo", "fooo foo", "aééé b", "éaaa", "日本本本"]

def c14_cases(rng, count):
    out = []
    for _ in range(count):
        n = 1 + rng.below(5)
        content = "\n".join(rng.choice(SUB_LINES) for _ in range(n)) + "\n"
        lines = []
        for _ in range(1 + rng.below(4)):
            d = rng.choice(["/", "/", "/", ",", "#"])
            pat = rng.choice(SUB_PATS) if rng.below(8) else ""
            if d != "/": pat = pat.replace("\\/", "q")
            rg = rng.choice(["", "%", "1", "$", "1,2", ".,$", "2", "1,$"])
            lines.append("%ss%s%s%s%s%s%s" % (rg, d, pat, d, rng.choice(SUB_REPS), d, rng.choice(["", "g", "g"])))
            if rng.below(4) == 0: lines.append("u")
        lines += ["%p", "q!"]
        out.append(case([("fa", content)], ["fa"], lines))
    return out

# ---- C16: edits keep the text valid UTF-8
U8_CHARS = ["é", "©", "¡", "¿", "ß", "中", "文", "€", "日", "𝄞", "ل", "\u0301", "a", "b", "x", " ", "Z", "1", "."]
U8_PATS = ["[^é ]", "[^a-z]", "[¡-¿]", "©+", "©", ".", "[^ ]", "é*", "(é)*x", "[é中]", "[^中]", "x*", "$", "^", "\\<", "\\>", "[[:alpha:]]", "[^[:alpha:]]",
           "[^a]", "¿*", "[^©]", "aé*", "xé+", "bß?", "é中*", ".é*", "aé{2}", "a©*", "[«»]", "[^ë]", "..", ".$", "^.", "[^x]*", "(.)(.)", "a|é", "[é-ÿ]", "[^é-ÿ]", "ß", "[ -~]", "[^ -~]", "€", "[^€]", "𝄞", "[^𝄞]", "\\(.\\)"]
U8_REPS = ["-", "&&", "é", "\\0\\0", "", "<&>", "\\1", "中"]
def u8_line(rng):
    return "".join(rng.choice(U8_CHARS) for _ in range(rng.below(12)))
def c16_cases(rng, count):
    """substitutes, globals and line commands over multi-byte text whose continuation bytes (80..BF) are themselves
    the code points of other characters in the patterns"""
    out = []
    for _ in range(count):
        n = 1 + rng.below(5)
        content = "\n".join(u8_line(rng) for _ in range(n)) + "\n"
        lines = []
        for _ in range(1 + rng.below(5)):
            k = rng.below(12)
            rg = rng.choice(["", "%", "1", "$", "1,2", ".,$", "2", "1,$"])
            if k < 7:
                d = rng.choice(["/", "/", ",", "#"])
                lines.append("%ss%s%s%s%s%s%s" % (rg, d, rng.choice(U8_PATS), d, rng.choice(U8_REPS), d, rng.choice(["", "g", "g", "g"])))
            elif k == 7: lines.append(rng.choice(["se ic", "se noic"]))
            elif k == 8: lines.append("%sg/%s/s/%s/%s/g" % (rg, rng.choice(U8_PATS), rng.choice(U8_PATS), rng.choice(U8_REPS)))
            elif k == 9: lines += [rng.choice(["a", "i", "c"]), u8_line(rng), "."]
            elif k == 10: lines += [rg + "y a", "pu a"]
            else: lines.append(rng.choice(["u", "redo", rg + "d", "/%s/" % rng.choice(U8_PATS)]))
        lines += ["%p", "q!"]
        out.append(case([("fa", content)], ["fa"], lines))
    return out

def c01_cases(rng, count):
    """C01 at the ex level: buffers of 0..n lines (some of 4 KiB and more) written with :w, :w! other, range writes and
    :wq over targets that are absent, empty, shorter, equal or longer than what is written; reads of files with
    and without a final newline written back unedited"""
    out = []
    def content():
        k = rng.below(8)
        if k == 0: return ""
        if k == 1: return "x" * rng.choice([4094, 4095, 4096, 4097, 5000]) + "\n" + rand_content(rng, 3)
        if k == 2: return "\n".join("l%d" % i for i in range(rng.choice([1, 2, 3, 600]))) + ("\n" if rng.below(3) else "")
        return rand_content(rng, 6)
    for _ in range(count):
        files = [("f0", content()), ("f1", content() if rng.below(4) else None), ("f2", "old old old old old old old\nsecond old line\nthird\n")]
        lines = []
        for _ in range(1 + rng.below(5)):
            k = rng.below(12)
            if k == 0: lines.append("%d")
            elif k == 1: lines.append(rng.choice(["1d", "$d", "1,2d", "2,$d"]))
            elif k == 2: lines += ["a", rng.choice(WORDS), "."]
            elif k == 3: lines.append("w")
            elif k == 4: lines.append("w! " + rng.choice(["f1", "f2"]))
            elif k == 5: lines.append(rng.choice(["1,2w! ", "1w! ", "2,$w! ", "%w! "]) + rng.choice(["f1", "f2"]))
            elif k == 6: lines.append("e! " + rng.choice(["f0", "f1", "f2"]))
            elif k == 7: lines.append("%d|w")
            elif k == 8: lines.append("%d|w! " + rng.choice(["f1", "f2"]))
            elif k == 9: lines.append("u")
            elif k == 10: lines.append("1,2w")
            else: lines.append("w! f2")
        # several buffers of different sizes written at once (:xa) or by autowrite on leaving them
        if rng.below(4) == 0:
            lines = [rng.choice(["1d", "a\nnew\n.", "%d", "1,2d"]).replace("\n", "\n"), "e! f2", rng.choice(["1d", "$d", "a\nx\n."]).replace("\n", "\n"),
                     rng.choice(["xa", "xa!", "se aw\ne f0", "se aw\nb 1", "se aw\nq"]).replace("\n", "\n")]
            lines = [x for l in lines for x in l.split("\n")]
        lines += [rng.choice(["w", "wq", "x", "w! f2"]), "q!"]
        out.append(case(files, ["f0"], lines))
    return out

GLOB_PATS = ["m", "a", "^$", "o", "x", "1", "."]
GLOB_CMDS = ["d", "s/m/M/", "s/o/0/g", "pu a", "a\\", "-1d", "+1d", "-2,-1d|+1", "d|d", ".,+1d", "+1,+2d", "k a", "p", "s/$/!/", "-1,.d", "1d", "$d", "pu a|-1d", "g/o/d", "g/1/s/m/W/", "v/m/d", "y a|pu a", "+1s/./Q/", "+1d|-1", "m0", "m$", "co0", "co.", "t$", "m+1", "-1m$", "m0|+1", "+1m0", "+1m0|+2", "co0|d", "i\\", "c\\", "s/^/>/|-1d", "g/./s/$/;/", "1,2d", "$m0",
             # nested globals with a range of their own: the inner marks must not disturb the outer ones
             ".,+1g/./s/$/x/", "-1,.g/m/s/^/</", "1,$g/o/s/o/0/", ".,$v/z/s/$/v/", ".,+2g/1/s/$/#/", "1,.g/./s/^/-/", "-1,+1g/a/s/a/A/"]

def c15_growth_cases(rng, count):
    """globals whose commands add lines while the buffer crosses the 512-line capacity step of the line arrays"""
    out = []
    for _ in range(count):
        n = 470 + rng.below(60)
        content = "\n".join("n%d" % i for i in range(1, n + 1)) + "\n"
        lines = ["1,2y a"]
        pat = rng.choice(["0$", "5$", "1", "^n4", "n..$"])
        cmd = rng.choice(["pu a", "co.", "t.", "y a|pu a", "t$", "s/$/!/|co.", "co0", "a\\"])
        lines.append("%s%s/%s/%s" % (rng.choice(["", "%", "400,$"]), rng.choice(["g", "g", "v"]), pat, cmd))
        lines += ["=", "$p", "u", "=", "q!"]
        out.append(case([("fa", content)], ["fa"], lines))
    return out

def c15_cases(rng, count):
    out = c15_growth_cases(rng, max(2, count // 300))
    for _ in range(count):
        n = 3 + rng.below(6)
        pool = ["m%d" % i for i in range(1, 8)] + ["a", "b", "z", "oo", "mo", "x1", "o1"]
        content = "\n".join(rng.choice(pool) + str(i) for i in range(n)) + "\n"
        lines = ["1,2y a"] if rng.below(2) else ["rs a", "Ins", "."]
        # globals that fail before they start (no previous pattern, a pattern that does not compile, a bad range)
        if rng.below(5) == 0:
            lines = [rng.choice(["g//d", "g/[a/d", "v/\\(/d", "9,1g/./d", "g/m"])] * rng.choice([1, 1, 2, 7, 8]) + lines
        rg = rng.choice(["", "", "%", "2,$", "1,3", "2,4", ".,$"])
        if rng.below(6) == 0:
            # a global abandoned part-way (its command fails on a visited line while marked lines remain), then one over
            # a narrower range: marks left behind must not widen it
            lines.append(rng.choice(["%g/./.,+5d", "%g/m/+9d", "%g/./.,+3d|9d", "%g/./'zd", "g/./s/nomatchzz//", "%g/o/.,+4y a|99d"]))
            lines.append("%s%s/%s/%s" % (rng.choice(["1", "2", "1,2", "$", "."]), rng.choice(["g", "g", "v"]), rng.choice(GLOB_PATS), rng.choice(["s/$/X/", "s/^/>/", "d", "pu a", "g/./s/$/Y/"])))
        lines.append("%s%s/%s/%s" % (rg, rng.choice(["g", "g", "v", "g!"]), rng.choice(GLOB_PATS), rng.choice(GLOB_CMDS)))
        lines += ["%p", "u", "%p", "q!"]
        out.append(case([("fa", content)], ["fa"], lines))
    return out

EXWORDS = ["a", "i", "c", "d", "y", "pu", "p", "=", "k", "m", "co", "t", "s", "g", "v", "g!", "u", "redo", "rs", "ra", "r", "w", "w!", "q", "q!", "x", "wq", "e", "e!", "ew", "b", "n", "prev",
           # every name of the excmds table, long forms included (kept in step with ex.c by hand; a name missing here only narrows the stream)
           "rx", "rk", "rk a /nonexistent", "rk b", "rx a true", "ra a", "so", "so nofile", "tn", "tp", "tf", "po", "pop", "ew!", "wq!", "x!", "xa", "xa!", "cm", "cmap", "ec x", "echo", "ft c", "filetype",
           "append", "buffer", "delete", "change", "edit", "edit!", "global", "global!", "insert", "mark", "next", "print", "put", "quit", "quit!", "read", "set", "substitute", "source", "tag", "tnext", "tprev",
           "tfree", "undo", "vglobal", "write", "write!", "xit", "xit!", "yank",
           "se", "set", "ft", "cm", "cm!", "make", "ta", "pop", "ac", "!", "@", "ec", "left", "right", "kmap", "kmap!", "", "zz", "1", "$", "%", ".", "se ic", "se noic", "se ai", "se hl", "se nohl",
           "se hll", "se order=0", "se order=2", "se shape=0", "se lim=5", "se lim=-1", "se led", "se noled", "se td=2", "se td=-2", "se td=0", "se ru=0", "se hist=5", "se hist=0", "se aw", "se wa"]
def junk_ex_cases(rng, count):
    """nonsensical, truncated and over-long ex command lines (C05): every address form in and out of range,
    every command name and option, arguments of random printable / multi-byte text, lines around and beyond
    the 512-byte limit, empty buffers"""
    out = []
    pieces = ["/", "?", "\\", "|", "%", "#", "'", "\"", "+", "-", ",", ";", " ", "0", "9", "99999", "a", "b", "x", "\\(", "\\)", "[", "]", "*", "^", "$", ".", "&", "~", "{", "}", "<", ">", "=", "!", "@", "\t"]
    for ci in range(count):
        content = rand_content(rng) if rng.below(5) else None
        lines = []
        if ci % 20 == 9:
            # registers that execute registers (themselves, each other, through :g), register texts that rewrite the
            # register being executed, globals whose command list leaves no current line
            k = rng.below(6)
            if k == 0: content, lines = "@a\n", ["y a", "@a", "%p"]
            elif k == 1: content, lines = "@b\n@a\nx\n", ["1y a", "2y b", rng.choice(["@a", "@b", "3@a", "g/x/@a"]), "%p"]
            elif k == 2: content, lines = "y a|p\nz\n", ["1y a", "@a", "@a", "%p"]
            elif k == 3: content, lines = rng.choice(["g/./@a\nq\n", "1,2g/./@a\n", "e +@a fa\n"]), ["1y a", "@a", "%p"]
            elif k == 4: content, lines = "a\nb\na\n", [rng.choice(["g/a/c", "g/a/1c", "1g/a/c", "g/a/c|p", "v/b/c", "g/a/0i"]), ".", "%p", "u", "%p"]
            else: content, lines = "d a|pu a|y a|@a\nt\n", ["1y a", "2@a", "%p"]
            lines.append("q!")
            out.append(case([("fa", content)], ["fa"], lines)); continue
        for _ in range(1 + rng.below(8)):
            m = rng.below(10)
            if m < 5:
                l = region(rng, 5) + rng.choice(EXWORDS)
                if rng.below(2): l += rng.choice([" ", ""]) + "".join(rng.choice(pieces) for _ in range(rng.below(8)))
            elif m < 7:
                l = "".join(rng.choice(pieces + EXWORDS) for _ in range(rng.below(20)))
            elif m == 7:
                n = rng.choice([500, 509, 510, 511, 512, 513, 520, 1023, 1024, 2000])
                body = rng.choice(["s/a/", "g/x/", "a ", "e ", "w ", "!", "", "1,2", "se ", "ft ", "/"])
                l = body + rng.choice(["x", "a é ", "a|", "\\", "/"]) * n
                l = l[:n + len(body)]
            elif m == 8:
                l = rng.choice(["a", "i", "c"]); lines.append(region(rng, 5) + l); lines += text_block(rng); continue
            else:
                l = rng.choice(["s", "s/", "s//", "s///", "s/a", "s/a/b", "s/\\(/x/", "s/[/x/", "s/a\\{1,2\\}/x/", "s/a{1,0}/x/", "s/a/\\9/", "s/x*/-/g", "g/", "g//", "g/a/", "g/a/g/b/g/c/d", "v/a/s//b/",
                                "@a", "@@", "@", "k", "k aa", "'", "''a", "1,", ",", ";", ",,,", "+++", "---", "1;2;3", "$+1", "0", "0d", "0a", "-5", "+5", "w /", "e /", "r /nonexistent", "b 99", "b -", "b +", "ra x", "rs", "ec"])
            lines.append(l)
        lines.append("q!")
        out.append(case([("fa", content)], ["fa"], lines))
    return out

def c04_cases(rng, count):
    """command lines that edit and then fail (or fail and then edit), followed by further edits and undos:
    every top-level command line is one undo step whatever its status (C04)"""
    out = []
    edits = ["1d", "$d", "s/o/0/", "1,2d", "%s/a/b/g", "1pu", "1co$", "$m0", "2d", "1s/^/x/"]
    fails = ["99d", "'zd", "/nomatchzz/d", "0d", "5,2d", "s/nomatchzz/x/", "b 9", "zz", "e! /nonexistent/x"]
    for _ in range(count):
        content = rand_content(rng, 6) or "one\ntwo\n"
        lines = []
        for _ in range(2 + rng.below(6)):
            k = rng.below(8)
            if k == 0: lines.append(rng.choice(edits) + "|" + rng.choice(fails))
            elif k == 1: lines.append(rng.choice(fails) + "|" + rng.choice(edits))
            elif k == 2: lines.append(rng.choice(edits) + "|" + rng.choice(fails) + "|" + rng.choice(edits))
            elif k == 3: lines.append(rng.choice(fails))
            elif k < 6: lines.append(rng.choice(edits))
            elif k == 6: lines.append("u")
            else: lines.append("redo")
        lines += ["u", "%p", "u", "%p", "redo", "%p", "q!"]
        out.append(case([("fa", content)], ["fa"], lines))
    return out
