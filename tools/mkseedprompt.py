import json, sys, os, glob
pid = sys.argv[1]; rnd = sys.argv[2]
prop = [json.loads(l) for l in open('/verif/properties.jsonl') if json.loads(l)['id'] == pid][0]
prev = []
for d in sorted(glob.glob('/verif/seeded/%s*' % pid)):
    try:
        m = json.load(open(d + '/meta.json')); prev.append("- %s (files: %s)" % (m.get('summary', '')[:400], ",".join(m.get('files_changed', []))))
    except Exception: pass
wt = "/tmp/seed%s_%s" % (rnd, pid); out = "/tmp/seedout%s_%s" % (rnd, pid)
print(f"""You are helping evaluate a verification effort for the small terminal text editor neatvi (C, vi/ex clone). Your job is to play the role of a developer who introduces a subtle, REALISTIC regression.

You work ONLY in your own git worktree of the editor: {wt} (already created; it is a checkout of the current source). Do not touch /repo, /verif or any other directory except your output directory {out} (create it). Do NOT use `git stash` (it is shared between worktrees; use `git diff > p; git apply -R p; ...; git apply p` if you need to go back and forth). Do not commit.

THE PROPERTY the editor is supposed to satisfy (semantic property {pid}):
  Title: {prop['title']}
  Statement: {prop['statement']}
  Quantifier: {prop['quantifier']['text']}
  Relevant code: {json.dumps(prop['anchors'].get('files'))}; mechanisms: {json.dumps(prop['anchors'].get('mechanism'))[:1500]}

YOUR TASK: make ONE small source change (a few lines, in the style of a plausible refactoring slip, off-by-one, wrong variable, dropped or reordered statement, boundary condition, misplaced optimisation) that BREAKS this property for some inputs, while
  1. the editor still compiles with `make` without new warnings,
  2. the editor's own test suite still passes completely (60 tests). IMPORTANT: test.sh uses fixed temp files /tmp/.neatvi1 and /tmp/.neatvi2 that collide with other people running it concurrently; run a private copy instead:  sed 's#/tmp/.neatvi#{out}/.nv#g' test.sh > {out}/test_private.sh && sh {out}/test_private.sh   (run inside the worktree; every line must end in OK),
  3. the break needs something SPECIFIC to manifest (a particular kind of input, position, size, sequence or state) — not something every run would trip over — so that shallow testing would likely miss it, but it is a genuine violation of the property as stated, observable from the editor's behaviour (files written, output of `vi -s -e`, cursor/marker positions, crashes).
Changes already tried by others for this property (do something DIFFERENT in mechanism and location):
{chr(10).join(prev) if prev else '- (none)'}

Read the relevant source first (the code base is ~10k lines: vi.c ex.c lbuf.c mot.c reg.c led.c ren.c dir.c uc.c regex.c rset.c rstr.c cmd.c term.c ...). The editor is driven non-interactively like this: `printf ':1s/a/b/\\n:w\\n:q\\n' | ./vi file` (vi mode; note vi mode spins on EOF, so always end the keys with :q or :q! and wrap runs in `timeout 5`), or ex mode: `printf '1s/a/b/\\nw\\nq\\n' | ./vi -s -e file`.

DELIVERABLES in {out}/ :
  - patch.diff : `git diff` of your change (must apply to the pristine worktree with `git apply`),
  - demo.sh : a POSIX sh script taking the path of a vi binary as $1, which creates its own temp dir (mktemp -d), runs the binary on a concrete input that triggers the break (use `timeout`), prints the observable result, and cleans up. Its output (or exit status) must DIFFER between the original and the modified binary. Build the original binary for comparison with: git diff > {out}/p.diff; git apply -R {out}/p.diff; make; cp vi {out}/vi.orig; git apply {out}/p.diff; make; cp vi {out}/vi.mod.
  - meta.json : {{"property": "{pid}", "files_changed": [...], "summary": "<what was changed, one or two sentences>", "trigger": "<what specific inputs/states make it manifest, and which do not>", "expected": "<correct behaviour in the demo>", "observed": "<behaviour with the change>"}}
Leave the patch applied (uncommitted) in the worktree. Finally report in a few sentences: the change, the trigger, and that build + private test suite (60/60 OK) + demo difference were verified. Work autonomously, do not ask questions.""")
