#!/usr/bin/env python3
"""Run the checks against the seeded changes stored under /verif/seeded/<id>/ (patch.diff):
git -C /repo apply; ./check <prop>; git -C /repo checkout -- .   Results go to seeded/RESULTS.json.
usage: seedrun.py [ids...]   (default: all)"""
import sys, os, subprocess, json, time, re
ROOT = "/verif"; SEEDED = ROOT + "/seeded"
def sh(cmd, timeout=3600):
    p = subprocess.run(cmd, shell=True, cwd=ROOT, stdout=subprocess.PIPE, stderr=subprocess.STDOUT, timeout=timeout)
    return p.returncode, p.stdout.decode("utf-8", "replace")
def clean():
    rc, o = sh("git -C /repo status --porcelain")
    return o.strip() == ""
ids = sys.argv[1:] or sorted(d for d in os.listdir(SEEDED) if os.path.isdir(os.path.join(SEEDED, d)))
resf = SEEDED + "/RESULTS.json"
results = json.load(open(resf)) if os.path.exists(resf) else {}
for sid in ids:
    prop = sid.split("-")[0]
    patch = os.path.join(SEEDED, sid, "patch.diff")
    assert clean(), "/repo is not clean"
    rc, o = sh("git -C /repo apply %s" % patch)
    if rc != 0:
        results[sid] = {"error": "patch does not apply: " + o[-200:]}; continue
    r = {"property": prop}
    try:
        for tier in ("quick", "thorough"):
            t0 = time.time()
            rc, o = sh("./check %s --tier %s" % (prop, tier), timeout=7200)
            viol = [l for l in o.split("\n") if l.startswith("VIOLATION")]
            last = [l for l in o.split("\n") if l.startswith(prop + ":")]
            r[tier] = {"exit": rc, "violations": len(viol), "no_failing_input": sum(1 for v in viol if v.endswith("no-failing-input-found")),
                       "summary": (last[-1] if last else o[-200:])[:300], "seconds": round(time.time() - t0, 1)}
            # what the first replay says
            m = re.search(r"replay=(\S+)", viol[0]) if viol else None
            if m and os.path.exists(m.group(1)):
                txt = open(m.group(1)).read()
                k = re.search(r"^kind:\s*(.*)$", txt, re.M); c = re.search(r"^clause:\s*(.*)$", txt, re.M)
                r[tier]["first_kind"] = k.group(1)[:80] if k else ""; r[tier]["first_clause"] = c.group(1)[:200] if c else ""
            if rc != 0: break
        r["caught"] = any(r.get(t, {}).get("exit", 0) != 0 for t in ("quick", "thorough"))
        r["caught_by"] = next((t for t in ("quick", "thorough") if r.get(t, {}).get("exit", 0) != 0), None)
    finally:
        sh("git -C /repo checkout -- .")
    results[sid] = r
    json.dump(results, open(resf, "w"), indent=1)
    print(sid, "caught=%s by=%s" % (r.get("caught"), r.get("caught_by")), (r.get(r.get("caught_by") or "thorough", {}).get("first_clause", ""))[:150])
assert clean()
