#!/usr/bin/env python3
"""Regenerate the seeded-changes table of DESIGN.md (section 11.7) from seeded/RESULTS.json and seeded/*/meta.json."""
import json, os, re
ROOT = "/verif"
res = json.load(open(ROOT + "/seeded/RESULTS.json"))
def key(s):
    m = re.match(r"C(\d+)(?:-(R?)(\d+))?$", s); return (int(m.group(1)), 100 if m.group(2) else 0, int(m.group(3) or 1))
rows = ["| seed | change (sub-agent's summary) | trigger | caught by | first clause reported |", "|---|---|---|---|---|"]
for sid in sorted(res, key=key):
    r = res[sid]
    meta = json.load(open("%s/seeded/%s/meta.json" % (ROOT, sid)))
    esc = lambda s: str(s).replace("|", "\\|").replace("\n", " ")
    by = r.get("caught_by")
    t = r.get(by or "thorough", {})
    clause = t.get("first_clause") or ("stream " + t.get("summary", "").split("stream ")[-1][:30] if "stream " in t.get("summary", "") else t.get("first_kind", ""))
    rows.append("| %s | %s | %s | %s | %s |" % (sid, esc(meta.get("summary", ""))[:170], esc(meta.get("trigger", ""))[:150],
                ("%s (%d s)" % (by, t.get("seconds", 0))) if by else "**missed**", esc(clause)[:70]))
d = open(ROOT + "/DESIGN.md").read()
a = d.index("| seed | change (sub-agent's summary)")
b = d.index("\n\n", a)
open(ROOT + "/DESIGN.md", "w").write(d[:a] + "\n".join(rows) + d[b:])
print(len(rows) - 2, "rows;", sum(1 for s in res if res[s].get("caught")), "caught")
