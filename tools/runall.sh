#!/bin/sh
# run every check at the given tier and seeds; one summary line per run
tier=${1:-quick}; shift
seeds=${*:-1}
cd /verif
for s in $seeds; do
  for i in 01 02 03 04 05 06 07 08 09 10 11 12 13 14 15 16 17 18 19 20; do
    out=$(VERIF_SEED=$s ./check C$i --tier $tier 2>&1); rc=$?
    echo "seed=$s rc=$rc $(echo "$out" | tail -1 | cut -c1-170)"
    echo "$out" | grep "^VIOLATION" | head -3
  done
done
