#!/usr/bin/env python3
"""Confirm a seeded change delivered by a sub-agent (/tmp/seedout_<id>, worktree /tmp/seed_<id>) and store it
under /verif/seeded/<id>/: the patch must apply to /repo's HEAD, the program must build and pass the
unedited test suite with it, and the demonstration must tell the two binaries apart."""
import sys, os, subprocess, json, shutil, tempfile
pid = sys.argv[1]
rnd = sys.argv[2] if len(sys.argv) > 2 else ""          # round: "" (first) or "2", "3", ...
out = "/tmp/seedout%s_%s" % (rnd, pid); wt = "/tmp/seed%s_%s" % (rnd, pid)
dst = "/verif/seeded/%s%s" % (pid, ("-" + rnd) if rnd else "")
def sh(cmd, cwd=None, timeout=600):
    p = subprocess.run(cmd, shell=True, cwd=cwd, stdout=subprocess.PIPE, stderr=subprocess.STDOUT, timeout=timeout)
    return p.returncode, p.stdout.decode("utf-8", "replace")
res = {"property": pid}
work = tempfile.mkdtemp(prefix="seedchk-")
try:
    rc, o = sh("git -C /repo worktree add -q --detach %s/w HEAD" % work); assert rc == 0, o
    w = work + "/w"
    rc, o = sh("make -s 2>&1 | grep -c 'error' ; cp vi %s/vi.orig" % work, cwd=w)
    rc, o = sh("git apply %s/patch.diff" % out, cwd=w); res["applies"] = rc == 0
    assert rc == 0, "patch does not apply: " + o
    rc, o = sh("make 2>&1", cwd=w); res["builds"] = rc == 0 and os.path.exists(w + "/vi")
    rc0, o0 = sh("git apply -R %s/patch.diff; touch *.c; make 2>&1 | grep -c warning; git apply %s/patch.diff" % (out, out), cwd=w)
    rcw, ow = sh("touch *.c; make 2>&1 | grep -c warning", cwd=w)
    res["warnings_base"] = o0.strip().split("\n")[-1]; res["warnings_mod"] = ow.strip().split("\n")[-1]
    sh("cp vi %s/vi.mod" % work, cwd=w)
    sh("sed 's#/tmp/.neatvi#%s/.nv#g' test.sh > %s/t.sh" % (work, work), cwd=w)
    rc, o = sh("sh %s/t.sh" % work, cwd=w, timeout=900)
    lines = [l for l in o.split("\n") if l.strip()]
    res["tests_pass"] = rc == 0 and all(l.endswith("OK") for l in lines) and len(lines) >= 60
    res["tests"] = len(lines)
    rc1, o1 = sh("sh %s/demo.sh %s/vi.orig" % (out, work), timeout=120)
    rc2, o2 = sh("sh %s/demo.sh %s/vi.mod" % (out, work), timeout=120)
    res["demo_differs"] = (o1 != o2) or (rc1 != rc2)
    res["demo_orig"] = o1[-600:]; res["demo_mod"] = o2[-600:]
finally:
    sh("git -C /repo worktree remove --force %s/w" % work)
    shutil.rmtree(work, ignore_errors=True)
ok = res.get("applies") and res.get("builds") and res.get("tests_pass") and res.get("demo_differs")
res["confirmed"] = bool(ok)
if ok:
    os.makedirs(dst, exist_ok=True)
    for f in ("patch.diff", "demo.sh"):
        shutil.copy(os.path.join(out, f), os.path.join(dst, f))
    meta = {}
    try: meta = json.load(open(os.path.join(out, "meta.json")))
    except Exception as e: meta = {"error": str(e)}
    meta["confirmation"] = {k: res[k] for k in ("applies", "builds", "tests_pass", "tests", "demo_differs", "warnings_base", "warnings_mod")}
    meta["demo_output_original"] = res["demo_orig"]; meta["demo_output_modified"] = res["demo_mod"]
    json.dump(meta, open(os.path.join(dst, "meta.json"), "w"), indent=1)
print(json.dumps({k: v for k, v in res.items() if k not in ("demo_orig", "demo_mod")}))
if not ok: print("ORIG:", res.get("demo_orig", "")[-300:]); print("MOD:", res.get("demo_mod", "")[-300:])
