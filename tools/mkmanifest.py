#!/usr/bin/env python3
"""Regenerate MANIFEST.json from the table below (run after adding a property's check)."""
import json, os
ROOT = os.path.dirname(os.path.dirname(os.path.abspath(__file__)))
TRUST = "Trusted: Lean 4.33 kernel; axioms propext/Classical.choice/Quot.sound only (audited per theorem on every run, no sorry/native_decide); tools/extract.py for regenerated tables/constants; the correspondence harness and driver; clang/ASan/libc. The C semantics of the mirrored functions is modelled (validated by behaviour on every run), not derived."
CLAIMED = {
 "C01": ("Lean 4 theorems (Props/C01.lean) over the model of lbuf_rd/lbuf_wr/write_fully/sbuf: line splitting and re-joining, the read buffer never overflows for any chunking, the bytes written for any line range are exactly the lines for every batch size and every schedule of short writes (and the coalescing buffer never overflows), any previous file content is replaced exactly, read-then-write round trip. Sizes (1 KiB, 4 KiB, 512) are parameters regenerated from lbuf.c. Tied by scripted read/write outcomes at the size boundaries.",
         "ex-level glue (:w ranges, :e) is tied under C03/C06."),
 "C04": ("Lean 4 theorem refines_zipper (Props/C04.lean, Lemmas/Hist*.lean): for every history of commands, undo and redo of any length the model of lbuf.c never traps and equals a zipper of whole texts, with the corollaries of the property (exact undo/redo, redo branch discarded, ends fail unchanged, compound command = one step). Tied by exhaustive operation sequences and long random histories at the lbuf API (text, return codes, marks, history cursor).",
         "That each editor command bumps the sequence counter exactly once is tied at the ex/vi level (C02, C15, C20)."),
 "C06": ("Lean 4 theorems (Props/C06.lean, Lemmas/C06*.lean) over the model of ex.c/lbuf.c: region_valid / region_invalid_pure (address evaluation never changes the text and yields 0 <= b <= e <= len or is rejected), edit_frame (the primitive replaces exactly [b,e)), per-command frame laws ec_delete/yank/insert(a,i,c)/put/print/lnum/mark/rs_spec (resulting text = take ++ new ++ drop, register, output and cursor as stated; rc=1 leaves the text unchanged), addr0_is_before_first, invalid_region_rejected / invalid_region_unchanged, mark_stable / mark_in_deleted_range (marks outside the edited range keep their line). Tied by generated scripts of line commands judged after every command by a reference line editor in the driver (text, output, registers, marks) and by the model run on the same script.",
         "ec_read/ec_null and whole scripts through ex_exec have no theorem (judged by the reference and the model correspondence only); :r goes through lbuf_rd (C01)."),
 "C10": ("Lean 4 theorems (Props/C10.lean, Lemmas/C10*.lean) over the model of regex.c: vm_sound / regcomp_sound / regexec_sound (every reported match and its group marks are a genuine parse of the pattern, in the declarative semantics Matches, with atoms judged on the whole subject), leftmost_vm(_strong) (no earlier start position has a successful run), groups_nested (group marks are the entry/exit of the last occurrence, inner marks inside), and loop_eq_bt (the VM on the emitted code equals a continuation-passing backtracker on the tree, depth accounting included). Tied by every pattern <= 3/4 symbols over the metacharacter alphabet x small lines, random ERE patterns, all classes x all bytes, pattern sets; the instruction dump of every compiled program is compared with the model's emit.",
         "Completeness and priority (no match missed, first parse) are judged on every uncut run by the ordered reference semantics in the driver (Spec/RegexSem.lean) but are not yet theorems; the hook counter in regex.c tells which runs the depth limit cut."),
 "C11": ("Lean 4 theorems (Props/C11.lean, Lemmas/C11*.lean): parse_bounds (every compiled tree has 0 <= mn <= NREPS, mx <= NREPS, mx < 0 or mn <= mx), emit_length, emitLen_le_count and program_fits (for every byte string the compiled program fits the allocation), jmpend_bounded, emit_wf / regcomp_wf / no_edge_trap (the VM is total by well-founded recursion and never takes a checked edge on compiled programs), atomMatch_range / offsets_in_range / regcomp_offsets (0 <= so <= eo <= length, marks in range) for every subject, flags included. Tied by all metacharacter strings <= 3/4 symbols, malformed constructs and random byte strings under ASan.",
         "offsets_on_boundaries (valid UTF-8) is judged on every case by the driver, not a theorem; recorded finding: a non-UTF-8 literal on the fast path. Reads past the terminator are modelled as trap and compared with ASan."),
 "C12": ("Lean 4 theorems (Props/C12.lean, Lemmas/C12*.lean): stop_covers_specials (on the regenerated strings: every byte the engine treats specially is in rstr_simple's stop set), simple_has_no_operator, fast_groups_unset, literal_find_spec (the fast path returns the least admissible offset), simple_program_shape / simple_compiles (a simple pattern compiles to a straight-line program), straightline_run, and fast_equals_engine (for every literal and newline-terminated line that are UTF-8 encodings of code points, every anchor combination, every flag combination incl. ignore-case: rstr_find and the general engine return identical results). Tied by the exhaustive anchor x literal x line x flag grid, the classifier on all patterns <= 3 symbols and random patterns.",
         "Hypotheses of fast_equals_engine, each excluded point decided on the real code: non-empty literal (^ and ^$ are covered by the grid), literal valid UTF-8 without newline (recorded finding for a non-UTF-8 literal under C11), depth limit >= 1, >= 6 marks."),
 "C16": ("Lean 4 theorems (Props/C16.lean) over the model of uc.c for all code points and all strings: len/code/put agree with the arithmetic encoder, slen/chr/off/next/prev/sub/chop agree with code-point segmentation and round-trip. Model tied to uc.c (and regex.c's private copies) by an exhaustive run over all 1,114,111 code points plus exhaustive small strings.",
         "The clause 'edits keep text valid UTF-8' is carried by C08/C14."),
 "C17": ("Lean 4 theorems (Props/C17.lean): bisection equals membership on the regenerated sorted tables (width class of every code point), ren_cwid equals the reference cell width and is >= 1, the fast and the reordered layout are gap-free tilings for every permutation, offset->column->offset round-trips. Tied to ren.c/uc.c by all code points (exhaustive) and generated lines over all offsets/columns/options.",
         "ren_next/ren_cursor/ren_noeol are modelled and judged against the reference in the correspondence (next_spec) but have no theorem yet."),
 "C18": ("Lean 4 theorems (Props/C18.lean): dir_fix/dir_reorder produce a permutation for every matcher; for in-range matchers no trap, termination and frame; no match => identity; a non-nested run is reversed in place; shaping returns a form of the same table row chosen by the joining context and never alters other characters. Tied to dir.c/uc.c by replaying the logged rset_find results through the model, by the maximal-run reference on every generated line, and by all letters x joining contexts (exhaustive).",
         "Maximality of the runs returned by the regex sets is judged by the reference on every case (it is a regex property); one recorded finding (KNOWN_FINDINGS.txt: runs > 255 characters with linelimit raised)."),
}
def main():
    checks = []
    for pid in sorted(CLAIMED):
        text, note = CLAIMED[pid]
        checks.append({
            "property_id": pid,
            "quick_cmd": "./check %s --tier quick" % pid,
            "thorough_cmd": "./check %s --tier thorough" % pid,
            "evidence_file": "evidence/%s.json" % pid,
            "replay_cmd_template": "./check %s --replay {path}" % pid,
            "engine": "lean-model",
            "level_claimed": {"category": "proof", "text": text, "design_ref": "DESIGN.md section 6, " + pid},
            "level_note": TRUST + " " + note,
            "technique": "Lean 4 proof over a hand-written model + differential correspondence with the C code",
        })
    na = [{"property_id": "C%02d" % i, "reason": "check under construction in this session (Lean model + correspondence planned in DESIGN.md section 6); not yet claimed"}
          for i in range(1, 21) if "C%02d" % i not in CLAIMED]
    m = {
        "version": 1,
        "setup_cmd": "cd /verif && python3 tools/extract.py && cd lean && lake build NeatviVerif driver",
        "hooks": {"guard": "NEATVI_VERIF",
                  "enable": "harnesses are compiled from /repo's working tree with clang-14 -DNEATVI_VERIF -fsanitize=address,undefined (tools/vlib.py CFLAGS)",
                  "baseline_off_cmd": "cd /repo && make -s clean && make -s && sh test.sh",
                  "source_commits": ["72be0dc", "8e53608"], "add_only": True},
        "engines": [
            {"name": "lean-model", "path": "lean/", "serves_properties": sorted(CLAIMED), "kind_free_text": "hand-written executable Lean 4 model + theorems; tables regenerated from /repo by tools/extract.py; compiled line-protocol driver"},
            {"name": "probe-harnesses", "path": "harness/", "serves_properties": sorted(CLAIMED), "kind_free_text": "C probes that #include /repo sources (ASan/UBSan) and print observables for the correspondence check"}],
        "checks": checks,
        "not_applicable": na,
    }
    json.dump(m, open(os.path.join(ROOT, "MANIFEST.json"), "w"), indent=1)
    print("MANIFEST.json: %d claimed, %d not yet" % (len(checks), len(na)))
if __name__ == "__main__":
    main()
