"""C07  vi cursor motions land where the reference motion semantics say."""
from vlib import *
import gen_vi
from props import vilib

PROP = "C07"; MODULES = ["NeatviVerif.Props.C07", "NeatviVerif.Props.C07b", "NeatviVerif.Props.C07c", "NeatviVerif.Props.C07d"]; MODE = "vi07"

def streams(probe, tier, seed, wide):
    rng = Rng(seed)
    big = tier != "quick" or wide
    cases = gen_vi.motion_cases(rng, 12000 if big else 900, 14 if big else 10)
    return [vilib.vi_stream(probe, "motions", MODE, cases,
        "sequences of 1-14 motions with counts {h l j k 0 ^ $ | w b e W B E f F t T ; , G + - _ RET % { } H M L SPC BS n N / ? ^A marks scrolls z} over files of 0..90 lines with blanks, tabs, punctuation, brackets, multi-byte, wide and right-to-left words, empty and blank-only lines, a missing file, window sizes 5x10..24x80; after every command the reference motion semantics (Spec/Motion.lean) judge the landing position, the text is compared and the cursor must rest on a character; the model runs on the same keys")]

def main(tier, seed, replay):
    return vilib.run_check(PROP, MODULES, MODE, streams, tier, seed, replay, "see MANIFEST level_note")
