"""C15  Global runs its command once per matching line, undone as one step."""
from vlib import *
import gen_ex
from props import exlib

PROP = "C15"; MODULES = ["NeatviVerif.Props.C15", "NeatviVerif.Props.C15b"]; MODE = "ex15"

def streams(probe, tier, seed, wide):
    rng = Rng(seed)
    big = tier != "quick" or wide
    cases = gen_ex.c15_cases(rng, 12000 if big else 1200)
    return [exlib.ex_stream(probe, "global", MODE, cases,
        "g / v / g! x ranges x patterns x command lists {d, s, pu, a with text, relative addresses before and after the current line, two-command lists, k, p, nested g/v, y|pu} over buffers of 3..8 lines, then %p, u, %p; judged by the mark-then-visit reference (first still-marked line of the buffer, whatever the line numbers did) and by 'one u restores the text'; non-trivial = at least two executions")]

def main(tier, seed, replay):
    return exlib.run_check(PROP, MODULES, MODE, streams, tier, seed, replay, "see MANIFEST level_note")
