"""shared pieces of the ex-level checks (stream `ex`, probe_ex)"""
import time
from vlib import *
from props.c01 import relabel_stream

EX_SRCS = ["probe_ex.c", "probe_reg.c", REPO + "/sbuf.c", REPO + "/regex.c", REPO + "/rset.c", REPO + "/rstr.c",
           REPO + "/uc.c", REPO + "/syn.c", REPO + "/conf.c", REPO + "/tag.c", REPO + "/cmd.c"]
EX_FLAGS = ["-fwrapv", "-Wl,--wrap=open,--wrap=write,--wrap=close,--wrap=stat,--wrap=execvp"]

def build(wd):
    return build_harness(wd, "probe_ex", EX_SRCS, extra=EX_FLAGS)

def ex_stream(probe, name, mode, cases, rule, exhaustive=False):
    return relabel_stream(probe, name, "ex", mode, cases, rule, exhaustive=exhaustive, timeout=1200)

def replay(wd, path, mode):
    case = None
    for l in open(path):
        if l.startswith("case:"): case = l[5:].strip()
    if not case or case == "-":
        print("replay file names a theorem, not an input; re-run the check"); return 1
    probe = build(wd)
    kv = dict(t.split("=", 1) for t in case.split()[1:] if "=" in t)
    line = "ex files=%s open=%s script=%s" % (kv.get("files", "-"), kv.get("open", "-"), kv.get("script", "-"))
    sr = ex_stream(probe, "ex", mode, [line], "replay")
    for l in sr.diff + sr.specfail: print(l[:1200])
    for c in sr.crashes: print("CRASH", c)
    bad = bool(sr.specfail or sr.crashes or sr.diff)
    print("replay: %s" % ("fails" if bad else "passes"))
    return 1 if bad else 0

def run_check(prop, modules, mode, make_streams, tier, seed, replay_path, note):
    t0 = time.time()
    proof = prove(prop, modules, thorough=(tier == "thorough"))
    proof["modules"] = modules
    with Workdir() as wd:
        if replay_path:
            return replay(wd, replay_path, mode)
        probe = build(wd)
        st = make_streams(probe, tier, seed, False)
        return decide(prop, tier, seed, proof, st, t0, level_note=note,
                      search=lambda: make_streams(probe, "thorough", seed + 1000, True))
