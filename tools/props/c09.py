"""C09  Repeat, macro and count: '.', '@r' and N-fold equal retyping."""
import re
from vlib import *
import gen_vi
from props import vilib

PROP = "C09"; MODULES = ["NeatviVerif.Props.C09", "NeatviVerif.Props.C09b", "NeatviVerif.Props.C09c"]; MODE = "vi"

def pair_stream(probe, pairs, rule):
    """run both members of every pair, hand each pair's two results to the driver (stream vi09), and the
    single runs to the model correspondence (stream vi)"""
    lines = [x for p in pairs for x in p]
    sr = vilib.vi_stream(probe, "repeat-model", "vi", lines, "the model on both key sequences of every pair")
    outs = []
    for ch in chunks(lines, NCPU * 2):
        o, cr = vilib.run_vi(probe, ch)
        outs += o; sr.crashes += cr
    res = {}
    for o in outs:
        head, _, r = o.partition(" res=")
        res[head] = re.sub(r" CHILD=\w+$", "", r)
    comb = []
    for a, b in pairs:
        if a not in res or b not in res: continue
        ka = dict(t.split("=", 1) for t in a.split()[1:]); kb = dict(t.split("=", 1) for t in b.split()[1:])
        m = re.search(r"4f(.*?)1b5e22717924(6464)", ka["keys"])      # O <macro> ESC ^ " q y $ d d
        macro = ""
        if m: macro = m.group(1).replace("161b", "1b")
        comb.append("vi09 file=%s keysA=%s keysB=%s macro=%s resA=%s resB=%s" % (ka["file"], ka["keys"], kb["keys"], macro, res[a], res[b]))
    sp = StreamResult("repeat"); sp.rule = rule
    for ch in chunks(comb, NCPU):
        sp.merge_driver(run_driver(ch))
    sp.samples = [c[:300] for c in comb[:2]]
    return [sr, sp]

def streams(probe, tier, seed, wide):
    rng = Rng(seed)
    big = tier != "quick" or wide
    pairs = gen_vi.repeat_cases(rng, 6000 if big else 500)
    return pair_stream(probe, pairs,
        "pairs of key sequences over the same file: change c from 60 change commands (operators with motions and searches, inserts with editing keys and multi-byte text, puts, joins, replaces, case, shifts, register prefixes, counts) followed by '.', 'N.', two '.' or '@q' with the register filled from the buffer, against the same keys retyped; the final text, cursor, registers and marks of the two runs of the implementation must be equal")

def main(tier, seed, replay):
    return vilib.run_check(PROP, MODULES, MODE, streams, tier, seed, replay, "see MANIFEST level_note")
