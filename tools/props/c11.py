"""C11  Any pattern string is safely rejected or compiled; matching stays in bounds."""
import time
from vlib import *
import gen_regex
from props.c01 import relabel_stream

PROP = "C11"
MODULES = ["NeatviVerif.Props.C11", "NeatviVerif.Props.C11b"]
RX_SRCS = ["probe_regex.c", REPO + "/rset.c", REPO + "/rstr.c", REPO + "/sbuf.c", REPO + "/uc.c"]
MODE = "rx11"

def build(wd):
    return build_harness(wd, "probe_regex", RX_SRCS, extra=["-fwrapv"])

def streams(tier, seed, wd, wide=False, mode=MODE):
    rng = Rng(seed)
    probe = build(wd)
    big = tier != "quick" or wide
    out = []
    plen = 4 if big else 3
    lines = [b"\n", b"a\n", b"ab\n", b"ba-\n", b"aab\n", b"-\n"]
    cases = [gen_regex.rx(p, l, f) for p in gen_regex.exhaustive_patterns(plen) for l in lines[: (6 if not big else 4)] for f in (0,)]
    out.append(relabel_stream(probe, "meta", "rx", mode, cases,
        "every string of length <= %d over the 19-symbol metacharacter alphabet {a b . * + ? | ( ) [ ] ^ $ \\ < > { } 1 ,} x %d lines; non-trivial = compiled and matched" % (plen, len(lines[: (6 if not big else 4)])), exhaustive=True))
    cases = gen_regex.malformed_cases(rng, 6000 if big else 1500) + gen_regex.random_cases(rng, 2000 if big else 400)
    out.append(relabel_stream(probe, "random", "rx", mode, cases,
        "hand-picked malformed constructs (unbalanced, dangling backslash, big/inverted/overflowing bounds, truncated UTF-8) x 8 lines x icase + random byte strings 1..255 up to 64 bytes + random patterns from the ERE grammar with multi-byte literals and classes"))
    return out

def main(tier, seed, replay):
    t0 = time.time()
    proof = prove(PROP, MODULES, thorough=(tier == "thorough"))
    proof["modules"] = MODULES
    with Workdir() as wd:
        if replay:
            return replay_rx(wd, replay, MODE)
        st = streams(tier, seed, wd)
        return decide(PROP, tier, seed, proof, st, t0,
                      level_note="see MANIFEST level_note",
                      search=lambda: streams("thorough", seed + 1000, wd, wide=True))

def replay_rx(wd, path, mode):
    case = None
    for l in open(path):
        if l.startswith("case:"): case = l[5:].strip()
    if not case or case == "-":
        print("replay file names a theorem, not an input; re-run the check"); return 1
    probe = build(wd)
    kv = dict(t.split("=", 1) for t in case.split()[1:] if "=" in t)
    if "pats" in kv:
        line = "rset pats=%s line=%s flg=%s n=%s" % (kv["pats"], kv["line"], kv.get("flg", "0"), kv.get("n", "3"))
        sr = relabel_stream(probe, "rset", "rset", "rset", [line], "replay")
    else:
        line = "rx pat=%s line=%s flg=%s n=%s" % (kv["pat"], kv["line"], kv.get("flg", "0"), kv.get("n", "4"))
        sr = relabel_stream(probe, "rx", "rx", mode, [line], "replay")
    for l in sr.diff + sr.specfail: print(l[:1000])
    for c in sr.crashes: print("CRASH", c)
    bad = bool(sr.specfail or sr.crashes or sr.diff)
    print("replay: %s" % ("fails" if bad else "passes"))
    return 1 if bad else 0
