"""C06  ex line commands change exactly the addressed lines (reference line editor)."""
from vlib import *
import gen_ex
from props import exlib

PROP = "C06"; MODULES = ["NeatviVerif.Props.C06", "NeatviVerif.Props.C06b", "NeatviVerif.Props.C06c", "NeatviVerif.Props.C06d"]; MODE = "ex06"

def streams(probe, tier, seed, wide):
    rng = Rng(seed)
    big = tier != "quick" or wide
    cases = gen_ex.c06_cases(rng, 20000 if big else 900, 10 if big else 8)
    return [exlib.ex_stream(probe, "scripts", MODE, cases,
        "scripts of 1-8 line commands {a i c d y pu p = k (address only) rs r u redo @ s g} with addresses from numbers . $ marks /re/ ?re? +-n , ; % (incl. address 0, unresolved marks/searches, out-of-range numbers), text blocks with empty and multi-byte lines, registers incl. upper-case append, buffers of 0..7 lines; after every command the reference line editor judges text, printed output, registers and marks")]

def main(tier, seed, replay):
    return exlib.run_check(PROP, MODULES, MODE, streams, tier, seed, replay, "see MANIFEST level_note")
