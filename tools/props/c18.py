"""C18  Bidi reordering is a permutation reversing exactly the opposite-direction runs; shaping."""
import time
from vlib import *
import gen_ren
from props import c17

PROP = "C18"
MODULES = ["NeatviVerif.Props.C18", "NeatviVerif.Props.C18b", "NeatviVerif.Props.C18c"]
MODE = "ren18"

def bidi_cases(rng, count, maxlen):
    """lines biased towards mixed directions and the configured mark patterns"""
    out = []
    for _ in range(count):
        cps = gen_ren.gen_line(rng, maxlen)
        n = len(cps)
        order = rng.choice([1, 2, 2])
        lim = rng.choice([n, n + 1, 100, 1000, 1000])
        td = rng.choice([-2, -1, -1, 0, 1, 1, 2])
        out.append(gen_ren.case(cps, order, lim, td, rng.below(2)))
    return out

def long_runs():
    """one RTL run of k letters inside Latin text, around and beyond the regex depth limit"""
    out = []
    for k in (1, 2, 3, 50, 120, 127, 128, 129, 200, 255, 256, 257, 300):
        cps = [0x61, 0x20] + [0x628] * k + [0x20, 0x62, 10]
        out.append(gen_ren.case(cps, 2, 10000, 1))
    return out

def streams(tier, seed, wd, wide=False):
    rng = Rng(seed)
    probe = c17.build(wd)
    ucprobe = build_harness(wd, "probe_uc", ["probe_uc.c", "probe_uc_rx.c"])
    out = []
    sr = correspond("shape", [[ucprobe, "shape"]], None, exhaustive=True,
        rule="uc_cshape for every code point U+05F0..U+0700 and U+2000..U+2010 (all table letters and their neighbours) x 10 previous x 10 next contexts (dual-joining, right-joining, non-joining, Latin, ZWJ, ZWNJ, tatweel, diacritic, none); non-trivial = cur is a table letter")
    out.append(sr)
    big = (tier != "quick") or wide
    cases = long_runs() + bidi_cases(rng, 30000 if big else 1500, 40 if big else 16)
    out.append(c17.ren_stream(probe, "ren", MODE, cases,
        "random lines mixing Latin, digits, neutrals, Arabic/Persian letters, diacritics, ZWJ/ZWNJ and the configured roff/TeX mark patterns x td{-2..2} x order{1,2} x lim x shape{0,1}; RTL runs of 1..200 letters; the logged rset_find results drive the model's matcher; non-trivial = the visual order differs from the logical order"))
    return out

def main(tier, seed, replay):
    t0 = time.time()
    proof = prove(PROP, MODULES, thorough=(tier == "thorough"))
    proof["modules"] = MODULES
    with Workdir() as wd:
        if replay:
            return c17.do_replay(wd, replay, MODE)
        st = streams(tier, seed, wd)
        return decide(PROP, tier, seed, proof, st, t0,
                      level_note="theorems: dir_fix/dir_reorder yield a permutation for every matcher (fix_perm, reorder_perm); for every in-range matcher no trap, termination within e-b rounds and nothing outside [b,e) moves (fix_frame); no match => identity; one non-nested run is reversed in place and the scan resumes after it (run_step); shaping returns the letter itself or the form of its own table row chosen by the joining context, other characters unchanged, and bisection finds every row of the regenerated table (findAchar_sound/_complete, shape_other, shape_same_letter). That the regex sets return maximal runs (runs_are_maximal) belongs to the regex model (C10) and is tied here by replaying the logged rset_find results.",
                      search=lambda: streams("thorough", seed + 1000, wd, wide=True))
