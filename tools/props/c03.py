"""C03  Writes never clobber foreign or newer files; failures surface and stay dirty."""
from vlib import *
import gen_ex
from props import exlib

PROP = "C03"; MODULES = ["NeatviVerif.Props.C03"]; MODE = "ex03"

def streams(probe, tier, seed, wide):
    rng = Rng(seed)
    big = tier != "quick" or wide
    out = [exlib.ex_stream(probe, "faultgrid", MODE, gen_ex.fault_grid(rng),
        "every position 0..5 in the open/write/close sequence x {error, short count 1, short count 7} x buffer sizes {empty, 1 line, < batch, = batch (4096), 2.5 batches, one line > batch} x {w, wq, x, xa, w other, 1,$w} + short-then-error; target states {absent, own unchanged, own touched, own rewritten, own removed, foreign present/touched} x {w, w!, wq, x, xa, w fb, w! fb, 1w fb}", exhaustive=True)]
    out.append(exlib.ex_stream(probe, "buffers", MODE, gen_ex.buf_cases(rng, 8000 if big else 500),
        "random multi-file histories with writes to own and foreign paths and files changed behind the editor's back"))
    return out

def main(tier, seed, replay):
    return exlib.run_check(PROP, MODULES, MODE, streams, tier, seed, replay, "see MANIFEST level_note")
