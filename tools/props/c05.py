"""C05  No memory errors, crashes or hangs for any command stream over UTF-8 text."""
import time
from vlib import *
import gen_vi, gen_ex
from props import vilib, exlib

PROP = "C05"; MODULES = ["NeatviVerif.Props.C05", "NeatviVerif.Props.C05b", "NeatviVerif.Props.C05c"]
QUIT = "1b1b3a0571210a"        # ESC ESC : ^E q ! RET  (^E: back to the plain keymap at the prompt)

def with_quit(c):
    head, _, keys = c.rpartition(" keys=")
    return head + " keys=" + ("" if keys == "-" else keys) + QUIT

def streams(viprobe, exprobe, tier, seed, wide):
    rng = Rng(seed)
    big = tier != "quick" or wide
    junk = [with_quit(c) for c in gen_vi.junk_cases(rng, 9000 if big else 700)]
    return [vilib.vi_stream(viprobe, "vi-junk", "vi05", junk,
            "nonsensical, truncated and mutated vi key streams (typed text valid UTF-8: ASCII incl. control characters, whole multi-byte characters), files over ASCII / multi-byte / wide / combining / right-to-left text, missing and empty files, windows from 2x2 to 24x80, each ending in ESC ESC : ^E q! RET; under ASan/UBSan with a 20 s limit per case: no sanitizer report, no crash, the quit is reached with every key consumed; the model runs on the same keys"),
            exlib.ex_stream(exprobe, "ex-junk", "ex", gen_ex.junk_ex_cases(rng, 9000 if big else 700),
            "nonsensical, truncated and over-long ex command lines (addresses in and out of range, every command and option name, lines of 500..2000 bytes around the 512-byte limit, text blocks, empty and missing files) ending in q!; under ASan/UBSan; the model runs on the same scripts")]

def main(tier, seed, replay):
    t0 = time.time()
    proof = prove(PROP, MODULES, thorough=(tier == "thorough"))
    proof["modules"] = MODULES
    with Workdir() as wd:
        if replay:
            case = [l[5:].strip() for l in open(replay) if l.startswith("case:")]
            if case and case[-1].startswith("ex"): return exlib.replay(wd, replay, "ex")
            return vilib.replay(wd, replay, "vi05")
        viprobe = vilib.build(wd); exprobe = exlib.build(wd)
        st = streams(viprobe, exprobe, tier, seed, False)
        return decide(PROP, tier, seed, proof, st, t0, level_note="see MANIFEST level_note",
                      search=lambda: streams(viprobe, exprobe, "thorough", seed + 1000, True))
