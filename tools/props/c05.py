"""C05  No memory errors, crashes or hangs for any command stream over UTF-8 text."""
import time
from vlib import *
import gen_vi, gen_ex
from props import vilib, exlib

PROP = "C05"; MODULES = ["NeatviVerif.Props.C05", "NeatviVerif.Props.C05b", "NeatviVerif.Props.C05c", "NeatviVerif.Props.C05d", "NeatviVerif.Props.C05g", "NeatviVerif.Props.C05e", "NeatviVerif.Props.C05f", "NeatviVerif.Props.C05h", "NeatviVerif.Props.C05i", "NeatviVerif.Props.C05j"]
QUIT = "1b1b3a0571210a"        # ESC ESC : ^E q ! RET  (^E: back to the plain keymap at the prompt)

def with_quit(c):
    head, _, keys = c.rpartition(" keys=")
    return head + " keys=" + ("" if keys == "-" else keys) + QUIT

_msan = {}
def msan_probes():
    """the two harnesses once more under MemorySanitizer (uninitialised reads), for the thorough tier"""
    if "vi" not in _msan:
        _msan["wd"] = Workdir(); wd = _msan["wd"].__enter__()
        _msan["vi"] = build_harness(wd, "drive_vi_msan", vilib.VI_SRCS, extra=vilib.VI_FLAGS, cflags=MSAN_CFLAGS)
        _msan["ex"] = build_harness(wd, "probe_ex_msan", exlib.EX_SRCS, extra=exlib.EX_FLAGS, cflags=MSAN_CFLAGS)
    return _msan["vi"], _msan["ex"]

def streams(viprobe, exprobe, tier, seed, wide):
    rng = Rng(seed)
    big = tier != "quick" or wide
    junk = [with_quit(c) for c in gen_vi.junk_cases(rng, 9000 if big else 700) + gen_vi.search_cases(rng, 3000 if big else 260) + gen_vi.edit_cases(rng, 2000 if big else 120)]
    extra = []
    if big:
        mvi, mex = msan_probes()
        mrng = Rng(seed + 5)
        extra = [vilib.vi_stream(mvi, "vi-junk-msan", "vi05", [with_quit(c) for c in gen_vi.junk_cases(mrng, 3000) + gen_vi.edit_cases(mrng, 1500) + gen_vi.op_cases(mrng, 1500)],
                    "the vi junk, editing and operator streams under MemorySanitizer (reads of uninitialised memory), model correspondence as above"),
                 exlib.ex_stream(mex, "ex-junk-msan", "ex", gen_ex.junk_ex_cases(mrng, 3000) + gen_ex.c06_cases(mrng, 1000) + gen_ex.buf_cases(mrng, 1000, 4, 12),
                    "the ex junk, line-command and buffer streams under MemorySanitizer")]
    return extra + [vilib.vi_stream(viprobe, "vi-junk", "vi05", junk,
            "nonsensical, truncated and mutated vi key streams, plus search programs (/ ? n N ^A with counts, empty-matching patterns scanned backward over multi-byte lines) and editing programs (typed text valid UTF-8: ASCII incl. control characters, whole multi-byte characters), files over ASCII / multi-byte / wide / combining / right-to-left text, missing and empty files, windows from 2x2 to 24x80, each ending in ESC ESC : ^E q! RET; under ASan/UBSan with a 20 s limit per case: no sanitizer report, no crash, the quit is reached with every key consumed; the model runs on the same keys"),
            exlib.ex_stream(exprobe, "ex-junk", "ex", gen_ex.junk_ex_cases(rng, 9000 if big else 700),
            "nonsensical, truncated and over-long ex command lines (addresses in and out of range, every command and option name, lines of 500..2000 bytes around the 512-byte limit, text blocks, empty and missing files) ending in q!; under ASan/UBSan; the model runs on the same scripts")]

def main(tier, seed, replay):
    t0 = time.time()
    proof = prove(PROP, MODULES, thorough=(tier == "thorough"))
    proof["modules"] = MODULES
    with Workdir() as wd:
        if replay:
            case = [l[5:].strip() for l in open(replay) if l.startswith("case:")]
            if case and case[-1].startswith("ex"): return exlib.replay(wd, replay, "ex")
            return vilib.replay(wd, replay, "vi05")
        viprobe = vilib.build(wd); exprobe = exlib.build(wd)
        st = streams(viprobe, exprobe, tier, seed, False)
        return decide(PROP, tier, seed, proof, st, t0, level_note="see MANIFEST level_note",
                      search=lambda: streams(viprobe, exprobe, "thorough", seed + 1000, True))
