"""C08  vi operators, inserts, puts and registers transform text per the reference model."""
from vlib import *
import gen_vi
from props import vilib

PROP = "C08"; MODULES = ["NeatviVerif.Props.C08", "NeatviVerif.Props.C08b", "NeatviVerif.Props.C08c", "NeatviVerif.Props.C08d", "NeatviVerif.Props.C08e", "NeatviVerif.Props.C08f", "NeatviVerif.Props.C08g"]; MODE = "vi08"

def streams(probe, tier, seed, wide):
    rng = Rng(seed)
    big = tier != "quick" or wide
    ops = gen_vi.op_cases(rng, 9000 if big else 700)
    mixed = gen_vi.edit_cases(rng, 6000 if big else 400)
    return [vilib.vi_stream(probe, "operators", MODE, ops,
                "sequences of d / y with every judged motion (h l w b e W B E 0 ^ $ | f F t T j k G + - _ % { } H M L SPC BS, doubled), x X D Y, p P, J, r, ~, plain inserts i a I A, with counts on both sides and register prefixes (named, upper-case, numbered, \"\"), u ^R . in between; after every command the span reference (Spec/Motion targets; exclusive / inclusive / line-wise) judges text, cursor and registers (numbered shift, upper-case append)"),
            vilib.vi_stream(probe, "editing", MODE, mixed,
                "mixed motions and editing commands incl. c s S C o O with insert-mode keys (^H ^W ^U ^T ^D ^V), g~ gu gU, < >, :ex lines, macros; model correspondence on every boundary, span reference where the command is in the judged grammar")]

def main(tier, seed, replay):
    return vilib.run_check(PROP, MODULES, MODE, streams, tier, seed, replay, "see MANIFEST level_note")
