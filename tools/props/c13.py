"""C13  Search lands on the first match after / last match before the cursor, no wrap."""
from vlib import *
import gen_vi
from props import vilib

PROP = "C13"; MODULES = ["NeatviVerif.Props.C13", "NeatviVerif.Props.C13b"]; MODE = "vi13"

def streams(probe, tier, seed, wide):
    rng = Rng(seed)
    big = tier != "quick" or wide
    cases = gen_vi.search_cases(rng, 10000 if big else 900, 10 if big else 8)
    return [vilib.vi_stream(probe, "searches", MODE, cases,
        "sequences of / ? n N ^A with counts and line offsets, patterns {literals from the file, anchors ^ $, word boundaries \\< \\>, empty-matching x* ^ $, classes, alternation, groups, multi-byte}, cursor moved in between; every search is judged by the reference: whole-line matching (Spec/RegexSem), first match after / last of the successive matches before the cursor, no wrap, cursor unchanged when nothing is found; found = searches that moved the cursor")]

def main(tier, seed, replay):
    return vilib.run_check(PROP, MODULES, MODE, streams, tier, seed, replay, "see MANIFEST level_note")
