"""C01  Write-out equals buffer text; read-then-write reproduces the file byte for byte."""
import time
from vlib import *
import gen_lbuf

PROP = "C01"
MODULES = ["NeatviVerif.Props.C01"]
LBUF_SRCS = ["probe_lbuf.c", REPO + "/sbuf.c", REPO + "/uc.c"]

def relabel_stream(probe, name, src, dst, cases, rule, exhaustive=False, timeout=900):
    """run a probe over `cases` and relabel the leading stream word for the property-specific judge"""
    from concurrent.futures import ThreadPoolExecutor
    sr = StreamResult(name); sr.rule = rule; sr.exhaustive = exhaustive
    def work(ch):
        outs, cr = run_impl([probe], ch, timeout=timeout)
        outs = [o.replace(src + " ", dst + " ", 1) if o.startswith(src + " ") else o for o in outs]
        return [o for o in outs if not o.endswith(" crash=1")][:2], cr, run_driver(outs)
    with ThreadPoolExecutor(max_workers=NCPU) as ex:
        for outs, cr, d in ex.map(work, chunks(cases, NCPU * 2) if cases else []):
            sr.merge_driver(d); sr.crashes += cr
            if len(sr.samples) < 3: sr.samples += [o[:300] for o in outs if not o.startswith("#")][:1]
    return sr

def streams(tier, seed, wd, wide=False):
    rng = Rng(seed)
    probe = build_harness(wd, "probe_lbuf", LBUF_SRCS)
    t = "thorough" if wide else tier
    cases = gen_lbuf.rdwr_cases(rng, t)
    # the ex-level glue around lbuf_rd / lbuf_wr: :w, ranges, :w! other, :wq, :e
    from props import exlib
    import gen_ex
    exprobe = exlib.build(wd)
    exs = exlib.ex_stream(exprobe, "ex-write", "ex01", gen_ex.c01_cases(rng, 6000 if t != "quick" else 500),
        "scripts of edits (incl. deleting every line), :w, :w! other, range writes, %d|w, :wq, :x, :e! over files that are absent, empty, without final newline, of 600 lines, with lines of 4094..5000 bytes, and over targets longer than what is written: after every successful write the target holds exactly the addressed lines (cut to the new length) and the model agrees on buffer and files")
    return [exs, relabel_stream(probe, "rdwr", "rdwr", "rdwr01", cases,
        "files with a line of length in {0..3,1022..1026,2047..2049,4094..4098,8191..8193}, line pairs straddling the 4 KiB batch, line counts in {0..3,510..514,1022..1026,2047..2049} x ranges, random files over bytes 1..255 (invalid UTF-8 included) x read chunkings x short-write schedules x previous target contents {absent, empty, shorter, equal, longer, much longer}; non-trivial = file > 2 bytes with chunking, schedule or old content")]

def replay_case(wd, path, src, dst, srcs):
    case = None
    for l in open(path):
        if l.startswith("case:"): case = l[5:].strip()
    if not case or case == "-":
        print("replay file names a theorem, not an input; re-run the check"); return 1
    probe = build_harness(wd, "probe", srcs)
    words = case.split(" ")
    keep = [w for w in words[1:] if w.split("=")[0] in ("ops", "file", "chunks", "sched", "old", "beg", "end", "rderr")]
    sr = relabel_stream(probe, src, src, dst, [src + " " + " ".join(keep)], "replay")
    for l in sr.diff + sr.specfail: print(l[:1000])
    for c in sr.crashes: print("CRASH", c)
    bad = bool(sr.specfail or sr.crashes or sr.diff)
    print("replay: %s" % ("fails" if bad else "passes"))
    return 1 if bad else 0

def main(tier, seed, replay):
    t0 = time.time()
    proof = prove(PROP, MODULES, thorough=(tier == "thorough"))
    proof["modules"] = MODULES
    with Workdir() as wd:
        if replay:
            if any(l.startswith("case:") and l[5:].strip().startswith("ex01 ") for l in open(replay)):
                from props import exlib
                return exlib.replay(wd, replay, "ex01")
            return replay_case(wd, replay, "rdwr", "rdwr01", LBUF_SRCS)
        st = streams(tier, seed, wd)
        return decide(PROP, tier, seed, proof, st, t0,
                      level_note="theorems: split_join / lines_wf / split_of_join (line splitting), mem_ok/rdAcc_ok/buf_ok (the read buffer never overflows, for any chunking), rd_any_chunking, writeFully_ok + wr_stream (for every batch size >= 1 and every schedule of short writes the bytes written are exactly the lines and sz their length; the coalescing buffer never overflows), wr_file (any previous content), roundtrip. Sizes 1024/4096/512 are parameters regenerated from lbuf.c. The ex-level glue (:w, ranges, :w! other over longer targets, :wq, :e) is tied by the ex-write stream (model correspondence plus the success_exact judge shared with C03).",
                      search=lambda: streams("thorough", seed + 1000, wd, wide=True))
