"""C20  Each open buffer keeps its own text, position and dirty state across switches."""
from vlib import *
import gen_ex
from props import exlib

PROP = "C20"; MODULES = ["NeatviVerif.Props.C20", "NeatviVerif.Props.C20b", "NeatviVerif.Props.C20c"]; MODE = "ex20"

_vi = {}
def vi_probe():
    """the vi harness, built once per run in a directory of its own (removed at exit)"""
    if "p" not in _vi:
        import atexit, shutil
        from props import vilib
        wd = Workdir(); _vi["wd"] = wd
        atexit.register(lambda: shutil.rmtree(wd.path, ignore_errors=True))
        _vi["p"] = vilib.build(wd)
    return _vi["p"]

def streams(probe, tier, seed, wide):
    rng = Rng(seed)
    big = tier != "quick" or wide
    cases = gen_ex.buf_cases(rng, 12000 if big else 800, 4, 14) + gen_ex.buf_cases(rng, 600 if big else 60, 16, 40)
    import gen_vi
    from props import vilib
    wcases = gen_vi.window_cases(rng, 4000 if big else 300)
    return [vilib.vi_stream(vi_probe(), "vi-windows", "vi20", wcases,
        "vi programs over two files with split windows (^Ws ^Wj ^Wk ^Wo ^Wc ^Wx), :e / :b between them, small edits: a reference that follows which buffer each window shows judges the buffer reached and that no text changes (the implementation alone; windows are outside the model)"),exlib.ex_stream(probe, "buffers", MODE, cases,
        "histories of open/switch (e, e #, b number/+/-/alias), edit, undo, write, delete-buffer over 2..5 files and over 16 files; the dump carries text, row, dirty flag and history position of every buffer; buffers that are not current before and after a command must be unchanged, the buffer left keeps its text/dirty/history and its cursor row, the buffer reached is the one named")]

def main(tier, seed, replay):
    return exlib.run_check(PROP, MODULES, MODE, streams, tier, seed, replay, "see MANIFEST level_note")
