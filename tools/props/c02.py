"""C02  Unsaved changes are never silently discarded on quit, edit or buffer switch."""
from vlib import *
import gen_ex, gen_lbuf
from props import exlib
from props.c01 import relabel_stream, LBUF_SRCS

PROP = "C02"; MODULES = ["NeatviVerif.Props.C02", "NeatviVerif.Props.C02b", "NeatviVerif.Props.C02c", "NeatviVerif.Props.C02d"]; MODE = "ex02"

def streams(probe, tier, seed, wide):
    rng = Rng(seed)
    big = tier != "quick" or wide
    out = [exlib.ex_stream(probe, "buffers", MODE, gen_ex.buf_cases(rng, 15000 if big else 900, 4 if not big else 6, 14),
        "histories over 2..5 files of {edits, u, redo, w, partial-range w, w other, w!, e, e!, e #, b n/+/-/alias, q, x, wq, xa, set aw/wa, files changed behind the editor's back}; a ghost copy of what each file held when last read/written judges the dirty flag of every buffer after every command and the refusal of q/e/b")]
    return out

def main(tier, seed, replay):
    return exlib.run_check(PROP, MODULES, MODE, streams, tier, seed, replay, "see MANIFEST level_note")
