"""C12  Literal-pattern fast path is indistinguishable from the general regex engine."""
import time
from vlib import *
import gen_regex
from props.c01 import relabel_stream
from props import c11

PROP = "C12"
MODULES = ["NeatviVerif.Props.C12"]
MODE = "rx12"

def streams(tier, seed, wd, wide=False):
    rng = Rng(seed)
    probe = c11.build(wd)
    big = tier != "quick" or wide
    out = []
    cases = gen_regex.fast_grid(rng, 3 if big else 2, 5 if big else 4)
    out.append(relabel_stream(probe, "grid", "rx", MODE, cases,
        "{^?}{\\<?}literal{\\>?}{$?} with literals of length <= %d over {a B - e-acute} (and the empty literal) x all lines of length <= %d over {a b B -} x flags {0, icase, notbol, noteol, notbol|noteol}; non-trivial = fast path taken and a match found" % (3 if big else 2, 5 if big else 4), exhaustive=True))
    cases = [gen_regex.rx(p, l, f) for p in gen_regex.exhaustive_patterns(3) for l in (b"a\n", b"ab|\n", b"a^b\n", b"-a.\n") for f in (0,)]
    out.append(relabel_stream(probe, "classifier", "rx", MODE, cases,
        "every pattern of length <= 3 over the metacharacter alphabet: which ones does rstr_simple accept", exhaustive=True))
    cases = gen_regex.random_cases(rng, 3000 if big else 500)
    out.append(relabel_stream(probe, "random", "rx", MODE, cases, "random ERE patterns and lines (multi-byte), all flags"))
    return out

def main(tier, seed, replay):
    t0 = time.time()
    proof = prove(PROP, MODULES, thorough=(tier == "thorough"))
    proof["modules"] = MODULES
    with Workdir() as wd:
        if replay:
            return c11.replay_rx(wd, replay, MODE)
        st = streams(tier, seed, wd)
        return decide(PROP, tier, seed, proof, st, t0, level_note="see MANIFEST level_note",
                      search=lambda: streams("thorough", seed + 1000, wd, wide=True))
