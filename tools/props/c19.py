"""C19  The terminal shows a true window of the buffer with the cursor on its character."""
from vlib import *
import gen_vi, gen_ren
from props import vilib

PROP = "C19"; MODULES = ["NeatviVerif.Props.C19", "NeatviVerif.Props.C19b", "NeatviVerif.Props.C19c", "NeatviVerif.Props.C19d", "NeatviVerif.Props.C19e", "NeatviVerif.Props.C19f", "NeatviVerif.Props.C19g"]; MODE = "vi19"

LED_SRCS = ["probe_led.c"] + [REPO + "/" + f for f in ("ex.c", "lbuf.c", "mot.c", "sbuf.c", "ren.c", "dir.c", "syn.c", "reg.c",
            "uc.c", "term.c", "rset.c", "rstr.c", "regex.c", "cmd.c", "tag.c", "conf.c")]
_led = {}
def led_probe():
    """probe_led includes led.c (led_render is static); built once per run next to the vi driver"""
    if "p" not in _led:
        _led["wd"] = Workdir(); wd = _led["wd"].__enter__()
        _led["p"] = build_harness(wd, "probe_led", LED_SRCS, extra=["-Wl,--wrap=term_cols"])
    return _led["p"]

def led_cases(rng, n, maxlen):
    out = []
    for i in range(n):
        k = rng.below(10)
        if k < 5:      # plain lines: printable ASCII, tabs, wide characters (the reference judges these)
            m = rng.below(maxlen + 1)
            cps = [rng.choice([9] if rng.below(8) == 0 else ([0x4e2d, 0x6587, 0x3042] if rng.below(6) == 0 else list(range(32, 127)))) for _ in range(m)]
            if rng.below(10): cps.append(10)
        else:
            cps = gen_ren.gen_line(rng, maxlen)
        s = "".join(chr(c) for c in cps).encode("utf-8")
        cols = rng.choice([1, 2, 5, 10, 20, 40, 80])
        width = 2 * len(cps) + 4
        left = rng.choice([0, 0, 0, rng.below(width), rng.below(width), cols, 2 * cols])
        out.append("led line=%s left=%d cols=%d order=%d lim=%d td=%d shape=%d" % (hexs(s), left, cols,
                   rng.choice([1, 1, 2, 0]), rng.choice([256, 1000, len(cps)]), rng.choice([0, 1, 1, -1, 2, -2]), rng.below(2)))
    return out

def streams(probe, tier, seed, wide):
    rng = Rng(seed)
    big = tier != "quick" or wide
    cases = gen_vi.screen_cases(rng, 8000 if big else 500, 12 if big else 9)
    lrng = Rng(seed + 77)
    led = correspond("led", [led_probe()], led_cases(lrng, 60000 if big else 4000, 40 if big else 14),
        rule="led_render (the text of one screen row) for random lines (plain ASCII / tabs / wide characters, and the mixed-direction lines of the layout generator) x window [left, left+cols) with cols 1..80 and left inside, at the edge of and beyond the line x order x td x shape: the model's row text equals the implementation's (escapes stripped), and for plain left-to-right lines the row shows exactly the characters whose cells lie inside the window, each at its column, blanks elsewhere")
    return [led, vilib.vi_stream(probe, "screen", MODE, cases,
        "sequences of scrolls (^D ^U ^F ^B ^E ^Y z RET z. z- H M L G), motions, edits (operators, inserts, puts, joins, line deletes above / across / below the window), undo/redo, ex commands and ^L over buffers empty, shorter and longer than the window, windows 4..24 rows x 10..80 columns, lines shorter and longer than the width; the terminal byte stream is interpreted by an emulator and at every command boundary compared with what a full repaint draws on a blank second screen; the repaint is compared with the buffer window for printable-ASCII lines; the window must hold the cursor line and the terminal cursor must be on a cell of the cursor character; the model runs on the same keys")]

def main(tier, seed, replay):
    return vilib.run_check(PROP, MODULES, MODE, streams, tier, seed, replay, "see MANIFEST level_note")
