"""C19  The terminal shows a true window of the buffer with the cursor on its character."""
from vlib import *
import gen_vi
from props import vilib

PROP = "C19"; MODULES = ["NeatviVerif.Props.C19", "NeatviVerif.Props.C19b"]; MODE = "vi19"

def streams(probe, tier, seed, wide):
    rng = Rng(seed)
    big = tier != "quick" or wide
    cases = gen_vi.screen_cases(rng, 8000 if big else 500, 12 if big else 9)
    return [vilib.vi_stream(probe, "screen", MODE, cases,
        "sequences of scrolls (^D ^U ^F ^B ^E ^Y z RET z. z- H M L G), motions, edits (operators, inserts, puts, joins, line deletes above / across / below the window), undo/redo, ex commands and ^L over buffers empty, shorter and longer than the window, windows 4..24 rows x 10..80 columns, lines shorter and longer than the width; the terminal byte stream is interpreted by an emulator and at every command boundary compared with what a full repaint draws on a blank second screen; the repaint is compared with the buffer window for printable-ASCII lines; the window must hold the cursor line and the terminal cursor must be on a cell of the cursor character; the model runs on the same keys")]

def main(tier, seed, replay):
    return vilib.run_check(PROP, MODULES, MODE, streams, tier, seed, replay, "see MANIFEST level_note")
