"""C14  Substitute rewrites exactly the leftmost non-overlapping matches."""
from vlib import *
import gen_ex
from props import exlib

PROP = "C14"; MODULES = ["NeatviVerif.Props.C14", "NeatviVerif.Props.C13b"]; MODE = "ex14"

def streams(probe, tier, seed, wide):
    rng = Rng(seed)
    big = tier != "quick" or wide
    cases = gen_ex.c14_cases(rng, 20000 if big else 1200) + gen_ex.c06_cases(rng, 3000 if big else 200)
    return [exlib.ex_stream(probe, "subst", MODE, cases,
        ":s with patterns {literals, ^ $ anchors, empty-matching x* a*, groups, alternation, brackets, word boundaries, multi-byte} x replacements {text, \\0-\\9, escapes, &, multi-byte} x g on/off x delimiters x ranges x empty pattern (reuse), lines ASCII and multi-byte; every step judged by the reference scan (whole-line matching, one character after an empty match)")]

def main(tier, seed, replay):
    return exlib.run_check(PROP, MODULES, MODE, streams, tier, seed, replay, "see MANIFEST level_note")
