"""C04  Undo and redo restore exact earlier texts, one step per command."""
import time
from vlib import *
import gen_lbuf
from props.c01 import relabel_stream, replay_case, LBUF_SRCS

PROP = "C04"
MODULES = ["NeatviVerif.Props.C04"]

def streams(tier, seed, wd, wide=False):
    rng = Rng(seed)
    probe = build_harness(wd, "probe_lbuf", LBUF_SRCS)
    big = tier != "quick" or wide
    out = []
    depth = 6 if big else 4
    out.append(relabel_stream(probe, "exhaustive", "lops", "lops04", gen_lbuf.exhaustive(depth),
        "all sequences of <= %d commands over {insert a line at 0, delete line 1, insert two lines at 1 (no final newline), replace lines 1-2, undo, redo}, each followed by the sequence bump; judged by the zipper reference after every step" % depth, exhaustive=True))
    cases = [gen_lbuf.history(rng, 30) for _ in range(6000 if big else 400)] + [gen_lbuf.history(rng, 400) for _ in range(60 if big else 6)]
    out.append(relabel_stream(probe, "histories", "lops", "lops04", cases,
        "random well-formed histories (commands of 1-3 splices incl. NULL/empty/multi-line/unterminated texts and out-of-range positions, undo, redo, saved, queries) of 30 and 400 operations (crossing the 128-entry history growth); non-trivial = contains undo/redo"))
    cases = [gen_lbuf.history(rng, 40, wellformed=False, marks=True) for _ in range(4000 if big else 400)]
    out.append(relabel_stream(probe, "raw", "lops", "lops04", cases,
        "histories without command boundaries, with marks and jumps: model and implementation compared on text, return codes, all 32 marks and the history cursor (no reference judgement)"))
    # editor level: every ex command is one undo step of the buffer it changed
    import gen_ex
    from props import exlib
    exprobe = exlib.build(wd)
    cases = gen_ex.buf_cases(rng, 8000 if big else 500, 3, 14) + gen_ex.c06_cases(rng, 6000 if big else 400) + gen_ex.c15_cases(rng, 3000 if big else 200) + gen_ex.c04_cases(rng, 4000 if big else 400)
    out.append(exlib.ex_stream(exprobe, "editor", "ex04", cases,
        "ex scripts over one and several buffers (line commands, :s, :g, e!, buffer switches inside a command line, command lines that edit and then fail or fail and then edit): a per-buffer ghost stack of texts at command boundaries judges every u and redo"))
    # vi level: every command typed in vi mode is one undo step
    import gen_vi
    from props import vilib
    viprobe = vilib.build(wd)
    cases = gen_vi.undo_cases(rng, 4000 if big else 400)
    out.append(vilib.vi_stream(viprobe, "vi-undo", "vi04", cases,
        "vi programs of changing commands, motions, u and ^R, a third of them with the ruler switched off or restricted: a ghost zipper of the texts at command boundaries judges every u and ^R (the implementation alone; the model is compared where it applies)"))
    return out

def main(tier, seed, replay):
    t0 = time.time()
    proof = prove(PROP, MODULES, thorough=(tier == "thorough"))
    proof["modules"] = MODULES
    with Workdir() as wd:
        if replay:
            return replay_case(wd, replay, "lops", "lops04", LBUF_SRCS)
        st = streams(tier, seed, wd)
        return decide(PROP, tier, seed, proof, st, t0,
                      level_note="refines_zipper: for every history of commands (any number of splices each), undo and redo, the model of lbuf.c never traps and its text and return codes equal those of a zipper of whole texts; corollaries undo_exact, redo_exact, edit_truncates_future, undo/redo at the ends fail unchanged, compound_is_one_step. The invariant (groups of equal sequence numbers, faithful splice records, well-formed lines) is in Lemmas/HistInv.lean. Editor-level grouping (that every ex/vi command ends with exactly one bump of the right buffer) is tied under C02/C15/C20.",
                      search=lambda: streams("thorough", seed + 1000, wd, wide=True))
