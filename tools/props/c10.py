"""C10  Regex matches are genuine, leftmost, greedy/left-biased, with right group spans."""
import time
from vlib import *
import gen_regex
from props.c01 import relabel_stream
from props import c11

PROP = "C10"
MODULES = ["NeatviVerif.Props.C10", "NeatviVerif.Props.C10b"]
MODE = "rx10"

def streams(tier, seed, wd, wide=False):
    rng = Rng(seed)
    probe = c11.build(wd)
    big = tier != "quick" or wide
    out = []
    plen, llen = (4, 4) if big else (3, 3)
    cases = list(gen_regex.exhaustive_cases(plen, llen, flags=(0,), line_subset=(5 if big else None)))
    out.append(relabel_stream(probe, "small", "rx", MODE, cases,
        "every pattern of length <= %d over the metacharacter alphabet x lines of length <= %d over {a b -}; judged by the ordered reference semantics (sound, leftmost, first parse, nothing missed when the depth limit did not cut)" % (plen, llen), exhaustive=True))
    cases = gen_regex.random_cases(rng, 6000 if big else 700) + gen_regex.class_cases()
    out.append(relabel_stream(probe, "random", "rx", MODE, cases,
        "random ERE patterns (literals incl. multi-byte, ., brackets with ranges/negation/classes, anchors, groups, |, * + ? {m,n}) x lines x flags {icase, notbol, noteol}; every named class x every ASCII byte x icase; bracket shapes and . x every byte"))
    cases = gen_regex.rset_cases(rng, 4000 if big else 600)
    out.append(relabel_stream(probe, "rset", "rset", "rset", cases, "pattern sets of 1..4 alternatives (some NULL): the reported index is an alternative that matches the reported span on its own"))
    return out

def main(tier, seed, replay):
    t0 = time.time()
    proof = prove(PROP, MODULES, thorough=(tier == "thorough"))
    proof["modules"] = MODULES
    with Workdir() as wd:
        if replay:
            return c11.replay_rx(wd, replay, MODE)
        st = streams(tier, seed, wd)
        return decide(PROP, tier, seed, proof, st, t0, level_note="see MANIFEST level_note",
                      search=lambda: streams("thorough", seed + 1000, wd, wide=True))
