"""C17  Screen-column layout is a gap-free tiling; cursor/column mapping round-trips."""
import time
from vlib import *
import gen_ren

PROP = "C17"
MODULES = ["NeatviVerif.Props.C17", "NeatviVerif.Props.C17b"]
REN_SRCS = ["probe_ren.c", "probe_dir.c", REPO + "/uc.c", REPO + "/sbuf.c", REPO + "/rset.c", REPO + "/regex.c", REPO + "/conf.c"]
MODE = "ren17"

def build(wd):
    return build_harness(wd, "probe_ren", REN_SRCS)

def ren_stream(probe, name, mode, cases, rule, exhaustive=False):
    """run the ren harness and relabel its lines for the property-specific judge"""
    outs_all = []
    sr = StreamResult(name); sr.rule = rule; sr.exhaustive = exhaustive
    from concurrent.futures import ThreadPoolExecutor
    def work(ch):
        outs, cr = run_impl([probe], ch, timeout=600)
        outs = [o.replace("ren ", mode + " ", 1) if o.startswith("ren ") else o for o in outs]
        return [o for o in outs if not o.endswith(" crash=1")][:2], cr, run_driver(outs)
    with ThreadPoolExecutor(max_workers=NCPU) as ex:
        for outs, cr, d in ex.map(work, chunks(cases, NCPU) if cases else []):
            sr.merge_driver(d); sr.crashes += cr
            if len(sr.samples) < 3: sr.samples += [o[:400] for o in outs if not o.startswith("#")][:1]
    return sr

def streams(tier, seed, wd, wide=False):
    rng = Rng(seed)
    probe = build(wd)
    cpprobe = build_harness(wd, "probe_uc", ["probe_uc.c", "probe_uc_rx.c"])
    out = []
    # width classes of all code points (shared with C16's cp stream; judged against the tables)
    lo, hi = 1, 0x10ffff
    n = NCPU * 2
    step = (hi - lo + n) // n
    cmds = [[cpprobe, "cp", "%x" % a, "%x" % min(hi, a + step - 1)] for a in range(lo, hi + 1, step)]
    sr = correspond("cp", cmds, None, rule="uc_wid/uc_isbell/uc_iscomb of every code point U+0001..U+10FFFF against linear membership in the regenerated tables", exhaustive=True)
    if sr.cases != 0x10ffff:
        sr.badcase.append("cp stream covered %d code points, expected %d" % (sr.cases, 0x10ffff))
    out.append(sr)
    cases = gen_ren.tab_cases() + gen_ren.gen_cases(rng, 1500 if (tier == "quick" and not wide) else 30000, 14 if tier == "quick" else 40)
    out.append(ren_stream(probe, "ren", MODE, cases,
        "tabs at every column 0..9 x 4 tails x 2 option sets + random lines over {Latin, digits, neutrals, Arabic, diacritics, ZWJ/ZWNJ, wide, zero-width, bell, roff marks, tab} x order{0,1,2} x td{-2..2} x lim{-1,n-1,n,n+1,100,1000}; all offsets and columns of each line; non-trivial = line has a multi-byte char or a tab"))
    return out

def main(tier, seed, replay):
    t0 = time.time()
    proof = prove(PROP, MODULES, thorough=(tier == "thorough"))
    proof["modules"] = MODULES
    with Workdir() as wd:
        if replay:
            return do_replay(wd, replay, MODE)
        st = streams(tier, seed, wd)
        return decide(PROP, tier, seed, proof, st, t0,
                      level_note="theorems: bisection = table membership on the regenerated sorted tables (wid_is_table), cell width = reference width (cwid_spec) and >= 1 (cwid_pos), fast and reordered layouts are tilings for every permutation (fast_is_layout/layout_step/layout_end/reorder_tiling), offset->column->offset round trip (off_pos_roundtrip, given distinct columns which layout_strict provides for the left-to-right layout). ren_next/ren_cursor/ren_noeol are modelled and tied by the correspondence (judged by next_spec in the driver) but have no theorem yet.",
                      search=lambda: streams("thorough", seed + 1000, wd, wide=True))

def do_replay(wd, path, mode):
    case = None
    for l in open(path):
        if l.startswith("case:"): case = l[5:].strip()
    if not case or case == "-":
        print("replay file names a theorem, not an input; re-run the check"); return 1
    if case.startswith("cp "):
        cpprobe = build_harness(wd, "probe_uc", ["probe_uc.c", "probe_uc_rx.c"])
        c = dict(t.split("=") for t in case.split()[1:])["c"]
        sr = correspond("cp", [[cpprobe, "cp", c, c]], None)
    else:
        probe = build(wd)
        kv = dict(t.split("=", 1) for t in case.split()[1:] if "=" in t)
        line = "ren line=%s order=%s lim=%s td=%s shape=%s" % (kv["line"], kv.get("order", "1"), kv.get("lim", "-1"), kv.get("td", "1"), kv.get("shape", "1"))
        sr = ren_stream(probe, "ren", mode, [line], "replay")
    for l in sr.diff + sr.specfail: print(l[:1000])
    for c in sr.crashes: print("CRASH", c)
    bad = bool(sr.specfail or sr.crashes or sr.diff)
    print("replay: %s" % ("fails" if bad else "passes"))
    return 1 if bad else 0
