"""shared pieces of the vi-level checks (stream `vi`, harness drive_vi)"""
import time, subprocess, re
from concurrent.futures import ThreadPoolExecutor
from vlib import *

VI_SRCS = ["drive_vi.c"] + [REPO + "/" + f for f in ("ex.c", "mot.c", "sbuf.c", "ren.c", "dir.c", "syn.c", "reg.c", "led.c",
           "uc.c", "term.c", "rset.c", "rstr.c", "regex.c", "cmd.c", "tag.c", "conf.c")]
VI_FLAGS = ["-Wl,--wrap=read,--wrap=write,--wrap=poll,--wrap=kill,--wrap=execvp,--wrap=term_room,--wrap=term_pos,--wrap=led_print"]

def build(wd):
    return build_harness(wd, "drive_vi", VI_SRCS, extra=VI_FLAGS)

def run_vi(probe, lines, timeout=1200):
    """drive_vi forks one child per case and always completes the line; a dead child is marked CHILD=..."""
    data = "".join(l + "\n" for l in lines).encode()
    p = subprocess.run([probe], input=data, stdout=subprocess.PIPE, stderr=subprocess.PIPE, timeout=timeout, env=ASAN_ENV)
    outs = [l for l in p.stdout.decode("utf-8", "surrogateescape").split("\n") if l]
    crashes = []
    se = p.stderr
    reports = re.findall(rb"(ERROR: AddressSanitizer: [^\n]*|runtime error: [^\n]*|WARNING: MemorySanitizer: [^\n]*)", se)
    frames = re.findall(rb"#\d+ 0x[0-9a-f]+ in (\w+) [^\n]*?([\w.]+\.[ch]):(\d+)", se)
    k = 0
    for o in outs:
        m = re.search(r" CHILD=(\w+)$", o)
        if m:
            kind = "timeout" if m.group(1) == "sig14" else ("asan" if m.group(1) in ("exit99", "exit98") else ("msan" if m.group(1) == "exit97" else m.group(1)))
            detail = reports[k].decode("utf-8", "replace") if k < len(reports) else ""
            if frames and k == 0: detail += " at " + " < ".join("%s(%s:%s)" % (a.decode(), b.decode(), c.decode()) for a, b, c in frames[:4])
            k += 1
            crashes.append((o.split(" res=")[0], kind, detail))
    if len(outs) != len(lines):
        crashes.append((lines[min(len(outs), len(lines) - 1)], "protocol", "expected %d lines, got %d (rc=%d)" % (len(lines), len(outs), p.returncode)))
    return outs, crashes

def vi_stream(probe, name, mode, cases, rule, exhaustive=False):
    sr = StreamResult(name); sr.rule = rule; sr.exhaustive = exhaustive
    def work(ch):
        outs, cr = run_vi(probe, ch)
        outs = [o.replace("vi ", mode + " ", 1) for o in outs]
        outs = [re.sub(r" CHILD=\w+$", " crash=1", o) for o in outs]
        return outs[:2], cr, run_driver(outs)
    with ThreadPoolExecutor(max_workers=NCPU) as ex:
        for outs, cr, d in ex.map(work, chunks(cases, NCPU * 2) if cases else []):
            sr.merge_driver(d); sr.crashes += cr
            if len(sr.samples) < 3: sr.samples += [o[:300] for o in outs][:1]
    return sr

def replay(wd, path, mode):
    case = None
    for l in open(path):
        if l.startswith("case:"): case = l[5:].strip()
    if not case or case == "-":
        print("replay file names a theorem, not an input; re-run the check"); return 1
    probe = build(wd)
    kv = dict(t.split("=", 1) for t in case.split()[1:] if "=" in t)
    line = "vi file=%s rows=%s cols=%s screen=%s keys=%s" % (kv.get("file", "A"), kv.get("rows", "24"), kv.get("cols", "80"), kv.get("screen", "0"), kv.get("keys", "-"))
    sr = vi_stream(probe, "vi", mode, [line], "replay")
    for l in sr.diff + sr.specfail: print(l[:1500])
    for c in sr.crashes: print("CRASH", c)
    bad = bool(sr.specfail or sr.crashes or sr.diff)
    print("replay: %s" % ("fails" if bad else "passes"))
    return 1 if bad else 0

def run_check(prop, modules, mode, make_streams, tier, seed, replay_path, note):
    t0 = time.time()
    proof = prove(prop, modules, thorough=(tier == "thorough"))
    proof["modules"] = modules
    with Workdir() as wd:
        if replay_path:
            return replay(wd, replay_path, mode)
        probe = build(wd)
        st = make_streams(probe, tier, seed, False)
        return decide(prop, tier, seed, proof, st, t0, level_note=note,
                      search=lambda: make_streams(probe, "thorough", seed + 1000, True))
