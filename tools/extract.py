#!/usr/bin/env python3
"""Translator: regenerate lean/NeatviVerif/Generated/*.lean from /repo's current working tree.

Text-level extraction (C tokenizer + declaration matchers, no compiler).  The same data is
dumped a second way by harness/dump_tables.c (compiled arrays); `crosscheck()` compares them.
"""
import os, re, sys, json, subprocess, hashlib

REPO = os.environ.get("NEATVI_REPO", "/repo")
HERE = os.path.dirname(os.path.abspath(__file__))
ROOT = os.path.dirname(HERE)
GEN = os.path.join(ROOT, "lean", "NeatviVerif", "Generated")

class ExtractError(Exception):
    pass

def src(name):
    with open(os.path.join(REPO, name), "rb") as f:
        return f.read().decode("utf-8", "surrogateescape")

def strip_comments(t):
    out = []; i = 0; n = len(t)
    while i < n:
        c = t[i]
        if c == '"' or c == "'":
            j = i + 1
            while j < n and t[j] != c:
                j += 2 if t[j] == '\\' else 1
            out.append(t[i:j+1]); i = j + 1
        elif t.startswith("/*", i):
            j = t.find("*/", i + 2); j = n if j < 0 else j + 2
            out.append(" "); i = j
        elif t.startswith("//", i):
            j = t.find("\n", i); j = n if j < 0 else j
            i = j
        else:
            out.append(c); i += 1
    return "".join(out)

def find_initializer(text, decl_re):
    """return the text between the braces of `decl_re ... = { ... };`"""
    m = re.search(decl_re, text)
    if not m:
        raise ExtractError("declaration not found: " + decl_re)
    i = text.index("{", m.end() - 1) if text[m.end()-1] != "{" else m.end() - 1
    depth = 0; j = i
    while j < len(text):
        c = text[j]
        if c == '"' or c == "'":
            k = j + 1
            while text[k] != c:
                k += 2 if text[k] == '\\' else 1
            j = k
        elif c == "{": depth += 1
        elif c == "}":
            depth -= 1
            if depth == 0:
                return text[i+1:j]
        j += 1
    raise ExtractError("unterminated initializer: " + decl_re)

def split_top(body):
    """split an initializer body at top-level commas"""
    parts = []; depth = 0; cur = []; j = 0
    while j < len(body):
        c = body[j]
        if c == '"' or c == "'":
            k = j + 1
            while body[k] != c:
                k += 2 if body[k] == '\\' else 1
            cur.append(body[j:k+1]); j = k + 1; continue
        if c in "{(": depth += 1
        if c in "})": depth -= 1
        if c == "," and depth == 0:
            parts.append("".join(cur).strip()); cur = []
        else:
            cur.append(c)
        j += 1
    last = "".join(cur).strip()
    if last: parts.append(last)
    return parts

def cint(tok):
    tok = tok.strip()
    m = re.fullmatch(r"([+-]?)\s*(0[xX][0-9a-fA-F]+|[0-9]+)[uUlL]*", tok)
    if not m:
        m2 = re.fullmatch(r"'(.)'", tok)
        if m2: return ord(m2.group(1))
        # a parenthesised constant, or a shift of two constants: (1 << 20)
        m3 = re.fullmatch(r"\((.*)\)", tok)
        if m3: return cint(m3.group(1))
        m4 = re.fullmatch(r"(.+?)\s*<<\s*(.+)", tok)
        if m4: return cint(m4.group(1)) << cint(m4.group(2))
        raise ExtractError("not an integer constant: %r" % tok)
    v = int(m.group(2), 0)
    return -v if m.group(1) == "-" else v

def rows_of_ints(body, width):
    rows = []
    for p in split_top(body):
        if not (p.startswith("{") and p.endswith("}")):
            raise ExtractError("row is not braced: %r" % p)
        vals = [cint(x) for x in split_top(p[1:-1])]
        if len(vals) > width: raise ExtractError("row too long: %r" % p)
        rows.append(vals + [0] * (width - len(vals)))
    return rows

C_ESC = {"n": 10, "t": 9, "r": 13, "\\": 92, '"': 34, "'": 39, "0": 0, "a": 7, "b": 8, "f": 12, "v": 11, "e": 27}

def cstr_bytes(lit):
    """bytes of a sequence of adjacent C string literals (already macro-expanded)"""
    out = []; i = 0; s = lit.strip()
    while i < len(s):
        if s[i].isspace(): i += 1; continue
        if s[i] != '"': raise ExtractError("not a string literal: %r" % lit)
        i += 1
        while s[i] != '"':
            if s[i] == "\\":
                c = s[i+1]
                if c == "x":
                    m = re.match(r"[0-9a-fA-F]+", s[i+2:]); out.append(int(m.group(0), 16) & 255); i += 2 + len(m.group(0))
                elif c in "01234567":
                    m = re.match(r"[0-7]{1,3}", s[i+1:]); out.append(int(m.group(0), 8) & 255); i += 1 + len(m.group(0))
                elif c in C_ESC: out.append(C_ESC[c]); i += 2
                else: out.append(ord(c)); i += 2
            else:
                out.extend(s[i].encode("utf-8", "surrogateescape")); i += 1
        i += 1
    return out

def defines(text):
    d = {}
    for m in re.finditer(r"^[ \t]*#[ \t]*define[ \t]+(\w+)[ \t]+(.*?)[ \t]*$", text, re.M):
        d[m.group(1)] = m.group(2)
    return d

def expand(expr, defs, depth=0):
    if depth > 8: return expr
    def rep(m):
        w = m.group(0)
        return expand(defs[w], defs, depth + 1) if w in defs else w
    # do not expand inside string literals
    out = []; i = 0
    while i < len(expr):
        if expr[i] == '"':
            k = i + 1
            while expr[k] != '"':
                k += 2 if expr[k] == '\\' else 1
            out.append(expr[i:k+1]); i = k + 1
        else:
            m = re.match(r"\w+", expr[i:])
            if m: out.append(rep(m)); i += len(m.group(0))
            else: out.append(expr[i]); i += 1
    return "".join(out)

def lean_list(xs):
    return "[" + ", ".join(str(x) for x in xs) + "]"

def lean_rows(rows, per=4):
    lines = []
    for i in range(0, len(rows), per):
        lines.append("  " + ", ".join("(" + ", ".join(str(v) for v in r) + ")" for r in rows[i:i+per]))
    return "[\n" + ",\n".join(lines) + "]"

def extract_all():
    data = {}
    uc = strip_comments(src("uc.c"))
    data["achars"] = rows_of_ints(find_initializer(uc, r"\bachars\s*\[\s*\]\s*=\s*\{"), 5)
    for t in ("dwchars", "zwchars", "bchars"):
        data[t] = rows_of_ints(find_initializer(uc, r"\b%s\s*\[\s*\]\s*\[\s*2\s*\]\s*=\s*\{" % t), 2)
    # UC_R2L mask tests: list of (mask, value)
    m = re.search(r"#define\s+UC_R2L\(ch\)((?:.*\\\n)*.*)", src("uc.c"))
    if not m: raise ExtractError("UC_R2L not found")
    data["uc_r2l"] = [[cint(a), cint(b)] for a, b in re.findall(r"\(\(ch\)\s*&\s*(0x[0-9a-fA-F]+)\)\s*==\s*(0x[0-9a-fA-F]+)", m.group(1))]
    if not data["uc_r2l"]: raise ExtractError("UC_R2L tests not parsed")
    # uc_acomb ranges
    body = re.search(r"static int uc_acomb\(int c\)\s*\{(.*?)\n\}", uc, re.S)
    if not body: raise ExtractError("uc_acomb not found")
    rng = [[cint(a), cint(b)] for a, b in re.findall(r"c\s*>=\s*(0x[0-9a-fA-F]+)\s*&&\s*c\s*<=\s*(0x[0-9a-fA-F]+)", body.group(1))]
    rng += [[cint(a), cint(a)] for a in re.findall(r"c\s*==\s*(0x[0-9a-fA-F]+)", body.group(1))]
    data["acomb"] = rng
    # conf.h
    confraw = src("conf.h")
    conf = strip_comments(confraw)
    defs = defines(conf)
    def S(e): return cstr_bytes(expand(e, defs))
    data["CR2L"] = S("CR2L"); data["CNEUT"] = S("CNEUT")
    dc = []
    for p in split_top(find_initializer(conf, r"\bdircontexts\s*\[\s*\]\s*=\s*\{")):
        f = split_top(p[1:-1]); dc.append([cint(f[0]), S(f[1])])
    data["dircontexts"] = dc
    dm = []
    for p in split_top(find_initializer(conf, r"\bdirmarks\s*\[\s*\]\s*=\s*\{")):
        f = split_top(p[1:-1]); dm.append([cint(f[0]), cint(f[1]), cint(f[2]), S(f[3])])
    data["dirmarks"] = dm
    ph = []
    for p in split_top(find_initializer(conf, r"\bplaceholders\s*\[\s*\]\s*=\s*\{")):
        f = split_top(p[1:-1]); ph.append([S(f[0]), S(f[1]), cint(f[2])])
    data["placeholders"] = ph
    # kmap.h: keymaps and digraphs
    km = strip_comments(src("kmap.h"))
    order = re.search(r"\bkmaps\s*\[\s*\]\s*=\s*\{([^}]*)\}", km)
    if not order: raise ExtractError("kmaps[] not found")
    kmaps = []
    for name in [x.strip() for x in order.group(1).split(",") if x.strip()]:
        body = find_initializer(km, r"\b%s\s*\[\s*256\s*\]\s*=\s*\{" % re.escape(name))
        ent = []
        for p in split_top(body):
            m = re.match(r"\s*\[\s*(.+?)\s*\]\s*=\s*(\".*\")\s*$", p, re.S)
            if not m: raise ExtractError("keymap entry not parsed: %r" % p)
            idx = m.group(1)
            if idx.startswith("'"):
                body_c = idx[1:-1]
                k = C_ESC[body_c[1]] if body_c.startswith("\\") and body_c[1] in C_ESC else (ord(body_c[1]) if body_c.startswith("\\") else ord(body_c))
            else: k = cint(idx)
            ent.append([k, cstr_bytes(m.group(2))])
        kmaps.append(ent)
    data["kmaps"] = kmaps
    dg = []
    for p in split_top(find_initializer(km, r"\bdigraphs\s*\[\s*\]\s*\[\s*2\s*\]\s*=\s*\{")):
        f = split_top(p[1:-1]); dg.append([cstr_bytes(f[0]), cstr_bytes(f[1])])
    data["digraphs"] = dg
    # regex.c
    rx = strip_comments(src("regex.c"))
    rdefs = defines(rx)
    for k in ("NGRPS", "NREPS", "NDEPT", "NCODE"):
        data[k] = cint(expand(rdefs[k], rdefs))
    bc = []
    for p in split_top(find_initializer(rx, r"\bbrk_classes\s*\[\s*\]\s*\[\s*2\s*\]\s*=\s*\{")):
        f = split_top(p[1:-1]); bc.append([cstr_bytes(f[0]), cstr_bytes(f[1])])
    data["brk_classes"] = bc
    m = re.search(r'strchr\(\s*("(?:[^"\\]|\\.)*")\s*,\s*\(unsigned char\)\s*s\[0\]\)', rx)
    data["ratom_special"] = cstr_bytes(m.group(1)) if m else None
    m = re.search(r'strchr\(\s*("(?:[^"\\]|\\.)*")\s*,\s*\(unsigned char\)\s*s\[l\]\)', rx)
    data["rep_chars"] = cstr_bytes(m.group(1)) if m else None
    # rstr.c
    rs = strip_comments(src("rstr.c"))
    m = re.search(r'strchr\(\s*("(?:[^"\\]|\\.)*")\s*,', rs)
    data["rstr_stop"] = cstr_bytes(m.group(1)) if m else None
    # sbuf.c / lbuf.c sizes
    sb = strip_comments(src("sbuf.c")); sdefs = defines(sb)
    data["SBUFSZ"] = cint(sdefs["SBUFSZ"])
    lb = strip_comments(src("lbuf.c")); ldefs = defines(lb)
    data["NMARKS"] = cint(ldefs["NMARKS"])
    m = re.search(r"lbuf_rd\(.*?char buf\[(.*?)\];", lb, re.S); data["RD_CHUNK"] = eval_shift(m.group(1))
    m = re.search(r"lbuf_wr\(.*?char buf\[(.*?)\];", lb, re.S); data["WR_BATCH"] = eval_shift(m.group(1))
    m = re.search(r"lb->ln_sz \? lb->ln_sz : (\d+)", lb); data["LN_INIT"] = int(m.group(1))
    m = re.search(r"lb->hist_sz \? lb->hist_sz : (\d+)", lb); data["HIST_INIT"] = int(m.group(1))
    vh = strip_comments(src("vi.h")); vdefs = defines(vh)
    ex = strip_comments(src("ex.c")); edefs = defines(ex)
    data["EXLEN"] = cint(vdefs["EXLEN"]) if "EXLEN" in vdefs else cint(edefs["EXLEN"])
    m = re.search(r"\bbufs\[(\d+)\]", ex); data["NBUFS"] = int(m.group(1))
    cmds = []
    for p in split_top(find_initializer(ex, r"\bexcmds\s*\[\s*\]\s*=\s*\{")):
        f = split_top(p[1:-1]); cmds.append([cstr_bytes(f[0]), cstr_bytes(f[1]), f[2].strip()])
    data["excmds"] = cmds
    opts = []
    for p in split_top(find_initializer(ex, r"\boptions\s*\[\s*\]\s*=\s*\{")):
        f = split_top(p[1:-1]); opts.append([cstr_bytes(f[0]), cstr_bytes(f[1]), f[2].strip().lstrip("&")])
    data["options"] = opts
    m = re.search(r'strchr\(\s*("(?:[^"\\]|\\.)*")\s*,\s*\(unsigned char\)\s*\*src\)', ex)
    data["loc_chars"] = cstr_bytes(m.group(1)) if m else None
    return data

def eval_shift(e):
    e = e.strip()
    m = re.fullmatch(r"(\d+)\s*<<\s*(\d+)", e)
    if m: return int(m.group(1)) << int(m.group(2))
    return cint(e)

def render(data):
    L = []
    L.append("/- GENERATED by tools/extract.py from /repo's working tree.  Do not edit. -/")
    L.append("namespace Neatvi.Gen\n")
    L.append("/-- `achars` of uc.c: (c, single, initial, medial, final) -/")
    L.append("def achars : List (Nat × Nat × Nat × Nat × Nat) := " + lean_rows(data["achars"], 3) + "\n")
    for t in ("dwchars", "zwchars", "bchars"):
        L.append("def %s : List (Nat × Nat) := %s\n" % (t, lean_rows(data[t], 6)))
    L.append("/-- UC_R2L(ch): (mask, value) tests -/")
    L.append("def ucR2L : List (Nat × Nat) := " + lean_rows(data["uc_r2l"]) + "\n")
    L.append("def acomb : List (Nat × Nat) := " + lean_rows(data["acomb"]) + "\n")
    L.append("def CR2L : List Nat := " + lean_list(data["CR2L"]) + "\n")
    L.append("def CNEUT : List Nat := " + lean_list(data["CNEUT"]) + "\n")
    L.append("def dircontexts : List (Int × List Nat) := [" + ",\n  ".join("(%d, %s)" % (d, lean_list(p)) for d, p in data["dircontexts"]) + "]\n")
    L.append("/-- (ctx, dir, grp, pat) -/")
    L.append("def dirmarks : List (Int × Int × Nat × List Nat) := [" + ",\n  ".join("(%d, %d, %d, %s)" % (a, b, c, lean_list(p)) for a, b, c, p in data["dirmarks"]) + "]\n")
    L.append("/-- (source, placeholder, width) -/")
    L.append("def placeholders : List (List Nat × List Nat × Nat) := [" + ",\n  ".join("(%s, %s, %d)" % (lean_list(s), lean_list(d), w) for s, d, w in data["placeholders"]) + "]\n")
    L.append("/-- `kmaps[]` of kmap.h: per keymap the (key, text) entries -/")
    L.append("def kmaps : List (List (Nat × List Nat)) := [" + ",\n  ".join("[" + ", ".join("(%d, %s)" % (k, lean_list(v)) for k, v in km) + "]" for km in data["kmaps"]) + "]\n")
    L.append("def digraphs : List (List Nat × List Nat) := [" + ",\n  ".join("(%s, %s)" % (lean_list(a), lean_list(b)) for a, b in data["digraphs"]) + "]\n")
    L.append("def brkClasses : List (List Nat × List Nat) := [" + ",\n  ".join("(%s, %s)" % (lean_list(a), lean_list(b)) for a, b in data["brk_classes"]) + "]\n")
    for k in ("ratom_special", "rep_chars", "rstr_stop"):
        if data[k] is None: raise ExtractError("decision string not found: " + k)
    L.append("def ratomSpecial : List Nat := " + lean_list(data["ratom_special"]))
    L.append("def repChars : List Nat := " + lean_list(data["rep_chars"]))
    L.append("def rstrStop : List Nat := " + lean_list(data["rstr_stop"]) + "\n")
    L.append("/-- `excmds[]` of ex.c: (abbr, name, handler) -/")
    L.append("def excmds : List (List Nat × List Nat × String) := [" + ",\n  ".join('(%s, %s, "%s")' % (lean_list(a), lean_list(b), c) for a, b, c in data["excmds"]) + "]\n")
    L.append("/-- `options[]` of ex.c: (abbr, name, variable) -/")
    L.append("def options : List (List Nat × List Nat × String) := [" + ",\n  ".join('(%s, %s, "%s")' % (lean_list(a), lean_list(b), c) for a, b, c in data["options"]) + "]\n")
    if data["loc_chars"] is None: raise ExtractError("ex_loc character set not found")
    L.append("def locChars : List Nat := " + lean_list(data["loc_chars"]) + "\n")
    for k in ("NGRPS", "NREPS", "NDEPT", "NCODE", "SBUFSZ", "NMARKS", "RD_CHUNK", "WR_BATCH", "LN_INIT", "HIST_INIT", "EXLEN", "NBUFS"):
        L.append("def %s : Nat := %d" % (k, data[k]))
    L.append("\nend Neatvi.Gen")
    return "\n".join(L) + "\n"

def write_if_changed(path, text):
    old = None
    if os.path.exists(path):
        with open(path) as f: old = f.read()
    if old != text:
        with open(path, "w") as f: f.write(text)
        return True
    return False

def main():
    data = extract_all()
    os.makedirs(GEN, exist_ok=True)
    changed = write_if_changed(os.path.join(GEN, "Tables.lean"), render(data))
    with open(os.path.join(GEN, "tables.json"), "w") as f:
        json.dump(data, f)
    print("extract: Generated/Tables.lean %s" % ("rewritten" if changed else "unchanged"))

if __name__ == "__main__":
    try:
        main()
    except ExtractError as e:
        print("extract: ERROR " + str(e)); sys.exit(3)
