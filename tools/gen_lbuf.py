"""generators for the lbuf streams: `lops` (edit/undo/redo histories) and `rdwr` (read/write)"""
import itertools
from vlib import Rng, hexs

LINES = [b"a", b"b", b"", b"\xc3\xa9", b"x y", b"\xff\x01", b"zz\tq"]

def rand_text(rng, maxlines=3):
    n = rng.below(maxlines + 1)
    parts = [rng.choice(LINES) for _ in range(n)]
    s = b"\n".join(parts)
    if n and rng.below(3) != 0:
        s += b"\n"
    return s

def edit_op(rng, nlines):
    r = rng.below(10)
    if r < 1:
        beg = rng.below(nlines + 3); end = beg + rng.below(3)       # possibly beyond the end (clamped)
    else:
        beg = rng.below(nlines + 1); end = min(nlines, beg + rng.below(3)) if rng.below(3) else beg
    if end < beg: end = beg
    t = rng.below(10)
    if t < 2: return "e:%d:%d:N" % (beg, end)
    s = rand_text(rng)
    return "e:%d:%d:%s" % (beg, end, hexs(s))

def history(rng, nops, wellformed=True, marks=False):
    ops = []
    nlines = 0   # rough estimate only used to pick positions
    for _ in range(nops):
        r = rng.below(20)
        if r < 9:
            k = 1 + (rng.below(3) if rng.below(4) == 0 else 0)
            for _ in range(k):
                ops.append(edit_op(rng, nlines)); nlines = max(0, nlines + rng.below(3) - 1) + 1
            if wellformed or rng.below(2): ops.append("b")
        elif r < 13:
            ops.append("u")
            if wellformed or rng.below(2): ops.append("b")
        elif r < 16:
            ops.append("r")
            if wellformed or rng.below(2): ops.append("b")
        elif r < 17:
            ops.append("s0")
        elif r < 18:
            ops.append("q")
        elif marks:
            c = rng.choice([97, 98, 122, 39, 91, 93, 94, 42])
            if rng.below(2): ops.append("m:%d:%d:%d" % (c, rng.below(nlines + 1), rng.below(4)))
            else: ops.append("j:%d" % c)
        else:
            ops.append("b")
    return "lops ops=" + ";".join(ops)

ALPHA = ["e:0:0:610a", "e:0:1:N", "e:1:1:620a63", "e:0:2:7a0a", "u", "r"]

def exhaustive(depth):
    out = []
    for n in range(1, depth + 1):
        for t in itertools.product(ALPHA, repeat=n):
            out.append("lops ops=" + ";".join(o + ";b" for o in t))
    return out

def saved_histories(rng, count):
    """histories for the dirty flag: edits, undo/redo, saved, queries"""
    out = []
    for _ in range(count):
        ops = []
        n = 2 + rng.below(30)
        nlines = 0
        for _ in range(n):
            r = rng.below(12)
            if r < 4:
                ops += [edit_op(rng, nlines), "q"]; nlines += 1
            elif r < 6: ops += ["u", "q"]
            elif r < 8: ops += ["r", "q"]
            elif r < 10: ops += ["s0", "q"]
            elif r < 11: ops += ["s1", "q"]
            else: ops += ["q"]
        out.append("lops ops=" + ";".join(ops))
    return out

# ---------------------------------------------------------------- rdwr

LLENS = [0, 1, 2, 3, 1022, 1023, 1024, 1025, 1026, 2047, 2048, 2049, 4094, 4095, 4096, 4097, 4098, 8191, 8192, 8193]
LCOUNTS = [0, 1, 2, 3, 510, 511, 512, 513, 514, 1022, 1023, 1024, 1025, 1026, 2047, 2048, 2049]

def rand_bytes(rng, n, mode):
    if mode == 0: return bytes([97 + (i % 26) for i in range(n)])
    out = bytearray()
    while len(out) < n:
        b = 1 + rng.below(255)
        if b == 10: b = 11
        out.append(b)
    return bytes(out)

def make_file(rng, nlines, lens, final_nl, mode):
    parts = [rand_bytes(rng, lens(i), mode) for i in range(nlines)]
    s = b"\n".join(parts)
    if nlines and final_nl: s += b"\n"
    return s

def rdwr_case(rng, data, beg=0, end=-1, chunks=None, sched=None, old=None, rderr=0):
    return "rdwr file=%s chunks=%s sched=%s old=%s beg=%d end=%d rderr=%d" % (
        hexs(data), ",".join(map(str, chunks)) if chunks else "-", ",".join(map(str, sched)) if sched else "-",
        "A" if old is None else hexs(old), beg, end, rderr)

def old_variants(rng, n):
    return [None, b"", b"x" * max(0, n - 1), b"y" * n, b"z" * (n + 1), b"w" * (n + 5000)]

def rdwr_cases(rng, tier, faults=False):
    out = []
    # boundary line lengths: one long line between short ones
    for ll in LLENS:
        for fin in (0, 1):
            lens = lambda i, ll=ll: [1, ll, 2][i % 3]
            data = make_file(rng, 3, lens, fin, rng.below(2))
            olds = old_variants(rng, len(data) + (0 if fin else 1))
            out.append(rdwr_case(rng, data, old=rng.choice(olds), chunks=[rng.choice([1, 7, 1024, 1000, 333])] if rng.below(2) else None))
    # two lines whose sum straddles the batch
    for a in (4090, 4094, 4095, 4096):
        for b in (0, 1, 2, 5, 6, 4095, 4096):
            data = make_file(rng, 2, lambda i, a=a, b=b: [a, b][i], 1, 0)
            out.append(rdwr_case(rng, data, old=b"q" * (len(data) + 3)))
    # boundary line counts (short lines)
    counts = LCOUNTS if tier != "quick" else [0, 1, 2, 511, 512, 513, 1023, 1024, 1025]
    for lc in counts:
        data = make_file(rng, lc, lambda i: i % 3, rng.below(2), 0)
        n = lc
        rngs = [(0, -1), (0, n), (n // 2, n), (0, max(0, n - 1)), (min(1, n), min(2, n)), (n, n)]
        for (b, e) in rngs[: (3 if tier == "quick" else 6)]:
            out.append(rdwr_case(rng, data, beg=b, end=e, old=rng.choice([None, b"", b"o" * 10, b"o" * (len(data) + 7)])))
    # random files
    nrand = 150 if tier == "quick" else 3000
    for _ in range(nrand):
        nl = rng.choice([0, 1, 2, 3, 5, 9, 40])
        mx = rng.choice([0, 1, 3, 20, 200, 1500, 5000])
        data = make_file(rng, nl, lambda i: rng.below(mx + 1), rng.below(3) != 0, 1)
        n = data.count(b"\n") + (1 if data and not data.endswith(b"\n") else 0)
        b = rng.below(n + 1); e = b + rng.below(n - b + 1)
        if rng.below(3) == 0: b, e = 0, -1
        chunks = [1 + rng.below(rng.choice([3, 50, 1200])) for _ in range(1 + rng.below(4))] if rng.below(2) else None
        sched = None
        if rng.below(2):
            sched = [1 + rng.below(rng.choice([2, 10, 5000])) for _ in range(rng.below(6))]
        out.append(rdwr_case(rng, data, beg=b, end=e, chunks=chunks, sched=sched, old=rng.choice(old_variants(rng, len(data)))))
    return out

def fault_cases(rng, tier):
    """C03: every position in the sequence of write calls x {error, short count} x size classes"""
    out = []
    sizes = {
        "zero": b"", "one": b"l1\n", "sub": b"".join(b"line %d\n" % i for i in range(100)),
        "batch": b"".join((b"%07d\n" % i) for i in range(512)),            # exactly 4096 bytes
        "multi": b"".join((b"%07d\n" % i) for i in range(1280)),           # 2.5 batches
        "bigline": b"a\n" + b"B" * 5000 + b"\nc\n",
    }
    for name, data in sizes.items():
        maxcalls = 8
        for pos in range(maxcalls):
            for kind in ("e", 1, 7, 4095):
                sched = [100000] * pos + [kind]
                out.append(rdwr_case(rng, data, sched=sched, old=rng.choice([None, b"old content that is longer than nothing\n" * 3])))
            # two faults: a short count followed by an error
            out.append(rdwr_case(rng, data, sched=[100000] * pos + [3, "e"], old=b"previous\n"))
    return out
