#!/usr/bin/env python3
"""Shared machinery of the checks: extract -> prove -> audit -> correspond -> decide -> evidence."""
import os, sys, re, json, time, subprocess, tempfile, shutil, fcntl, hashlib, random, itertools
from concurrent.futures import ThreadPoolExecutor

HERE = os.path.dirname(os.path.abspath(__file__))
ROOT = os.path.dirname(HERE)
LEAN = os.path.join(ROOT, "lean")
REPO = os.environ.get("NEATVI_REPO", "/repo")
HARNESS = os.path.join(ROOT, "harness")
DRIVER = os.path.join(LEAN, ".lake", "build", "bin", "driver")
GUARD = "NEATVI_VERIF"
NCPU = os.cpu_count() or 4
CFLAGS = ["-g", "-O1", "-fsanitize=address,undefined", "-fno-sanitize-recover=all", "-fno-sanitize=nonnull-attribute",
          "-fno-omit-frame-pointer", "-D" + GUARD, "-w"]
ALLOWED_AXIOMS = {"propext", "Classical.choice", "Quot.sound"}
FORBIDDEN = re.compile(r"\b(sorry|admit|native_decide|bv_decide|implemented_by|unsafe)\b|^\s*axiom\s|maxHeartbeats\s+0")

def log(msg):
    print(msg, flush=True)

class Lock:
    def __init__(self, name="lean.lock"):
        self.path = os.path.join(ROOT, "." + name)
    def __enter__(self):
        self.f = open(self.path, "w")
        fcntl.flock(self.f, fcntl.LOCK_EX)
        return self
    def __exit__(self, *a):
        fcntl.flock(self.f, fcntl.LOCK_UN)
        self.f.close()

def run(cmd, cwd=None, timeout=None, inp=None, env=None):
    p = subprocess.run(cmd, cwd=cwd, timeout=timeout, input=inp, env=env,
                       stdout=subprocess.PIPE, stderr=subprocess.STDOUT)
    return p.returncode, p.stdout.decode("utf-8", "replace")

# ---------------------------------------------------------------- extract + prove + audit

def strip_lean_comments(t):
    out = []; i = 0; depth = 0; n = len(t)
    while i < n:
        if t.startswith("/-", i):
            depth += 1; i += 2
        elif depth and t.startswith("-/", i):
            depth -= 1; i += 2
        elif depth:
            if t[i] == "\n": out.append("\n")
            i += 1
        elif t.startswith("--", i):
            j = t.find("\n", i); i = n if j < 0 else j
        elif t[i] == '"':
            j = i + 1
            while j < n and t[j] != '"':
                j += 2 if t[j] == "\\" else 1
            out.append('""'); i = j + 1
        else:
            out.append(t[i]); i += 1
    return "".join(out)

def lean_imports(modfile):
    """transitive NeatviVerif imports of a module file"""
    seen = {}
    def visit(path):
        if path in seen or not os.path.exists(path): return
        seen[path] = True
        for m in re.finditer(r"^import\s+(NeatviVerif[\w.]*)", open(path).read(), re.M):
            visit(os.path.join(LEAN, m.group(1).replace(".", "/") + ".lean"))
    visit(modfile)
    return list(seen)

def scan_forbidden(files):
    hits = []
    for f in files:
        txt = strip_lean_comments(open(f).read())
        for k, line in enumerate(txt.split("\n"), 1):
            if FORBIDDEN.search(line):
                hits.append("%s:%d: %s" % (os.path.relpath(f, LEAN), k, line.strip()[:100]))
    return hits

def theorem_at(path, lineno):
    """name of the theorem enclosing a line of a lean file"""
    name = None
    try:
        for k, line in enumerate(open(path), 1):
            m = re.match(r"\s*(?:private\s+)?(?:theorem|lemma|def|example|instance)\s+([\w.'?!]+)?", line)
            if m and k <= lineno: name = m.group(1) or "example"
            if k > lineno: break
    except OSError:
        pass
    return name

def prove(prop, modules, thorough=False):
    """regenerate data, build the property's modules and the driver, audit.  Returns a dict."""
    res = {"extract_ok": True, "extract_msg": "", "build_ok": True, "failed": [], "obligations": 0,
           "discharged": 0, "theorems": [], "forbidden": [], "driver_ok": True, "log": "", "leanchecker": None}
    with Lock():
        rc, out = run([sys.executable, os.path.join(HERE, "extract.py")])
        res["extract_msg"] = out.strip()
        if rc != 0:
            res["extract_ok"] = False
        rc, out = run(["lake", "build", "driver"], cwd=LEAN, timeout=3000)
        res["log"] += out
        if rc != 0:
            res["driver_ok"] = False
        for mod in modules:
            rc, out = run(["lake", "build", mod], cwd=LEAN, timeout=3000)
            if rc != 0:
                res["build_ok"] = False
                res["log"] += out
                for m in re.finditer(r"error: (NeatviVerif/[\w/]+\.lean):(\d+):\d+: (.*)", out):
                    th = theorem_at(os.path.join(LEAN, m.group(1)), int(m.group(2)))
                    item = {"file": m.group(1), "line": int(m.group(2)), "theorem": th, "msg": m.group(3)[:200]}
                    if not any(x["file"] == item["file"] and x["theorem"] == item["theorem"] for x in res["failed"]):
                        res["failed"].append(item)
                if not res["failed"]:
                    res["failed"].append({"file": mod, "line": 0, "theorem": None, "msg": out[-400:]})
        # count obligations from the source even when the build fails
        declared = []
        for mod in modules:
            path = os.path.join(LEAN, mod.replace(".", "/") + ".lean")
            txt = strip_lean_comments(open(path).read())
            declared += re.findall(r"^theorem\s+([\w.'?!]+)", txt, re.M)
        res["obligations"] = len(declared)
        if res["build_ok"]:
            # audit: `#print axioms` for every theorem declared in the property module (names parsed from the
            # source, namespace taken from the file), in one lean run that imports only that module
            for mod in modules:
                path = os.path.join(LEAN, mod.replace(".", "/") + ".lean")
                txt = strip_lean_comments(open(path).read())
                # fully qualified names: follow `namespace X` / `end X` through the file
                stack = []; full = []
                for line in txt.split("\n"):
                    m = re.match(r"^namespace\s+([\w.]+)", line)
                    if m: stack.append(m.group(1)); continue
                    m = re.match(r"^end\s+([\w.]+)\s*$", line)
                    if m and stack and stack[-1] == m.group(1): stack.pop(); continue
                    m = re.match(r"^theorem\s+([\w.'?!]+)", line)
                    if m: full.append((".".join(stack) + "." if stack else "") + m.group(1))
                names = [n.split(".")[-1] if False else n for n in full]
                audit = os.path.join(LEAN, ".lake", "audit_%s.lean" % mod.split(".")[-1])
                with open(audit, "w") as f:
                    f.write("import %s\n" % mod + "".join("#print axioms %s\n" % n for n in full))
                env = dict(os.environ, LEAN_PATH=os.path.join(LEAN, ".lake", "build", "lib", "lean"))
                rc, out = run(["lean", audit], cwd=LEAN, timeout=1200, env=env)
                seen = set()
                for mm in re.finditer(r"'(\S+)' (depends on axioms: \[([^\]]*)\]|does not depend on any axioms)", out.replace("\n", " ")):
                    axs = [a.strip() for a in (mm.group(3) or "").split(",") if a.strip()]
                    bad = [a for a in axs if a not in ALLOWED_AXIOMS]
                    seen.add(mm.group(1))
                    res["theorems"].append({"name": mm.group(1), "axioms": axs, "bad": bad})
                    if bad:
                        res["failed"].append({"file": mod, "line": 0, "theorem": mm.group(1), "msg": "axioms " + ",".join(bad)})
                for n in names:
                    if n not in seen:
                        res["failed"].append({"file": mod, "line": 0, "theorem": n, "msg": "audit: no axiom report (%s)" % out[-200:].replace("\n", " ")})
            res["discharged"] = len([t for t in res["theorems"] if not t["bad"]])
            res["obligations"] = max(res["obligations"], len(res["theorems"]))
            files = []
            for mod in modules:
                files += lean_imports(os.path.join(LEAN, mod.replace(".", "/") + ".lean"))
            res["forbidden"] = scan_forbidden(sorted(set(files)))
            for h in res["forbidden"]:
                res["failed"].append({"file": h.split(":")[0], "line": 0, "theorem": None, "msg": "forbidden construct: " + h})
            if thorough and not res["failed"]:
                for mod in modules:
                    rc, out = run(["lake", "env", "leanchecker", mod], cwd=LEAN, timeout=3000)
                    res["leanchecker"] = (rc == 0)
                    if rc != 0:
                        res["failed"].append({"file": mod, "line": 0, "theorem": None, "msg": "leanchecker: " + out[-300:]})
    res["proof_ok"] = res["extract_ok"] and res["build_ok"] and not res["failed"]
    return res

# ---------------------------------------------------------------- harness

class Workdir:
    def __init__(self):
        self.path = tempfile.mkdtemp(prefix="neatvi-verif-")
    def __enter__(self): return self
    def __exit__(self, *a): shutil.rmtree(self.path, ignore_errors=True)
    def file(self, name): return os.path.join(self.path, name)

MSAN_CFLAGS = ["-g", "-O1", "-fsanitize=memory", "-fsanitize-memory-track-origins=1", "-fno-omit-frame-pointer", "-D" + GUARD, "-w"]

def build_harness(wd, name, sources, extra=(), libs=(), cflags=None):
    out = wd.file(name)
    srcs = [s if os.path.isabs(s) else os.path.join(HARNESS, s) for s in sources]
    cmd = ["clang-14"] + (cflags or CFLAGS) + ["-I" + REPO, "-I" + HARNESS] + list(extra) + ["-o", out] + srcs + list(libs)
    rc, o = run(cmd, timeout=600)
    if rc != 0:
        raise HarnessBuildError(name + ": " + o[-1500:])
    return out

class HarnessBuildError(Exception):
    pass

ASAN_ENV = dict(os.environ, MSAN_OPTIONS="exitcode=97:abort_on_error=0", ASAN_OPTIONS="detect_leaks=0:abort_on_error=0:exitcode=99:allocator_may_return_null=1",
                UBSAN_OPTIONS="print_stacktrace=1:halt_on_error=1:exitcode=98", EXINIT="", TERM="dumb")

def run_impl(cmd, case_lines, timeout=120):
    """run a harness over case lines (one output line per case).  Returns (out_lines, crashes)
    where crashes = [(case_line, kind, detail)]; after a crash the run resumes with the next case."""
    outs = []; crashes = []
    pending = list(case_lines)
    base = 0
    while pending:
        data = "".join(l if l.endswith("\n") else l + "\n" for l in pending).encode("utf-8", "surrogateescape")
        try:
            p = subprocess.run(cmd, input=data, stdout=subprocess.PIPE, stderr=subprocess.PIPE, timeout=timeout, env=ASAN_ENV)
            rc = p.returncode; so = p.stdout; se = p.stderr; kind = None
        except subprocess.TimeoutExpired as e:
            rc = -999; so = e.stdout or b""; se = e.stderr or b""; kind = "timeout"
        lines = so.decode("utf-8", "surrogateescape").split("\n")
        if lines and lines[-1] == "": lines.pop()
        complete = [l for l in lines]
        if rc == 0:
            outs += complete
            if len(complete) != len(pending):
                crashes.append((pending[min(len(complete), len(pending) - 1)], "protocol", "expected %d output lines, got %d" % (len(pending), len(complete))))
            break
        # crashed / timed out in case number len(complete) (0-based), unless the last line is partial
        k = min(len(complete), len(pending) - 1)
        if so and not so.endswith(b"\n") and complete:
            complete.pop(); k = min(len(complete), len(pending) - 1)
        outs += complete
        if kind is None:
            kind = "asan" if rc in (99, 98) or b"AddressSanitizer" in se or b"runtime error" in se else ("msan" if rc == 97 or b"MemorySanitizer" in se else "signal(%d)" % rc)
        detail = ""
        m = re.search(rb"(ERROR: AddressSanitizer: [^\n]*|runtime error: [^\n]*|WARNING: MemorySanitizer: [^\n]*)", se)
        if m: detail = m.group(1).decode("utf-8", "replace")
        fr = re.findall(rb"#\d+ 0x[0-9a-f]+ in (\w+) [^\n]*?([\w.]+\.[ch]):(\d+)", se)
        if fr: detail += " at " + " < ".join("%s(%s:%s)" % (a.decode(), b.decode(), c.decode()) for a, b, c in fr[:4])
        crashes.append((pending[k], kind, detail))
        outs.append(pending[k].rstrip("\n") + " crash=1")
        pending = pending[k + 1:]
    return outs, crashes

def run_driver(lines, limit=200):
    data = "".join(l + "\n" for l in lines).encode("utf-8", "surrogateescape")
    p = subprocess.run([DRIVER, str(limit)], input=data, stdout=subprocess.PIPE, stderr=subprocess.PIPE, timeout=3000)
    out = p.stdout.decode("utf-8", "surrogateescape").split("\n")
    res = {"diff": [], "specfail": [], "badcase": [], "summary": {}, "rc": p.returncode, "stderr": p.stderr.decode("utf-8", "replace")[-500:]}
    for l in out:
        if l.startswith("DIFF "): res["diff"].append(l)
        elif l.startswith("SPECFAIL "): res["specfail"].append(l)
        elif l.startswith("BADCASE "): res["badcase"].append(l)
        elif l.startswith("SUMMARY "):
            kv = dict(t.split("=", 1) for t in l.split()[1:] if "=" in t)
            res["summary"][kv["stream"]] = {k: int(v) for k, v in kv.items() if k != "stream"}
    return res

def chunks(seq, n):
    seq = list(seq)
    k = max(1, (len(seq) + n - 1) // n)
    return [seq[i:i + k] for i in range(0, len(seq), k)]

class StreamResult:
    def __init__(self, name):
        self.name = name; self.cases = 0; self.nontrivial = 0; self.diff = []; self.specfail = []
        self.crashes = []; self.badcase = []; self.samples = []; self.extra = {}; self.exhaustive = False; self.rule = ""
    def merge_driver(self, d):
        self.diff += d["diff"]; self.specfail += d["specfail"]; self.badcase += d["badcase"]
        for s, kv in d["summary"].items():
            self.cases += kv.get("cases", 0); self.nontrivial += kv.get("nontrivial", 0)
            for k, v in kv.items():
                if k not in ("cases", "diff", "specfail", "nontrivial", "badcase"):
                    self.extra[k] = self.extra.get(k, 0) + v
        if d["rc"] != 0:
            self.badcase.append("driver exited %d: %s" % (d["rc"], d["stderr"]))

def correspond(name, impl_cmd, cases, shards=None, timeout=300, rule="", exhaustive=False, samples=3):
    """cases -> harness -> driver, sharded.  `cases` is a list of case lines (or None when the harness
    generates its own; then impl_cmd is a list of commands, one per shard)."""
    sr = StreamResult(name); sr.rule = rule; sr.exhaustive = exhaustive
    shards = shards or NCPU
    def work(job):
        cmd, lines = job
        if lines is None:
            p = subprocess.run(cmd, stdout=subprocess.PIPE, stderr=subprocess.PIPE, timeout=timeout, env=ASAN_ENV)
            outs = p.stdout.decode("utf-8", "surrogateescape").split("\n")
            cr = []
            if p.returncode != 0:
                cr.append((" ".join(cmd), "asan" if b"Sanitizer" in p.stderr else "signal(%d)" % p.returncode, p.stderr.decode("utf-8", "replace")[-300:]))
            outs = [l for l in outs if l]
        else:
            outs, cr = run_impl(cmd, lines, timeout=timeout)
        d = run_driver(outs)
        return outs[:samples], cr, d
    if cases is None:
        jobs = [(c, None) for c in impl_cmd]
    else:
        jobs = [(impl_cmd, ch) for ch in chunks(cases, shards)] if cases else []
    with ThreadPoolExecutor(max_workers=NCPU) as ex:
        for outs, cr, d in ex.map(work, jobs):
            sr.merge_driver(d); sr.crashes += cr
            if len(sr.samples) < samples: sr.samples += [o for o in outs if not o.startswith("#")][:samples - len(sr.samples)]
    return sr

# ---------------------------------------------------------------- known findings

def load_known(prop):
    path = os.path.join(ROOT, "KNOWN_FINDINGS.txt")
    out = []
    if not os.path.exists(path): return out
    for line in open(path):
        line = line.strip()
        m = re.match(r"finding: property=(\S+) match=/(.*?)/ :: (.*)", line)
        if m and m.group(1) == prop:
            out.append({"re": re.compile(m.group(2)), "what": m.group(3), "hits": 0})
    return out

# ---------------------------------------------------------------- decide + evidence

def write_replay(prop, seed, idx, kind, clause, case, detail, how):
    os.makedirs(os.path.join(ROOT, "replays"), exist_ok=True)
    path = os.path.join(ROOT, "replays", "%s-%s-%04d.txt" % (prop, seed, idx))
    with open(path, "w") as f:
        f.write("property: %s\nkind:     %s\nclause:   %s\ncase:     %s\ndetail:   %s\nreplay:   %s\n" % (prop, kind, clause, case, detail, how.replace("{path}", path)))
    return path

def decide(prop, tier, seed, proof, streams, t0, level_note="", trusted=(), search=None, extra_cov=None, replay_how=None):
    """print VIOLATION / KNOWN-FINDING lines, write evidence, return exit code"""
    known = load_known(prop)
    import glob
    for old in glob.glob(os.path.join(ROOT, "replays", prop + "-*.txt")):
        try: os.remove(old)
        except OSError: pass
    viol = []        # (kind, clause, case, detail)
    nknown = 0
    def classify(kind, clause, case, detail):
        nonlocal nknown
        text = "%s %s %s" % (kind, clause, case)
        for k in known:
            if k["re"].search(text):
                if k["hits"] == 0:
                    log("KNOWN-FINDING: property=%s %s" % (prop, k["what"]))
                k["hits"] += 1; nknown += 1
                return
        viol.append((kind, clause, case, detail))
    tied_ok = True
    for sr in streams:
        for l in sr.specfail:
            m = re.match(r"SPECFAIL \d+ (\S+) (.*?) \| (.*)", l)
            classify("failing-input", m.group(2) if m else "?", m.group(3) if m else l, l)
        for case, kind, detail in sr.crashes:
            classify("failing-input", "no-trap/" + kind, case.strip(), detail)
        for l in sr.badcase:
            classify("machinery-error", "badcase", l, l)
    # DIFFs whose implementation side did not fail a spec predicate: correspondence differs
    diffs = []
    for sr in streams:
        sf_cases = set(re.sub(r"^SPECFAIL \d+", "", l).split(" | ")[-1] for l in sr.specfail)
        for l in sr.diff:
            case = l.split(" | ")[-1]
            if case not in sf_cases:
                diffs.append((sr.name, l))
    unproved = [] if proof["proof_ok"] else (proof["failed"] or [{"theorem": None, "file": "?", "msg": proof.get("extract_msg", "")}])
    nfi = []
    if (diffs or unproved) and not viol:
        # property no longer shown to hold: widen the search for a failing input
        if search is not None:
            log("search: proof/correspondence broken; widening the search for a failing input")
            more = search()
            for sr in more:
                streams.append(sr)
                for l in sr.specfail:
                    m = re.match(r"SPECFAIL \d+ (\S+) (.*?) \| (.*)", l)
                    classify("failing-input", m.group(2) if m else "?", m.group(3) if m else l, l)
                for case, kind, detail in sr.crashes:
                    classify("failing-input", "no-trap/" + kind, case.strip(), detail)
        if not viol:
            for u in unproved:
                nfi.append(("theorem-no-longer-checks", "%s (%s)" % (u.get("theorem"), u.get("file")), "-", u.get("msg", "")))
            for name, l in diffs[:5]:
                nfi.append(("correspondence-differs", "stream " + name, l.split(" | ")[-1], l))
            if not nfi and not proof.get("driver_ok", True):
                nfi.append(("theorem-no-longer-checks", "driver build", "-", proof["log"][-300:]))
    elif diffs and viol:
        pass
    how = replay_how or ("./check %s --replay {path}" % prop)
    idx = 0
    seen = set()
    per_clause = {}
    for kind, clause, case, detail in viol:
        ck = clause.split(" ")[0]
        key = (ck, case)
        if key in seen or per_clause.get(ck, 0) >= 2 or idx >= 8: continue
        seen.add(key); per_clause[ck] = per_clause.get(ck, 0) + 1
        path = write_replay(prop, seed, idx, kind, clause, case, detail, how); idx += 1
        log("VIOLATION property=%s replay=%s" % (prop, path))
    for kind, clause, case, detail in nfi[:10]:
        path = write_replay(prop, seed, idx, kind, clause, case, detail, how); idx += 1
        log("VIOLATION property=%s replay=%s no-failing-input-found" % (prop, path))
    nviol = len(viol) + len(nfi)
    cov = {
        "obligations": proof["obligations"], "discharged": proof["discharged"],
        "checker_cmd": "lake build %s && lake env lean --run Audit.lean <module> <namespace>%s" % (
            " ".join(proof.get("modules", [])), " && lake env leanchecker <module>" if tier == "thorough" else ""),
        "trusted_base": ["Lean 4.33.0 kernel", "axioms: propext, Classical.choice, Quot.sound (audited per theorem)",
                         "tools/extract.py (tables/constants regenerated from /repo each run)",
                         "correspondence harness + driver (model vs implementation on the streams below)",
                         "clang-14 ASan/UBSan, libc"] + list(trusted),
        "theorems": [t["name"].split(".")[-1] for t in proof["theorems"]],
        "unproved": ["%s: %s" % (u.get("theorem"), u.get("msg", "")[:80]) for u in unproved],
        "evaluations": sum(s.cases for s in streams),
        "distinct_nontrivial": sum(s.nontrivial for s in streams),
        "traces_validated_against_impl": sum(s.cases for s in streams),
        "rule": "; ".join("%s: %s" % (s.name, s.rule) for s in streams),
        "samples": [x for s in streams for x in s.samples[:2]][:12] or ["(no correspondence cases)"],
        "exhaustive": all(s.exhaustive for s in streams) if streams else False,
        "streams": {s.name: {"cases": s.cases, "nontrivial": s.nontrivial, "diff": len(s.diff), "specfail": len(s.specfail),
                             "crashes": len(s.crashes), "exhaustive": s.exhaustive, **s.extra} for s in streams},
        "known_findings_hit": nknown,
        "leanchecker": proof.get("leanchecker"),
    }
    if extra_cov: cov.update(extra_cov)
    ev = {"property_id": prop, "tier": tier, "seed": int(seed), "level": "proof", "coverage": cov,
          "assumptions": [level_note] if level_note else [], "wall_s": round(time.time() - t0, 2), "violations": nviol}
    os.makedirs(os.path.join(ROOT, "evidence"), exist_ok=True)
    with open(os.path.join(ROOT, "evidence", prop + ".json"), "w") as f:
        json.dump(ev, f, indent=1)
    log("%s: %s  theorems %d/%d  cases %d  nontrivial %d  diffs %d  specfails %d  crashes %d  known %d  (%.1fs)" % (
        prop, "PASS" if nviol == 0 else "FAIL", proof["discharged"], proof["obligations"], cov["evaluations"],
        cov["distinct_nontrivial"], sum(len(s.diff) for s in streams), sum(len(s.specfail) for s in streams),
        sum(len(s.crashes) for s in streams), nknown, time.time() - t0))
    return 0 if nviol == 0 else 1

class Rng:
    """splitmix64"""
    def __init__(self, seed):
        self.s = (int(seed) * 0x9E3779B97F4A7C15 + 0x1234567) & (2**64 - 1)
    def next(self):
        self.s = (self.s + 0x9E3779B97F4A7C15) & (2**64 - 1)
        z = self.s
        z = ((z ^ (z >> 30)) * 0xBF58476D1CE4E5B9) & (2**64 - 1)
        z = ((z ^ (z >> 27)) * 0x94D049BB133111EB) & (2**64 - 1)
        return z ^ (z >> 31)
    def below(self, n): return self.next() % n if n > 0 else 0
    def choice(self, xs): return xs[self.below(len(xs))]
    def pick(self, xs): return xs[self.below(len(xs))]
    def chance(self, num, den): return self.below(den) < num

def hexs(bs):
    return bytes(bs).hex() if len(bs) else "-"
