"""generator of `ren` cases: lines mixing the character classes that matter for layout and bidi"""
from vlib import Rng, hexs

LATIN = [ord(c) for c in "abzAZ_"]
DIGIT = [ord(c) for c in "019"]
NEUT = [ord(c) for c in " -!().,:/$\\*[]{}'`"]
ARAB = [0x627, 0x628, 0x644, 0x633, 0x645, 0x647, 0x648, 0x64a, 0x67e, 0x6cc, 0x621, 0x640, 0x61b, 0x60c]
DIAC = [0x64b, 0x64e, 0x651, 0x652, 0x670, 0x655]
ZW = [0x200c, 0x200d, 0x301, 0x200b, 0x5b0]
WIDE = [0x3042, 0x1100, 0xac00, 0xff01, 0x1f200]
BELL = [0x1, 0x7f, 0x80, 0xad, 0x1f600, 0xfeff, 0x85]
OTHER = [0xe9, 0x20ac, 0x10000, 0x2028, 0xfb56, 0xfe8d, 0xfc5e]
SNIPPETS = ["\\*[ab]", "$x+y$", "\\f{ab}", "\\fB", "a\\*[سل]b", "س ل", "$ا$", "\\(em"]

def gen_line(rng, maxlen=14):
    n = rng.below(maxlen + 1)
    cps = []
    mode = rng.below(6)
    while len(cps) < n:
        r = rng.below(20)
        if mode == 0: pool = LATIN if r < 12 else (NEUT if r < 16 else (DIGIT if r < 18 else [9]))
        elif mode == 1: pool = ARAB if r < 10 else (NEUT if r < 13 else (DIAC if r < 15 else (LATIN if r < 18 else ZW)))
        elif mode == 2: pool = [9] if r < 5 else (WIDE if r < 9 else (LATIN if r < 14 else (ZW if r < 16 else BELL)))
        elif mode == 3:
            if r < 6:
                cps += [ord(c) for c in rng.choice(SNIPPETS)]; continue
            pool = LATIN if r < 11 else (ARAB if r < 16 else NEUT)
        elif mode == 4: pool = LATIN + ARAB if r < 12 else (NEUT if r < 16 else DIGIT)
        else: pool = LATIN + DIGIT + NEUT + ARAB + DIAC + ZW + WIDE + BELL + OTHER + [9]
        cps.append(rng.choice(pool))
    if rng.below(8) != 0:
        cps.append(10)
    return cps

def case(cps, order, lim, td, shape=1):
    s = "".join(chr(c) for c in cps).encode("utf-8")
    return "ren line=%s order=%d lim=%d td=%d shape=%d" % (hexs(s), order, lim, td, shape)

def gen_cases(rng, count, maxlen=14):
    out = []
    for _ in range(count):
        cps = gen_line(rng, maxlen)
        n = len(cps)
        order = rng.choice([0, 1, 1, 2, 2])
        lim = rng.choice([-1, n - 1, n, n + 1, 100, 100, 1000, 1000])
        td = rng.choice([-2, -1, 0, 1, 1, 2])
        out.append(case(cps, order, lim, td, rng.below(2)))
    return out

def tab_cases():
    """tabs at every column 0..9, with a wide and a zero-width neighbour"""
    out = []
    for col in range(0, 10):
        for tail in ([0x61], [0x3042], [0x301, 0x61], [9, 0x62]):
            cps = [0x61] * col + [9] + tail + [10]
            for order, lim in ((1, -1), (2, 100)):
                out.append(case(cps, order, lim, 1))
    return out
